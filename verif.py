#!/usr/bin/env python3
"""Driver of the olareg verification framework (property-based testing and fuzzing).

  verif.py check <id> <quick|thorough>   run the check of one property against /repo's working tree
  verif.py replay <id> <path>            re-run a saved failure (rapid fail file embedded in the replay json)
  verif.py setup                         warm the build caches (MANIFEST.setup_cmd)
  verif.py manifest                      regenerate MANIFEST.json from the table below
  verif.py baseline                      run the repository's own suite with the guard off
  verif.py seeded [<dir>...]             apply each /verif/seeded/<id>/patch.diff, expect the check to fire, revert

Exit codes of check: 0 held on everything explored, 1 violation (prints VIOLATION property=<id> replay=<path>),
2 infrastructure problem / inconclusive (never used to hide a violation).
"""
import base64
import fcntl
import glob
import json
import os
import re
import resource
import shutil
import tempfile
import signal
import subprocess
import sys
import time

VERIF = os.path.dirname(os.path.abspath(__file__))
REPO = os.environ.get("VERIF_REPO", "/repo")
WORK = os.environ.get("VERIF_WORK", "/var/tmp/verif-work")
# sensitivity experiments run against a scratch copy of the repository and write their evidence/replays elsewhere
OUT = os.environ.get("VERIF_RESULTS", VERIF)
# harness, hooks and shims are taken from here (a frozen copy during sensitivity experiments that run beside development)
PARTS = os.environ.get("VERIF_PARTS", VERIF)
NCPU = os.cpu_count() or 4

GOENV = {
    "GOFLAGS": "-mod=mod",
    "GOPROXY": "off",
    "GOSUMDB": "off",
    "GOTOOLCHAIN": "local",
    "GONOSUMCHECK": "1",
    "GONOSUMDB": "*",
}

# --------------------------------------------------------------------------- check table
# run: test = -test.run regexp; n = rapid.checks per tier (total over shards); shards per tier;
#      steps = rapid.steps; variant = build variant; timeout in seconds per shard.
def R(test, quick, thorough, shards=(8, 16), steps=None, timeout=(900, 6000), extra=None, norapid=False, env=None, fuzz=None, tiers=("quick", "thorough"), variant=None, rounds=None):
    """fuzz = seconds of native 'go test -fuzz' (coverage guided, all cores); such an entry only runs in the tiers listed."""
    return dict(test=test, n=dict(quick=quick, thorough=thorough), shards=dict(quick=shards[0], thorough=shards[1]),
                steps=steps, timeout=dict(quick=timeout[0], thorough=timeout[1]), extra=extra or [], norapid=norapid, env=env or {}, fuzz=fuzz, tiers=tiers,
                variant=variant,  # variant: build variant of this run if it differs from the check's
                rounds=dict(quick=(rounds or (1, 1))[0], thorough=(rounds or (1, 1))[1]))  # the case count is per round


CHECKS = {}


def check(pid, title, level, technique, level_text, level_note, design_ref, runs, variant="plain", fuzz=None):
    CHECKS[pid] = dict(id=pid, title=title, level=level, technique=technique, level_text=level_text, level_note=level_note,
                       design_ref=design_ref, runs=runs, variant=variant, fuzz=fuzz or [])


check("C18", "index invariants", "exploration",
      "rapid state machine on types.Index vs abstract model (invariants I1-I7)",
      "Randomised model-based search: tens of thousands (quick) to millions (thorough) of generated AddDesc/RmDesc/AddChildren/Copy sequences, "
      "each step compared with an abstract tag/subject/child model and seven invariants; failures shrink to a few steps. Sampling, not proof.",
      "Trusted: the doc comments of AddDesc/RmDesc as the specification of the model; top-level membership is read from the exported Manifests field.",
      "DESIGN.md §3 C18",
      [R("^TestC18$", 40000, 3000000, steps=40)])

check("C01", "served content hashes to its digest", "exploration",
      "rapid state machine over upload protocols/algorithms/wrong digests; oracle = independent re-hash of every served body + refusal + blob-file scan",
      "Randomised stateful search over upload protocols (monolithic, POST+PUT, chunked with drawn boundaries), session/final algorithm combinations, interleaved sessions, "
      "mounts and manifest pushes with correct and wrong digests on both stores; every body served for any digest or tag of the case is re-hashed independently. "
      "A second state machine drives the upload object of both stores directly (Write/Verify/ChangeAlgorithm in any order, then Close, Cancel, or Cancel followed by Close): the name a blob is committed under must be the digest of all bytes written. TestC01Faults (vfs build): the fault histories of TestC02Faults (failing reads and writes, short writes, a client that "
      "resumes a failed chunk, restarts) - every file under blobs/<alg>/<hex> hashes to its name and every 200 carries bytes that hash to the digest it is served under.",
      "Trusted: crypto/sha256, crypto/sha512 of the Go standard library as the reference hash; in-process transport (httptest) instead of a socket.",
      "DESIGN.md §3 C01",
      [R("^TestC01$", 6000, 300000, steps=25), R("^TestC01Store$", 16000, 1000000, steps=20), R("^TestC01Faults$", 4000, 200000, variant="vfs")])

check("C02", "acknowledged pushes read back identically", "exploration",
      "rapid state machine vs reference model (bytes, length, digest, media type, range slices) over push/delete/collect/restart histories",
      "Randomised model-based search over histories of pushes, re-pushes, tag moves, deletes, collections and restarts on both stores, with manifest sizes around the "
      "configured limit (known and unknown Content-Length), generated Accept lists and byte ranges; every acknowledged item is read back by digest and tag after every step. TestC02Faults (vfs build): the k-th mutating file-system call of a generated history fails with EIO; every push acknowledged before or after the fault that no later request "
      "addressed must read back byte-identical from the running server and after Close + New.",
      "Trusted: the naive map model; collections run under a retain-everything policy here (policy-dependent retention is C05's oracle); by-digest visibility of manifests "
      "affected by open finding C02/orphaned-child is not asserted (counted in evidence).",
      "DESIGN.md §3 C02",
      [R("^TestC02$", 4000, 180000, steps=40), R("^TestC02Faults$", 12000, 300000, variant="vfs")])

check("C03", "tags are a last-writer-wins map; listing and paging exact", "exploration",
      "rapid state machine vs model map tag->digest; Link chains followed to the end; n/last boundary values",
      "Randomised model-based search over tag pushes, overwrites, multi-tagging, tag and digest deletes and restarts with grammar-edge tags on both stores; after every step the full "
      "listing, every tag and every digest is compared with the model; listings with every kind of n/last value are followed along their Link chain. TestC03Faults (vfs build): the fault histories of TestC02Faults judged for tags - an acknowledged tag that no later request addressed still resolves to its manifest and the listing equals the set of resolvable tags, on the running server and after Close + New.",
      "Trusted: the model map; byte-order comparison of Go strings as 'lexical order'.",
      "DESIGN.md §3 C03",
      [R("^TestC03$", 4000, 80000, steps=40), R("^TestC03Faults$", 8000, 300000, variant="vfs")])

check("C04", "only complete, well-formed manifests accepted; refusals change nothing", "exploration",
      "rapid generator of valid manifests + structural/byte mutations; oracle = independent acceptance predicate + before/after snapshot equality (API battery + file tree)",
      "Randomised search over manifest bodies (valid, truncated, non-object, missing/foreign/deleted/malformed references, contradictory media types), Content-Types, references and "
      "?digest= values in empty and populated repositories of both stores; acceptance is compared with a predicate written from the property text, and every refusal is "
      "bracketed by snapshots of all read endpoints of all repositories and of the directory tree.",
      "Trusted: the acceptance predicate c04Predict (narrow reading of 'consistent with the body': header vs non-empty mediaType field); JSON null bodies and the "
      "detection path (no Content-Type) are only checked in the 201 => valid direction.",
      "DESIGN.md §3 C04",
      [R("^TestC04$", 3000, 150000, steps=30)])

check("C07", "referrers responses list exactly the manifests with that subject", "exploration",
      "rapid state machine vs model set {m present : subject(m)=S}; field-exact descriptors; filter header; Link chains; page limits; restart",
      "Randomised model-based search over artifact histories (push by tag/digest, re-push, tag overwrite, delete by tag/digest, subject delete, restart) on both stores with response "
      "limits from one descriptor to unlimited; every listing (plain, filtered, repeated so that the page cache answers) is followed along its Link chain and compared field by field. TestC07Faults (vfs build): artifact pushes and deletes on a subject with 1-4 artifacts, each with its k-th reading file-system call failing with EIO "
      "(k uniform over the reads the same request makes on a copy of the directory, server restarted before each so that everything is loaded anew): acknowledged, undeleted artifacts stay listed once, deleted ones are not listed, also after Close + New.",
      "Trusted: the model; page-size arithmetic re-computed with encoding/json over the same field set. Collections run under a retain-everything policy (GC effects on listings are C05/C06).",
      "DESIGN.md §3 C07",
      [R("^TestC07$", 20000, 900000, steps=30), R("^TestC07Faults$", 1500, 60000, variant="vfs")])

check("C16", "repositories isolated; storage access stays inside the root", "exploration",
      "rapid state machine on a vfs-instrumented build: per-repository models + file-system path log + sentinel tree outside the root",
      "Randomised stateful search over 3-5 repositories with nested/prefix/reserved-like names (dir store and mem-over-dir), mounts with valid and hostile sources, sessions used "
      "across repositories, hostile digests/ids/dot-segment paths; every read endpoint of every repository is compared with per-repository models after each step, every path "
      "handed to a file-system call of internal/store is checked to lie under root/<addressed repository>, and a sentinel tree next to the root is snapshotted (names, sizes, hashes, mtimes).",
      "Trusted: the check-time rewrite of os.* calls in internal/store to the logging shim (the driver refuses to run if an os.* call remains un-routed); an independent router "
      "(path.Clean + OCI name grammar) decides which repository a request addresses.",
      "DESIGN.md §3 C16",
      [R("^TestC16$", 2400, 120000, steps=30)], variant="vfs")

check("C10", "the directory is a valid OCI layout equal to the API state", "exploration",
      "rapid state machine; oracle = OCI-layout validator after every step + index.json/API/model equality + dir-vs-mem, restart and mem-over-dir differentials; rapid histories with injected file-system faults, oracle = layout validator + restart differential",
      "Randomised stateful search on the dir store with a mem store driven in lock-step (nested names, three digest algorithms, indexes, artifacts, sessions, deletes, collections with "
      "EmptyRepo on/off at any step, restarts anywhere); after every step the tree is validated as an OCI layout and compared with the API and the model, and every read is compared "
      "across dir/mem, across Close+reopen and against a mem store layered over the directory. TestC10Faults (vfs build): the k-th mutating file-system call of a generated history fails with EIO "
      "(k uniform over the calls), the history continues; at the end the tree must be a valid layout and the running server and a new server on the directory must answer every read alike.",
      "Trusted: the validator in harness/layout.go (written from the image-layout spec wording quoted by the property); by-digest visibility of manifests touched by open finding "
      "orphaned-child (finding 12) is excluded from the differentials and counted; while finding C10/gc-save-failed-entries-without-blob is listed, TestC10Faults judges a collecting case's directory after the next collection (counted).",
      "DESIGN.md §3 C10",
      [R("^TestC10$", 3600, 60000, shards=(8, 16), steps=30), R("^TestC10FirstWrite$", 4000, 100000), R("^TestC10CloseFinal$", 640, 16000),
       R("^TestC10Faults$", 10000, 300000, variant="vfs")])

check("C08", "upload sessions sequential, isolated, no residue", "exploration",
      "rapid state machine inside a testing/synctest bubble (virtual time, true quiescence) vs session model; residue scan of _uploads",
      "Randomised model-based search over session protocols with correct, stale, future and malformed offsets/state tokens, empty chunks, wrong digests, mount-fallback sessions, "
      "foreign-repository use, use after end, bursts beyond RepoUploadMax and sleeps around the grace period, on both stores. Time is virtual, so eviction goroutines and expiry "
      "timers run to completion at every synctest.Wait and the bound/expiry rules are checked exactly.",
      "Trusted: testing/synctest of go1.26.8 (the check is built with that toolchain; file mtimes stay real inside a bubble, which this check does not depend on); the session model; "
      "eviction choice is not specified: a session may only be reported unknown after the bound was exceeded while it was open or after it was idle for the grace period.",
      "DESIGN.md §3 C08",
      [R("^TestC08$", 16000, 1000000, steps=40), R("^TestC08Overlap$", 4000, 200000)], variant="go126")

check("C20", "the bounded cache never drops an entry without its cleanup", "exploration",
      "rapid state machine over cache.Cache inside a testing/synctest bubble; oracle = ledger of callback invocations vs membership (incarnations), LRU and age rules on the virtual clock",
      "Randomised stateful search over Set/Get/Delete/DeleteAll/List with virtual sleeps around Age and 1.1xAge for every Age x Count combination of the design, with callbacks that "
      "succeed, fail or are parked on a channel the state machine owns (so Delete-vs-Set, Delete-vs-Delete and DeleteAll-vs-Set interleavings are produced deterministically); "
      "every disappearance must be covered by a successful cleanup of that very value.",
      "Trusted: testing/synctest of go1.26.8; the ledger oracle; overwriting a live key by Set is an update (exempt), as documented for PruneFn.",
      "DESIGN.md §3 C20",
      [R("^TestC20$", 96000, 6000000, steps=40)], variant="go126")

check("C17", "fallback-tag referrers converted without loss, repeatably", "exploration",
      "rapid generator of legacy fallback-tag layouts; oracle = expected grouping by actual subject (field-exact) + repeat/restart differential + crash-point enumeration of the conversion through the vfs shim + termination watchdog",
      "Randomised search over generated legacy layouts (accurate, stale, foreign-subject, missing-blob, mixed, wrong-field and empty fallback indexes, sha256/sha512 subjects, pre-existing "
      "responses, already-converted layouts, unrelated content) opened by a writable dir store and by mem-over-dir; the conversion is repeated, and interrupted at sampled (quick) or all "
      "(thorough) mutating file-system calls in three modes (before, after, torn write) and then repeated; the same with an I/O error instead of a crash at each mutating call and at each reading call (the server lives on, is asked again, closed, and "
      "the directory re-opened); every open runs under a watchdog that inspects the goroutine dump.",
      "Trusted: the layout generator's expectation (union of listed descriptors whose manifest exists and names the subject, recomputed from the manifests); process-crash model of the vfs shim "
      "(no loss of un-synced pages); pre-existing converted responses are generated accurate only.",
      "DESIGN.md §3 C17",
      [R("^TestC17$", 2000, 32000, shards=(8, 16), timeout=(1200, 6000))], variant="vfs")

check("C14", "read-only stores and disabled APIs change nothing", "exploration",
      "rapid generator of pre-built roots (healthy/legacy/corrupt) x switch combinations x request mixes; oracle = byte/mtime-exact snapshot of the root and its parent + status class per switch + read sweep",
      "Randomised search over pre-existing directory contents (produced by a writable server, by the legacy-layout generator, or corrupted in six ways), the read-only/mem-over-dir/"
      "switch-off configurations with every combination of the push/delete/blob-delete/referrer switches and a 1 ms GC ticker, and request mixes containing every method on every endpoint; "
      "after Close the tree (names, modes, sizes, hashes, mtimes of files and directories, including the parent directory) must be identical. TestC14Faults (vfs build): one reading file-system call of the first request "
      "to a read-only directory store or a memory store over the directory fails with EIO; afterwards every pre-existing tag, manifest and blob must be served and the tree must be unchanged.",
      "Trusted: os.Stat mtimes with nanosecond resolution on the scratch file system; read expectations only for healthy and adoptable roots (open finding C14/ro-legacy-regeneration; corrupt "
      "roots answer depending on the store's 1 s re-check window).",
      "DESIGN.md §3 C14",
      [R("^TestC14$", 4800, 250000), R("^TestC14Faults$", 3000, 150000, variant="vfs")])

check("C05", "GC never removes retained or recent content", "exploration",
      "rapid state machine building object graphs with aliasing/nesting/referrers + ageing + collections at any step under every policy; oracle = must-keep closure computed on the model from the statement, pull walk of every tag",
      "Randomised model-based search over object graphs (shared and aliased digests, nested indexes, foreign-typed children, referrers of referrers, dangling/blob-only/circular subjects), "
      "push/delete histories, ageing, and collections per repository, store-wide and through restart under all 16 policy combinations x grace {off, 1 h} x {mem, dir}; before each collection "
      "the must-keep set is computed from the statement alone (settings never add to it), after it every member must be served byte-identically, every tag must resolve and pull completely. A second generator runs 2-5 clients pushing complete images "
      "(shared layers, three upload protocols, optionally over stale copies of the same layers) while a 1 ms ticker and a collection loop run with every policy on and a 1 h grace: no upload may be lost between its blobs and its manifest. TestC05Faults (vfs build): one reading file-system call of a collection (uniform over the reads of a fault-free collection of the same directory) fails with EIO; every tag must still pull completely and the artifact of a tagged subject must stay served and listed. "
      "A third test owns the schedule (vfs pause points): a collection of the directory store is paused before its stat or its removal of an old blob and a client request (a completing PUT already in flight, uploads, a mount, a manifest push) runs at that moment.",
      "Trusted: the closure in c05_test.go (two documented weakenings from Appendix B of DESIGN.md; root status of child manifests is not asserted while finding C05/orphaned-child is open - counted "
      "in evidence); ageing through the add-only hook VerifAgeBlobs (Chtimes / in-memory metadata).",
      "DESIGN.md §3 C05",
      [R("^TestC05$", 12000, 400000, steps=35), R("^TestC05Concurrent$", 1600, 20000, shards=(4, 16)), R("^TestC05Interleave$", 96, 1200, shards=(8, 16), variant="vfs"),
       R("^TestC05Faults$", 2400, 100000, variant="vfs")])

check("C06", "collection removes exactly the garbage, converges, is not starved", "exploration",
      "E2 object graphs + multi-repository mixes (ghost/empty/removed/corrupt) aged beyond grace; oracle = reachability over the post-pass index (no garbage, no dangling entry), policy rules where unambiguous, second pass is a no-op, per healthy repository",
      "Randomised search over object graphs and delete histories in two healthy repositories plus up to six unhealthy ones (only ever read, emptied and removed, index.json garbage or deleted, directory "
      "deleted behind the store), everything older than the grace period; one store-wide pass must leave, in every healthy repository, only blobs reachable from the surviving index entries, no entry "
      "without blob, nothing untagged/unrooted when untagged collection is on, no non-empty referrers response of a subject it removed (policies of Appendix B), no directory of an emptied repository, "
      "and a second pass must change neither index, blob set, API answers nor the tree. TestC06Expiry (virtual-time bubble aligned with the real clock, directory store with its own ticker and session expiry "
      "running): repositories that only ever held upload sessions - created, kept alive by a slow client, cancelled or left to expire at generated times - must be gone after a quiet period.",
      "Trusted: reachability computed by the harness over blobs read back through the API and the index obtained through the add-only hook VerifIndexJSON; ambiguous policy combinations (Untagged off + "
      "ReferrersDangling on for never-existing subjects) and empty responses are not asserted.",
      "DESIGN.md §3 C06",
      [R("^TestC06$", 6000, 300000, steps=30), R("^TestC06Monotone$", 3200, 100000, steps=30),
       R("^TestC06Expiry$", 4000, 200000, steps=14, variant="go126")])

check("C15", "any request gets a well-formed answer", "exploration",
      "grammar-based request generator in rapid sequences over prepared states + the same generator under Go's native coverage-guided fuzzer (thorough); oracle = no panic, no 5xx on healthy storage, OCI error schema + code table + condition-specific codes, independent router",
      "Randomised search over methods, paths assembled from hostile and valid segments, boundary query values, headers and bodies, sent in sequences of up to 15 over six prepared states (empty, populated "
      "with paged referrers, open sessions, read-only, dir root with a corrupt and a legacy repository); the thorough tier additionally runs the generator under 'go test -fuzz' on all cores. A recovered "
      "handler panic is a violation (in-process transport), every 4xx/5xx body must be an OCI error document with registered codes, and an independently written router decides what must be a 404. TestC15Overlap lets the condition arise while the request runs: the body reader of a PATCH/PUT hands over a drawn number of bytes, another client cancels or evicts the session, the rest follows - no 5xx, code BLOB_UPLOAD_UNKNOWN.",
      "Trusted: the independent router/grammar in c15_test.go; the 416 text/plain answer of net/http.ServeContent is exempt from the error-document rule; 5xx is tolerated only for repositories the generator corrupted.",
      "DESIGN.md §3 C15",
      [R("^TestC15$", 24000, 400000), R("^TestC15Overlap$", 4000, 200000), R("^FuzzC15$", 0, 0, fuzz=600, tiers=("thorough",))])

check("C09", "a crash at any filesystem step loses nothing acknowledged and tears nothing", "fault_enumeration",
      "rapid generator of request histories x enumeration of crash points (every mutating file-system call of the fault-free run, modes before/after/torn-write) through the vfs shim; oracle = layout validator + acknowledged-prefix model + all-or-nothing on the interrupted request",
      "Generated histories are interpreted once without faults to number the mutating file-system calls of internal/store; then each numbered call is a crash point in three modes (quick: up to 14 points per "
      "history, drawn; thorough: all of them, exhaustive per history): the history is re-executed on a fresh root, the simulated process dies at the point (later mutations suppressed, goroutine parked, no Close), "
      "and a new server opens the tree. Checked: every read answers without 5xx, the tree is a loadable layout with every blob file hashing to its name, every tag pulls completely, every acknowledged request "
      "is still in effect, and the interrupted request is wholly absent or wholly present; a crash inside a collection must leave the tagged closure intact and a repeated collection must converge.",
      "Trusted: the source rewrite that routes os.* calls of internal/store through the shim (checked for completeness at build time); process-crash model only (no loss of un-synced pages, as the property states); "
      "crash point k is 'the k-th mutating call of this run' (session ids and temp names are random); referrers membership is outside the all-or-nothing comparison while finding C09/torn-referrers-update is open.",
      "DESIGN.md §3 C09",
      [R("^TestC09$", 128, 2400, timeout=(1200, 3300))], variant="vfs")

check("C11", "concurrent requests never lose or tear updates", "exploration",
      "rapid generator of small concurrent programs run on real goroutines (16 cores); oracle A = quiescent invariants over the recorded history, oracle B = porcupine linearizability check against the sequential tag/manifest/referrers model",
      "Sampling of schedules: thousands of generated programs (2-5 clients x 1-5 operations on one repository: same-tag pushes, artifacts to the same subjects, deletes, listings, referrers reads, uploads, optional "
      "background collections) are released together; every call is recorded with call/return times. Lost or torn updates show either at quiescence (acknowledged, never-deleted manifest or referrer missing; tag "
      "resolving to a digest nobody pushed under it) or as a history that no sequential order consistent with real time explains (porcupine). A second generator lets 2-4 clients use one upload "
      "session at once (PATCH at remembered or freshly queried offsets, bodies arriving in small reads, status queries): acknowledged chunks must tile the upload, status answers must lie within the bytes acknowledged/started, "
      "and completing with the digest of the concatenation must succeed and read back exactly. Owned schedules for pairs (TestC11Interleave on the vfs build, TestC11InterleaveLocks on the vsync build): request R1 is paused before "
      "its k-th file-system call / mutex acquisition (k over all of them), R2 runs in that gap; answers, readable state and readable state after a restart must equal those of R1;R2 or R2;R1 executed on fresh copies - "
      "an oracle by execution that needs no model.",
      "Trusted: porcupine v1.3.0; monotonic clock readings around each call; the Go scheduler decides the interleavings (the harness owns neither the scheduler nor the points inside a handler), so absence is not "
      "established. A second 202 for a delete that raced past the same existence check is accepted; while finding C11/artifact-put-not-atomic is open an artifact push is modelled as two atomic steps, "
      "and while C11/session-patch-not-atomic is open the harness admits one PATCH per session at a time.",
      "DESIGN.md §3 C11",
      [R("^TestC11$", 8000, 60000, shards=(8, 16)), R("^TestC11Upload$", 12000, 80000, shards=(8, 16)), R("^TestC11Interleave$", 1600, 40000, shards=(8, 16), variant="vfs"), R("^TestC11InterleaveLocks$", 2400, 60000, shards=(8, 16), variant="vsync")])

check("C13", "concurrent use of one server is free of data races", "exploration",
      "rapid generator of concurrent programs with background ticker/timers on a -race build; oracle = Go race detector (reports parsed into signatures by the driver)",
      "Sampling of schedules under the race detector: generated programs (first writes and reads of fresh repositories by several clients, uploads against eviction and expiry, artifacts and deletes on shared "
      "subjects, filtered/paged referrers through the page cache, several client addresses through the rate limiter) run against a server with a 1-5 ms GC ticker and short grace periods, followed by Close. "
      "Any report of the detector is a violation; its signature is the unordered pair of top olareg frames with access kinds.",
      "Trusted: the Go race detector (reports only races on executed, concurrently scheduled accesses); this is fuzzing of schedules, not a proof of race freedom.",
      "DESIGN.md §3 C13",
      [R("^TestC13$", 6000, 12000, shards=(8, 16), timeout=(1800, 6000), rounds=(1, 3))], variant="race")

check("C12", "no schedule can hang the registry", "exploration",
      "rapid generator of concurrent programs on a vsync-instrumented build with injected delays after lock acquisitions + rapid generator of request histories with injected file-system faults (vfs build); oracle = wait-for-graph cycle / stall monitor, cancellation and Close/Shutdown bounds, termination watchdog after a fault",
      "Sampling and perturbation of schedules: generated programs (chunked uploads against eviction and expiry with RepoUploadMax 1-4 and grace 5-50 ms, abandoned sessions, pipe-fed slow manifest bodies, cancelled "
      "requests, 1-5 ms GC ticker) run on a build whose mutexes record who waits for whom; generated delays of up to 300 us after a drawn subset of lock sites widen race windows. A cycle in the wait-for graph "
      "that persists over two monitor snapshots is an actual deadlock (reported with both acquisition sites and all olareg goroutine stacks); a second scenario runs Server.Run on loopback and calls Shutdown "
      "while keep-alive clients are sending, with and without rate limit; a third keeps one repository held by a stalled manifest PUT for 1.2 s (many grace periods) while requests with cancelled contexts go to the same and to other repositories; a fourth calls Close while clients are still sending; a fifth (vfs build) injects the fault instead of the schedule: "
      "the k-th mutating file-system call of a generated request history (k uniform over the calls the history makes) fails with EIO, optionally a second one later, and every following request on both repositories, a collection and Close must return.",
      "Trusted: the check-time rewrite of sync.Mutex/sync.WaitGroup in olareg.go, internal/store, internal/cache to recording wrappers; liveness is approximated by bounded completion (20 s, 100x normal latency) and a "
      "stall is only called when the monitor itself kept ticking; hangs needing a specific interleaving of more than two lock sites may be missed.",
      "DESIGN.md §3 C12",
      [R("^TestC12$", 3000, 40000, shards=(8, 16), timeout=(1200, 6000)), R("^TestC12Shutdown$", 96, 1600, shards=(4, 8), timeout=(1200, 6000)), R("^TestC12Holder$", 32, 480, shards=(8, 16), timeout=(1200, 6000)), R("^TestC12CloseUnderLoad$", 4000, 100000, shards=(8, 16), timeout=(1200, 6000)),
       R("^TestC12Faults$", 8000, 400000, shards=(8, 16), timeout=(1200, 6000), variant="vfs")], variant="vsync")

check("C19", "every setting has its documented effect", "exploration",
      "rapid over Config values (defaults), over flag vectors of the built binary with a probe battery vs a behaviour table, over request/address/delay sequences in a synctest bubble vs the accounting-window model, and over signal moments",
      "Four generated layers: (1) arbitrary Config values through SetDefaults twice (explicit values kept, documented defaults filled, idempotent); (2) 'olareg serve' built from the tree under test and started "
      "as a process per generated flag vector, probed over loopback and compared with the behaviour table written from the flag help (push/delete/blob-delete/referrer/read-only/store type/dir/warnings/rate limit); "
      "(3) the rate limiter on a virtual clock against RateLimit 1-5 with requests arriving via RemoteAddr (several ports) and X-Forwarded-For; (4) SIGTERM/SIGINT while idle, during a slow upload or a burst: exit "
      "status 0 within 20 s, the directory a valid layout, everything acknowledged still served by a fresh server. Two in-process layers were added later: TestC19Toggle (two servers whose settings differ in exactly one of "
      "11 switches answer the same probes over copies of one directory: equal except where the switch governs, there per the table) and TestC19GC (a negative gc frequency: nothing is ever collected, whatever the "
      "grace period, policy, cache eviction or restart).",
      "Trusted: the behaviour table in c19_test.go (from the flag help text and config.go comments); testing/synctest for layer 3; a request exactly one second after its window opened may be counted either way; "
      "the microsecond window between signal.Notify and Server.Run storing its http.Server cannot be hit from outside the process (not claimed).",
      "DESIGN.md §3 C19",
      [R("^TestC19Defaults$", 20000, 1000000), R("^TestC19Rate$", 8000, 400000), R("^TestC19CLI$", 24, 640, shards=(6, 16), timeout=(1200, 6000)), R("^TestC19GC$", 1200, 24000), R("^TestC19Toggle$", 3000, 60000)], variant="go126")

NOT_APPLICABLE = {}

# --------------------------------------------------------------------------- helpers


def log(*a):
    print(*a, file=sys.stderr, flush=True)


def goenv(extra=None):
    e = dict(os.environ)
    e.update(GOENV)
    if extra:
        e.update(extra)
    return e


def gobin(variant):
    return "go1.26.8" if variant in ("go126",) else "go"


def sh(cmd, **kw):
    return subprocess.run(cmd, **kw)


def load_known():
    p = os.path.join(VERIF, "known_findings.json")
    if not os.path.exists(p):
        return {"open": [], "fixed": []}
    with open(p) as f:
        return json.load(f)


class Lock:
    def __init__(self, path):
        self.path = path

    def __enter__(self):
        os.makedirs(os.path.dirname(self.path), exist_ok=True)
        self.f = open(self.path, "w")
        fcntl.flock(self.f, fcntl.LOCK_EX)
        return self

    def __exit__(self, *a):
        fcntl.flock(self.f, fcntl.LOCK_UN)
        self.f.close()


# --------------------------------------------------------------------------- scratch tree


VFS_FUNCS = "MkdirAll|CreateTemp|WriteFile|Rename|Remove|RemoveAll|Create|OpenFile|Mkdir|Open|Stat|ReadFile|ReadDir|Chtimes|Truncate|Symlink|Link"
OS_READONLY_OK = {"IsNotExist", "IsExist", "ErrNotExist", "FileMode", "FileInfo", "DirEntry", "ErrExist", "File", "PathSeparator"}


def rewrite_vfs(src):
    """E3: route filesystem calls of internal/store through the vfs shim."""
    shutil.copytree(os.path.join(PARTS, "shims", "vfs"), os.path.join(src, "internal", "vfs"), dirs_exist_ok=True)
    for fn in ("dir.go", "mem.go"):
        p = os.path.join(src, "internal", "store", fn)
        s = open(p).read()
        s = re.sub(r"\bos\.(%s)\(" % VFS_FUNCS, r"vfs.\1(", s)
        s = re.sub(r"\*os\.File\b", "*vfs.File", s)
        s = s.replace('\t"os"\n', '\t"os"\n\n\t"github.com/olareg/olareg/internal/vfs"\n', 1)
        # anything left that could touch the file system unnoticed?
        for m in re.finditer(r"\bos\.([A-Z]\w*)", s):
            if m.group(1) not in OS_READONLY_OK:
                raise Infra("vfs rewrite incomplete: os.%s remains in %s" % (m.group(1), fn))
        if "os." not in s.replace('"os"', ""):
            s = s.replace('\t"os"\n\n', "", 1)
        open(p, "w").write(s)


def rewrite_vsync(src):
    """E4: recording replacements for sync.Mutex / sync.WaitGroup."""
    shutil.copytree(os.path.join(PARTS, "shims", "vsync"), os.path.join(src, "internal", "vsync"), dirs_exist_ok=True)
    for rel in ("olareg.go", "internal/store/dir.go", "internal/store/mem.go", "internal/cache/cache.go"):
        p = os.path.join(src, rel)
        s = open(p).read()
        s2 = re.sub(r"\bsync\.(Mutex|WaitGroup)\b", r"vsync.\1", s)
        if "sync." not in s2.replace("vsync.", ""):
            s2 = s2.replace('\t"sync"\n', '\t"github.com/olareg/olareg/internal/vsync"\n', 1)
        else:
            s2 = s2.replace('\t"sync"\n', '\t"sync"\n\n\t"github.com/olareg/olareg/internal/vsync"\n', 1)
        open(p, "w").write(s2)


class Infra(Exception):
    pass


def prepare(work, variant):
    """rsync /repo's working tree, add hooks + harness, build the test binary. Returns path of the binary."""
    src = os.path.join(work, "src")
    har = os.path.join(work, "harness")
    os.makedirs(work, exist_ok=True)
    for d in (src, har, os.path.join(work, "run"), os.path.join(work, "out")):
        shutil.rmtree(d, ignore_errors=True)
    r = sh(["rsync", "-a", "--delete", "--exclude", ".git", REPO + "/", src + "/"])
    if r.returncode != 0:
        raise Infra("rsync of %s failed" % REPO)
    # hooks (guard: build tag verif), add-only files
    shutil.copy(os.path.join(PARTS, "inject", "verif_hooks.go"), os.path.join(src, "verif_hooks.go"))
    shutil.copy(os.path.join(PARTS, "inject", "store_verif_hooks.go"), os.path.join(src, "internal", "store", "verif_hooks.go"))
    if variant == "vfs":
        rewrite_vfs(src)
    if variant == "vsync":
        rewrite_vsync(src)
    shutil.copytree(os.path.join(PARTS, "harness"), har)
    shutil.copy(os.path.join(REPO, "go.sum"), os.path.join(har, "go.sum"))
    tags = "verif"
    if variant == "vfs":
        tags += ",verifvfs"
    if variant == "vsync":
        tags += ",verifvsync"
    if variant == "go126":
        tags += ",verifbubble"
    binp = os.path.join(work, "vh.test")
    cmd = [gobin(variant), "test", "-c", "-vet=off", "-tags", tags, "-o", binp]
    if variant == "race":
        cmd.insert(2, "-race")
    cmd.append(".")
    t0 = time.time()
    r = sh(cmd, cwd=har, env=goenv(), stdout=subprocess.PIPE, stderr=subprocess.STDOUT, text=True)
    if r.returncode != 0:
        raise Infra("harness build failed (%s):\n%s" % (" ".join(cmd), r.stdout[-6000:]))
    log("[build] %s variant=%s %.1fs" % (os.path.basename(work), variant, time.time() - t0))
    return binp


def limit_mem(variant):
    def f():
        os.setsid()
        if variant != "race":
            lim = 48 << 30
            try:
                resource.setrlimit(resource.RLIMIT_AS, (lim, lim))
            except Exception:
                pass
    return f


# --------------------------------------------------------------------------- running


def run_shards(binp, work, pid, tier, run, seed, known_open, variant):
    """Start all shards of one run entry; return list of (shard, returncode, output, outdir, cwd)."""
    nshards = max(1, min(run["shards"][tier], NCPU))
    if run.get("fuzz"):
        nshards = 1
    total = run["n"][tier]
    per = max(1, total // nshards)
    procs = []
    for i in range(nshards):
        name = "%s-%d" % (re.sub(r"\W", "", run["test"]) + ("r%d" % run["salt"] if run.get("salt") else ""), i)
        cwd = os.path.join(work, "run", name)
        out = os.path.join(work, "out", name)
        os.makedirs(cwd, exist_ok=True)
        os.makedirs(out, exist_ok=True)
        sseed = (seed * 1000003 + i * 7919 + run.get("salt", 0) * 104729 + 1) % (2**62) or 1
        cmd = [binp, "-test.run", run["test"], "-test.timeout", "%ds" % run["timeout"][tier], "-test.count", "1"]
        if run.get("fuzz"):
            # coverage guidance needs a binary built with the fuzzer's instrumentation (what 'go test -fuzz' adds itself)
            fb = os.path.join(work, "vhfuzz.test")
            if not os.path.exists(fb):
                tags = "verif" + {"vfs": ",verifvfs", "vsync": ",verifvsync", "go126": ",verifbubble"}.get(variant, "")
                rb = sh([gobin(variant), "test", "-c", "-vet=off", "-tags", tags, "-gcflags=all=-d=libfuzzer", "-o", fb, "."],
                        cwd=os.path.join(work, "harness"), env=goenv(), stdout=subprocess.PIPE, stderr=subprocess.STDOUT, text=True)
                if rb.returncode != 0:
                    raise Infra("instrumented harness build failed:\n%s" % rb.stdout[-4000:])
            binp = fb
            # native fuzzing cannot be pinned to a seed: the saved failing input is the reproducible unit
            cmd = [binp, "-test.run", "^$", "-test.fuzz", run["test"], "-test.fuzztime", "%ds" % run["fuzz"], "-test.fuzzcachedir", os.path.join(work, "fuzzcache"),
                   "-test.parallel", str(NCPU), "-test.timeout", "%ds" % (run["fuzz"] + 300)]
        elif not run["norapid"]:
            cmd += ["-rapid.checks", str(per), "-rapid.seed", str(sseed), "-rapid.shrinktime", "20s"]
            if run["steps"]:
                cmd += ["-rapid.steps", str(run["steps"])]
        cmd += run["extra"]
        # every shard gets its own scratch directory (RAM backed when there is one) and the driver removes it when the
        # shard has ended: whatever a killed or crashed case leaves behind goes with it
        base = "/dev/shm" if os.path.isdir("/dev/shm") and os.access("/dev/shm", os.W_OK) else tempfile.gettempdir()
        vtmp = os.path.join(base, "verif-tmp-%s-%s-%s-%d-%d" % (pid, tier, re.sub(r"\W", "", run["test"]), i, os.getpid()))
        shutil.rmtree(vtmp, ignore_errors=True)
        os.makedirs(vtmp, exist_ok=True)
        env = goenv({"VERIF_TMP": vtmp, "VERIF_OUT": out, "VERIF_SHARD": str(i), "VERIF_TIER": tier, "VERIF_SEED": str(sseed), "VERIF_N": str(per),
                     "VERIF_KNOWN_OPEN": ",".join(known_open), "VERIF_SRC": os.path.join(work, "src"), "VERIF_DIR": VERIF,
                     "GORACE": "halt_on_error=0 log_path=%s/race" % out})
        env.update(run["env"])
        if run.get("fuzz"):
            env["VERIF_FUZZ"] = "1"
            # seed corpus committed under /verif/corpus/<FuzzName>/ is offered to the fuzzer
            cdir = os.path.join(VERIF, "corpus", run["test"].strip("^$"))
            if os.path.isdir(cdir):
                shutil.copytree(cdir, os.path.join(cwd, "testdata", "fuzz", run["test"].strip("^$")), dirs_exist_ok=True)
        # output goes to a file, not a pipe: the shards are waited for one after the other, and a shard whose pipe is
        # full blocks inside whatever wrote to stderr (net/http logging from a request handler, for one)
        lf = open(os.path.join(out, "shard-output.log"), "w")
        p = subprocess.Popen(cmd, cwd=cwd, env=env, stdout=lf, stderr=subprocess.STDOUT, text=True, preexec_fn=limit_mem(variant))
        lf.close()
        procs.append((i, p, out, cwd, sseed, per, vtmp))
    res = []

    def output_of(out):
        try:
            with open(os.path.join(out, "shard-output.log"), errors="replace") as f:
                f.seek(0, 2)
                n = f.tell()
                f.seek(max(0, n - (8 << 20)))
                return f.read()
        except OSError:
            return ""

    for i, p, out, cwd, sseed, per, vtmp in procs:
        try:
            p.wait(timeout=(run["fuzz"] + 600) if run.get("fuzz") else run["timeout"][tier] + 120)
            o = output_of(out)
        except subprocess.TimeoutExpired:
            try:
                os.killpg(p.pid, signal.SIGKILL)
            except Exception:
                pass
            p.wait()
            o = output_of(out)
            o = (o or "") + "\n[driver] shard killed after driver timeout"
            shutil.rmtree(vtmp, ignore_errors=True)
            res.append(dict(shard=i, rc=-9, out=o, outdir=out, cwd=cwd, seed=sseed, per=per))
            continue
        shutil.rmtree(vtmp, ignore_errors=True)
        if run.get("fuzz") and p.returncode != 0 and os.path.isdir(os.path.join(cwd, "testdata", "fuzz")):
            # keep the inputs the fuzzer saved (a crashed worker leaves no failure record of the harness)
            keep = os.path.join(WORK, "fuzz-crashers-%s" % pid)
            shutil.copytree(os.path.join(cwd, "testdata", "fuzz"), keep, dirs_exist_ok=True)
            o = (o or "") + "\n[driver] inputs saved by the fuzzer were copied to %s" % keep
        res.append(dict(shard=i, rc=p.returncode, out=o, outdir=out, cwd=cwd, seed=sseed, per=per))
    return res


def collect(results):
    stats, fails = [], []
    for r in results:
        for p in glob.glob(os.path.join(r["outdir"], "stats-*.json")):
            try:
                stats.append(json.load(open(p)))
            except Exception:
                pass
        for p in glob.glob(os.path.join(r["outdir"], "fail-*.json")):
            try:
                rec = json.load(open(p))
            except Exception:
                continue
            rec["_shard"] = r
            fails.append(rec)
    return stats, fails


def parse_races(results):
    """Turn Go race detector reports (GORACE log_path files) into failure records."""
    recs = []
    for r in results:
        for p in glob.glob(os.path.join(r["outdir"], "race.*")):
            try:
                txt = open(p, errors="replace").read()
            except Exception:
                continue
            for block in txt.split("=================="):
                if "WARNING: DATA RACE" not in block:
                    continue
                tops = []
                kinds = []
                for m in re.finditer(r"^(Read|Write|Previous read|Previous write|Atomic read|Atomic write|Previous atomic read|Previous atomic write) at 0x[0-9a-f]+ by (?:main )?goroutine[^\n]*\n((?:  .*\n(?:      .*\n)?)+)", block, re.M):
                    kinds.append(m.group(1).replace("Previous ", "").lower())
                    top = "?"
                    for fm in re.finditer(r"^  (\S+)\(\)", m.group(2), re.M):
                        fn = fm.group(1)
                        if "olareg" in fn and "verifharness" not in fn:
                            top = re.sub(r"^github.com/olareg/olareg/?", "", fn)
                            top = re.sub(r"^internal/", "", top)
                            break
                    tops.append(top)
                if not tops:
                    tops = ["?"]
                pair = sorted(zip(tops, kinds + ["?"] * len(tops)))
                sig = "race:" + "|".join("%s[%s]" % (t, k) for t, k in pair)
                harness_only = all(t == "?" for t in tops)
                recs.append(dict(property="C13", signature="C13/" + sig, test="TestC13", message=block.strip()[:6000], trace=["(see the race report in 'message'; the program that ran is in the shard output)"],
                                 shard=str(r["shard"]), _shard=r, _harness_only=harness_only))
    return recs


def merge_stats(stats):
    ev = 0
    hashes = set()
    dn_fallback = 0
    classes, excluded, extra = {}, {}, {}
    samples, rules = [], []
    for s in stats:
        ev += s.get("evaluations", 0)
        hs = s.get("nontrivial_hashes") or []
        hashes.update(hs)
        if len(hs) < s.get("distinct_nontrivial", 0):
            dn_fallback += s["distinct_nontrivial"] - len(hs)
        for k, v in (s.get("classes") or {}).items():
            classes[k] = classes.get(k, 0) + v
        for k, v in (s.get("excluded_by_known_finding") or {}).items():
            excluded[k] = excluded.get(k, 0) + v
        for k, v in (s.get("extra") or {}).items():
            if isinstance(v, (int, float)) and isinstance(extra.get(k), (int, float)):
                extra[k] += v
            elif isinstance(v, list) and isinstance(extra.get(k), list):
                extra[k] = (extra[k] + v)[:50]
            else:
                extra.setdefault(k, v)
        for smp in s.get("samples") or []:
            if len(samples) < 6:
                samples.append({"test": s.get("name"), "case": smp})
        if s.get("rule") and s["rule"] not in rules:
            rules.append(s["rule"])
    return dict(evaluations=ev, distinct_nontrivial=len(hashes) + dn_fallback, classes=classes, excluded=excluded, extra=extra,
                samples=samples, rule=" || ".join(rules))


def rapid_failfile(cwd):
    fs = sorted(glob.glob(os.path.join(cwd, "testdata", "rapid", "*", "*.fail")), key=os.path.getmtime)
    return fs[-1] if fs else None


def save_replay(pid, rec, tier, seed):
    d = os.path.join(OUT, "replays", pid)
    os.makedirs(d, exist_ok=True)
    r = rec.pop("_shard")
    ff = rapid_failfile(r["cwd"])
    rep = dict(rec)
    rep.update(tier=tier, verif_seed=seed, shard_seed=r["seed"], test=rec.get("test"))
    if ff:
        rep["rapid_failfile_b64"] = base64.b64encode(open(ff, "rb").read()).decode()
    rep["output_tail"] = r["out"][-3000:]
    sig = re.sub(r"[^A-Za-z0-9_.-]", "_", rec.get("signature", "x"))
    p = os.path.join(d, "%s-%s-seed%s.json" % (sig, tier, seed))
    json.dump(rep, open(p, "w"), indent=1)
    return p


def write_evidence(pid, tier, seed, level, merged, wall, violations, assumptions, notes=None):
    cov = dict(evaluations=merged["evaluations"], distinct_nontrivial=merged["distinct_nontrivial"], rule=merged["rule"],
               samples=merged["samples"], classes=merged["classes"], excluded_by_known_finding=merged["excluded"])
    cov.update({k: v for k, v in merged["extra"].items() if k not in cov})
    if notes:
        cov["notes"] = notes
    ev = dict(property_id=pid, tier=tier, seed=seed, level=level, coverage=cov, assumptions=assumptions, wall_s=round(wall, 1), violations=violations)
    os.makedirs(os.path.join(OUT, "evidence"), exist_ok=True)
    json.dump(ev, open(os.path.join(OUT, "evidence", pid + ".json"), "w"), indent=1)


def cmd_check(pid, tier):
    if pid not in CHECKS:
        log("unknown or unclaimed property", pid)
        return 2
    c = CHECKS[pid]
    seed = int(os.environ.get("VERIF_SEED", "1") or 1)
    if seed == 0:
        seed = 0x5EED
    known = load_known()
    open_f = [k for k in known.get("open", []) if k["property"] == pid]
    open_sigs = [k["signature"] for k in known.get("open", [])]
    t0 = time.time()
    work = os.path.join(WORK, "%s-%s" % (pid, tier))
    ev_path = os.path.join(OUT, "evidence", pid + ".json")
    if os.path.exists(ev_path):
        os.remove(ev_path)
    try:
        with Lock(work + ".lock"):
            try:
                binp = prepare(work, c["variant"])
                bins = {c["variant"]: (binp, work)}
                all_stats, violations, known_hits, infra = [], [], [], []
                notes = []
                # a run may be split into rounds (fresh processes with other seeds: long-lived -race processes slow down)
                expanded = [dict(run, salt=rd) for run in c["runs"] for rd in range((run.get("rounds") or {}).get(tier, 1))]
                # development aid (never used by a registered command): restrict a check to the runs whose test name matches
                if os.environ.get("VERIF_ONLY"):
                    expanded = [run for run in expanded if re.search(os.environ["VERIF_ONLY"], run["test"])]
                    notes.append("restricted to runs matching %s" % os.environ["VERIF_ONLY"])
                for run in expanded:
                    if tier not in run.get("tiers", ("quick", "thorough")):
                        continue
                    rv = run.get("variant") or c["variant"]
                    if rv not in bins:
                        w2 = work + "-" + rv
                        bins[rv] = (prepare(w2, rv), w2)
                    binp_r, work_r = bins[rv]
                    attempt_seed = seed
                    for attempt in range(3):
                        results = run_shards(binp_r, work_r, pid, tier, run, attempt_seed, open_sigs, rv)
                        stats, fails = collect(results)
                        if rv == "race":
                            races = parse_races(results)
                            if any(x["_harness_only"] for x in races):
                                raise Infra("data race inside the harness itself:\n" + [x for x in races if x["_harness_only"]][0]["message"][:3000])
                            # one record per signature; a shard whose only problem is a reported race is not an infra failure
                            seen = set()
                            for x in races:
                                x.pop("_harness_only")
                                if x["signature"] not in seen:
                                    seen.add(x["signature"])
                                    fails.append(x)
                        all_stats += stats
                        retry = False
                        for rec in fails:
                            sig = rec.get("signature", "")
                            if sig in [k["signature"] for k in open_f]:
                                known_hits.append(sig)
                                retry = True
                            else:
                                violations.append(rec)
                        for r in results:
                            has_fail = any(f.get("_shard") is r or f.get("shard") == str(r["shard"]) for f in fails)
                            if rv == "race" and "race detected during execution of test" in r["out"]:
                                has_fail = True
                            if r["rc"] != 0 and not has_fail:
                                infra.append(r)
                            if r["rc"] == 0:
                                m = re.search(r"OK, passed (\d+) tests", r["out"])
                                if m and not run["norapid"] and int(m.group(1)) < r["per"]:
                                    notes.append("shard %d of %s stopped at %s of %d cases (time budget): inconclusive for the rest" % (r["shard"], run["test"], m.group(1), r["per"]))
                        if violations or infra or not retry:
                            break
                        attempt_seed = attempt_seed * 31 + 7  # the search stopped on a listed finding: continue elsewhere
                        notes.append("main search hit a listed known finding; re-ran with another seed")
                # listed findings: run each reproducer once with its avoidance switch off
                kf_lines = []
                for k in open_f:
                    rep = k.get("reproducer")
                    if not rep:
                        continue
                    run = R("^%s$" % rep, 1, 1, shards=(1, 1), norapid=True, timeout=(300, 300))
                    kv = k.get("variant") or c["variant"]  # a reproducer that needs an owned schedule names its build variant
                    if kv not in bins:
                        w2 = work + "-" + kv
                        bins[kv] = (prepare(w2, kv), w2)
                    results = run_shards(bins[kv][0], bins[kv][1], pid, tier, run, seed, [s for s in open_sigs if s != k["signature"]], kv)
                    _, fails = collect(results)
                    if any(f.get("signature") == k["signature"] for f in fails):
                        kf_lines.append("KNOWN-FINDING: property=%s %s [%s]" % (pid, k["what"], k["signature"]))
                    elif fails:
                        violations += fails
                    elif results[0]["rc"] != 0:
                        infra.append(results[0])
                    else:
                        notes.append("listed finding %s no longer reproduces with its saved reproducer" % k["signature"])
                for s in sorted(set(known_hits)):
                    line = [l for l in kf_lines if "[%s]" % s in l]
                    if not line:
                        k = [k for k in open_f if k["signature"] == s][0]
                        kf_lines.append("KNOWN-FINDING: property=%s %s [%s]" % (pid, k["what"], s))
                merged = merge_stats(all_stats)
                wall = time.time() - t0
                assumptions = [c["level_note"]]
                if violations:
                    # keep the shortest trace per signature
                    best = {}
                    for rec in violations:
                        s = rec.get("signature")
                        if s not in best or len(rec.get("trace") or []) < len(best[s].get("trace") or []):
                            best[s] = rec
                    if merged["evaluations"] >= 1 and merged["distinct_nontrivial"] >= 0:
                        write_evidence(pid, tier, seed, c["level"], pad(merged), wall, len(best), assumptions, notes)
                    for l in kf_lines:
                        print(l)
                    for s, rec in best.items():
                        path = save_replay(pid, rec, tier, seed)
                        log("[violation] %s: %s" % (s, rec.get("message", "")[:2000]))
                        print("VIOLATION property=%s replay=%s" % (pid, path))
                    return 1
                if infra:
                    for r in infra[:2]:
                        full = os.path.join(WORK, "infra-%s-%s-shard%s.log" % (pid, tier, r["shard"]))
                        try:
                            open(full, "w").write(r["out"])
                        except OSError:
                            full = "(could not be written)"
                        head = [l for l in r["out"].splitlines() if re.search(r"panic|--- FAIL|\[rapid\] (failed|panic|flaky)|fatal error|deadlock|timed out", l)][:12]
                        log("[infra] shard %s rc=%s (full output: %s)\n%s\n...\n%s" % (r["shard"], r["rc"], full, "\n".join(head), r["out"][-1500:]))
                    return 2
                if merged["evaluations"] < 1:
                    log("[infra] no statistics were produced")
                    return 2
                write_evidence(pid, tier, seed, c["level"], pad(merged), wall, 0, assumptions, notes)
                for l in kf_lines:
                    print(l)
                for n in notes:
                    log("[note]", n)
                log("[ok] %s %s: %d cases, %d distinct non-trivial, %.1fs" % (pid, tier, merged["evaluations"], merged["distinct_nontrivial"], wall))
                return 0
            finally:
                if not os.environ.get("VERIF_KEEP"):
                    shutil.rmtree(work, ignore_errors=True)
    except Infra as e:
        log("[infra]", e)
        return 2


def pad(merged):
    return merged


def cmd_replay(pid, path):
    c = CHECKS.get(pid)
    if not c:
        return 2
    rep = json.load(open(path))
    work = os.path.join(WORK, "%s-replay" % pid)
    try:
        with Lock(work + ".lock"):
            try:
                binp = prepare(work, c["variant"])
                cwd = os.path.join(work, "run", "replay")
                out = os.path.join(work, "out", "replay")
                os.makedirs(cwd)
                os.makedirs(out)
                test = rep.get("test") or c["runs"][0]["test"].strip("^$")
                cmd = [binp, "-test.run", "^%s$" % test, "-test.v", "-test.timeout", "600s"]
                if rep.get("rapid_failfile_b64"):
                    ff = os.path.join(cwd, "replay.fail")
                    open(ff, "wb").write(base64.b64decode(rep["rapid_failfile_b64"]))
                    cmd += ["-rapid.failfile", ff]
                else:
                    cmd += ["-rapid.seed", str(rep.get("shard_seed", 1))]
                known = load_known()
                env = goenv({"VERIF_OUT": out, "VERIF_SHARD": "0", "VERIF_TIER": rep.get("tier", "quick"), "VERIF_SRC": os.path.join(work, "src"), "VERIF_DIR": VERIF,
                             "VERIF_SEED": str(rep.get("shard_seed", 1)),
                             "VERIF_KNOWN_OPEN": ",".join(k["signature"] for k in known.get("open", []) if k["signature"] != rep.get("signature"))})
                r = sh(cmd, cwd=cwd, env=env, stdout=subprocess.PIPE, stderr=subprocess.STDOUT, text=True)
                print(r.stdout[-8000:])
                fails = glob.glob(os.path.join(out, "fail-*.json"))
                if fails:
                    print("VIOLATION property=%s replay=%s" % (pid, path))
                    return 1
                return 0 if r.returncode == 0 else 2
            finally:
                if not os.environ.get("VERIF_KEEP"):
                    shutil.rmtree(work, ignore_errors=True)
    except Infra as e:
        log("[infra]", e)
        return 2


def cmd_setup():
    """Build every variant once so that later checks hit the build cache."""
    rc = 0
    variants = sorted(set(c["variant"] for c in CHECKS.values()))
    for v in variants:
        work = os.path.join(WORK, "setup-%s" % v)
        try:
            with Lock(work + ".lock"):
                prepare(work, v)
                shutil.rmtree(work, ignore_errors=True)
        except Infra as e:
            log("[setup]", e)
            rc = 2
    return rc


def cmd_baseline():
    r = sh(["go", "test", "-vet=off", "-count=1", "./..."], cwd=REPO, env=goenv({"GOFLAGS": "-mod=mod"}))
    return r.returncode


def cmd_manifest():
    checks = []
    for pid in sorted(CHECKS):
        c = CHECKS[pid]
        checks.append(dict(
            property_id=pid,
            quick_cmd="python3 verif.py check %s quick" % pid,
            thorough_cmd="python3 verif.py check %s thorough" % pid,
            evidence_file="evidence/%s.json" % pid,
            replay_cmd_template="python3 verif.py replay %s {path}" % pid,
            engine=c["runs"][0]["test"].strip("^$") if c["runs"] else "",
            level_claimed=dict(category=c["level"], text=c["level_text"], design_ref=c["design_ref"]),
            level_note=c["level_note"],
            technique=c["technique"],
        ))
    props = [json.loads(l)["id"] for l in open(os.path.join(VERIF, "properties.jsonl")) if l.strip()]
    na = []
    for pid in props:
        if pid not in CHECKS:
            na.append(dict(property_id=pid, reason=NOT_APPLICABLE.get(pid, "check not built yet in this session; planned in DESIGN.md §3 (no technique switch intended)")))
    man = dict(
        version=1,
        setup_cmd="python3 verif.py setup",
        hooks=dict(
            guard="verif",
            enable="checks copy /repo's working tree to a scratch directory, add the add-only files of /verif/inject (all '//go:build verif') and build with 'go test -tags verif'; nothing is committed to /repo for hooks",
            baseline_off_cmd="cd /repo && GOFLAGS=-mod=mod go test -vet=off -count=1 ./...",
            source_commits=[],
            add_only=True,
        ),
        engines=[
            dict(name="harness", path="harness/", serves_properties=sorted(CHECKS), kind_free_text="Go test package (rapid v1.3.0 state machines, native fuzz targets, porcupine) built against a scratch copy of /repo"),
            dict(name="driver", path="verif.py", serves_properties=sorted(CHECKS), kind_free_text="python3 driver: scratch copy, hook injection, source rewrites (vfs/vsync shims), sharding, evidence, replay files, known findings"),
        ],
        checks=checks,
        not_applicable=na,
        notes="Technique family: property-based testing and fuzzing. See DESIGN.md. known_findings.json lists open and fixed findings.",
    )
    json.dump(man, open(os.path.join(VERIF, "MANIFEST.json"), "w"), indent=1)
    print("wrote MANIFEST.json: %d checks, %d not claimed" % (len(checks), len(na)))
    return 0


def cmd_seeded(dirs):
    """Sensitivity: apply each seeded patch, run the property's quick check, expect exit 1, revert.
    Default: the patch is applied to /repo itself (git apply ... git checkout -- .), nothing else may run meanwhile.
    With VERIF_SEEDED_SCRATCH=<dir>: a detached worktree of /repo HEAD is created at <dir>/repo, patched there, and the
    checks run against it with their work directory, evidence and replays under <dir> (other checks can run meanwhile)."""
    if not dirs:
        dirs = sorted(glob.glob(os.path.join(VERIF, "seeded", "*")))
    scratch = os.environ.get("VERIF_SEEDED_SCRATCH")
    rows = []
    if scratch:
        frozen = os.path.join(scratch, "parts")
        shutil.rmtree(frozen, ignore_errors=True)
        for part in ("harness", "inject", "shims"):
            shutil.copytree(os.path.join(VERIF, part), os.path.join(frozen, part))
    for d in dirs:
        d = os.path.abspath(d)
        meta_p = os.path.join(d, "meta.json")
        if not os.path.exists(meta_p):
            continue
        meta = json.load(open(meta_p))
        patch = os.path.join(d, "patch.diff")
        env = dict(os.environ)
        if scratch:
            target = os.path.join(scratch, "repo")
            sh(["git", "-C", REPO, "worktree", "remove", "--force", target], stderr=subprocess.DEVNULL)
            if sh(["git", "-C", REPO, "worktree", "add", "-q", "--detach", target, "HEAD"]).returncode != 0:
                return 2
            out = os.path.join(scratch, "out")
            shutil.rmtree(out, ignore_errors=True)
            env.update(VERIF_REPO=target, VERIF_WORK=os.path.join(scratch, "work"), VERIF_RESULTS=out, VERIF_PARTS=frozen)
        else:
            target, out = REPO, VERIF
            st = sh(["git", "-C", REPO, "status", "--porcelain"], stdout=subprocess.PIPE, text=True).stdout.strip()
            if st:
                log("refusing: /repo is dirty")
                return 2
        r = sh(["git", "-C", target, "apply", patch])
        if r.returncode != 0:
            rows.append((os.path.basename(d), "patch does not apply"))
            if scratch:
                sh(["git", "-C", REPO, "worktree", "remove", "--force", target])
            continue
        try:
            checks = meta.get("check_with", [meta["property"]])
            if os.environ.get("VERIF_SEEDED_CHECKS"):
                checks = os.environ["VERIF_SEEDED_CHECKS"].split(",")
            for pid in checks:
                t0 = time.time()
                r = sh([sys.executable, os.path.join(VERIF, "verif.py"), "check", pid, meta.get("tier", "quick")], stdout=subprocess.PIPE, stderr=subprocess.PIPE, text=True, env=env)
                viol = [l for l in r.stdout.splitlines() if l.startswith("VIOLATION")]
                # replays produced against a patched tree belong to the seeded change, not to replays/
                os.makedirs(os.path.join(d, "caught"), exist_ok=True)
                names = []
                for l in viol:
                    rp = l.split("replay=", 1)[-1].strip()
                    names.append(os.path.basename(rp))
                    if os.path.exists(rp) and rp.startswith(os.path.join(out, "replays")):
                        shutil.move(rp, os.path.join(d, "caught", os.path.basename(rp)))
                res_p = os.path.join(d, "result.json")
                res = json.load(open(res_p)) if os.path.exists(res_p) else {}
                res[pid] = {"tier": meta.get("tier", "quick"), "exit": r.returncode,
                            "violations": ["VIOLATION property=%s replay=seeded/%s/caught/%s" % (pid, os.path.basename(d), n) for n in names]}
                json.dump(res, open(res_p, "w"), indent=1, sort_keys=True)
                rows.append((os.path.basename(d), pid, "rc=%d" % r.returncode, "%.0fs" % (time.time() - t0), viol[:1]))
                print(*rows[-1], flush=True)
        finally:
            if scratch:
                sh(["git", "-C", REPO, "worktree", "remove", "--force", target])
                shutil.rmtree(os.path.join(scratch, "work"), ignore_errors=True)
                shutil.rmtree(out, ignore_errors=True)
            else:
                sh(["git", "-C", REPO, "checkout", "--", "."])
                # evidence files were rewritten from a mutated tree: restore the committed ones
                sh(["git", "-C", VERIF, "checkout", "--", "evidence"], stderr=subprocess.DEVNULL)
    return 0


def main():
    a = sys.argv[1:]
    if not a:
        print(__doc__)
        return 2
    os.chdir(VERIF)
    if a[0] == "check" and len(a) == 3:
        return cmd_check(a[1], a[2])
    if a[0] == "replay" and len(a) == 3:
        return cmd_replay(a[1], a[2])
    if a[0] == "setup":
        return cmd_setup()
    if a[0] == "manifest":
        return cmd_manifest()
    if a[0] == "baseline":
        return cmd_baseline()
    if a[0] == "seeded":
        return cmd_seeded(a[1:])
    print(__doc__)
    return 2


if __name__ == "__main__":
    sys.exit(main())
