// Package vfs: counting/crashing filesystem shim (spike).
package vfs

import (
	"fmt"
	"io/fs"
	"os"
	"sync"
	"sync/atomic"
)

var (
	mu      sync.Mutex
	count   int
	armAt   int  // crash before mutating op number armAt (1-based); 0 = never
	torn    bool // if the op is a write, write half then crash
	dead    atomic.Bool
	Crashed = make(chan struct{}, 1)
	Log     []string
)

func Reset(arm int, tornWrite bool) {
	mu.Lock()
	defer mu.Unlock()
	count, armAt, torn = 0, arm, tornWrite
	dead.Store(false)
	Log = nil
	select {
	case <-Crashed:
	default:
	}
}

func Count() int { mu.Lock(); defer mu.Unlock(); return count }

// step returns false if the op must be skipped (process is dead); parks forever at the crash point.
func step(kind, path string) bool {
	if dead.Load() {
		return false
	}
	mu.Lock()
	count++
	Log = append(Log, fmt.Sprintf("%d %s %s", count, kind, path))
	hit := armAt != 0 && count == armAt
	mu.Unlock()
	if hit {
		dead.Store(true)
		Crashed <- struct{}{}
		select {} // the process is gone
	}
	return true
}

type File struct{ *os.File }

func (f *File) Write(p []byte) (int, error) {
	if !step("write", f.Name()) {
		return len(p), nil
	}
	return f.File.Write(p)
}

func MkdirAll(p string, m os.FileMode) error {
	if !step("mkdirall", p) {
		return nil
	}
	return os.MkdirAll(p, m)
}
func CreateTemp(d, pat string) (*File, error) {
	if !step("createtemp", d+"/"+pat) {
		select {}
	}
	f, err := os.CreateTemp(d, pat)
	if err != nil {
		return nil, err
	}
	return &File{f}, nil
}
func WriteFile(n string, b []byte, m os.FileMode) error {
	if !step("writefile", n) {
		return nil
	}
	return os.WriteFile(n, b, m)
}
func Rename(a, b string) error {
	if !step("rename", a+" -> "+b) {
		return nil
	}
	return os.Rename(a, b)
}
func Remove(n string) error {
	if !step("remove", n) {
		return nil
	}
	return os.Remove(n)
}
func Stat(n string) (fs.FileInfo, error)      { return os.Stat(n) }
func Open(n string) (*File, error) {
	f, err := os.Open(n)
	if err != nil {
		return nil, err
	}
	return &File{f}, nil
}
func ReadFile(n string) ([]byte, error)       { return os.ReadFile(n) }
func ReadDir(n string) ([]os.DirEntry, error) { return os.ReadDir(n) }
