// Package vfs is the file-system shim of the verification harness (engine E3).
// internal/store's calls to os.* are redirected here by a check-time source rewrite (never committed).
// It logs every path, numbers every mutating call under a watched root, and can simulate a process
// crash at the n-th mutating call: the root is marked dead (every later mutation under it, from any
// goroutine, is suppressed) and the calling goroutine is parked forever.
package vfs

import (
	"io"
	"io/fs"
	"os"
	"path/filepath"
	"strings"
	"sync"
	"syscall"
	"time"
)

// Op is one logged file-system call.
type Op struct {
	N    int    // index among the mutating calls under the armed/watched root (0 for reads)
	Kind string // mkdirall, createtemp, write, writefile, rename, remove, stat, open, readfile, readdir
	Path string // cleaned path (for rename: the source)
	To   string // rename target
	Mut  bool
}

const (
	ModeBefore = 0 // die before the call takes effect
	ModeAfter  = 1 // die right after the call took effect
	ModeTorn   = 2 // writes: half of the bytes reach the file, then die (other calls: as ModeBefore)
)

var (
	mu       sync.Mutex
	log      []Op
	logOn    bool
	watch    string // root whose mutating calls are counted
	count    int
	armAt    int
	armMode  int
	deadRoot = map[string]bool{}
	crashed  = make(chan struct{}, 1)
	// MatchKind/MatchSuffix (optional): arm on the first mutating call of that kind whose path ends with the suffix
	matchKind, matchSuffix string
	// pause point (optional): before the first call of that kind whose path ends with the suffix takes effect, fn runs
	// on the calling goroutine (the harness owns the schedule there: it can let other requests run and come back)
	pauseKind, pauseSuffix string
	pauseFn                func()
	// pause point by position (optional): before the n-th call (reads included) under the watched root, counted from
	// the moment of installation, fn runs on the calling goroutine
	pauseIn   int
	pauseInFn func()
	steps     int // all calls under the watched root since Reset
	// handles handed out and not closed yet, by the path they were opened for: when a process dies the kernel closes
	// its descriptors; the parked goroutines of a simulated dead process never will, so Forget does it for them
	openFiles = map[*os.File]string{}
	// injected fault (optional): the n-th mutating call under the watched root, counted from Reset, is not performed
	// and returns ErrInjected (an I/O error of a healthy process, as opposed to the death of the process)
	failAt int
	// the same for calls that only read (open, stat, readfile, readdir), counted separately: the n-th such call under
	// the watched root since Reset fails
	failReadAt int
	reads      int
	failShort  bool
	failMore   int // mutating calls that fail after the one FailAt points at
)

// ErrInjected is what a call hit by FailAt returns.
var ErrInjected = &os.PathError{Op: "vfs", Path: "injected fault", Err: syscall.EIO}

// FailReadAt makes the n-th (1-based) reading call (open, stat, readfile, readdir) under the watched root fail with
// ErrInjected, once. ReadCount tells how many such calls were seen since Reset.
func FailReadAt(n int) {
	mu.Lock()
	failReadAt = n
	mu.Unlock()
}

// ReadCount returns the number of reading calls seen under the watched root since Reset.
func ReadCount() int {
	mu.Lock()
	defer mu.Unlock()
	return reads
}

// FailShort decides what an injected fault does to a write: false = nothing is written, true = the first half of the
// buffer reaches the file before the error is returned (a short write).
func FailShort(on bool) {
	mu.Lock()
	failShort = on
	mu.Unlock()
}

// FailRun makes the n-th mutating call under the watched root and the count-1 mutating calls after it fail (a disk that
// is full for a while): FailAt(n) is FailRun(n, 1).
func FailRun(n, count int) {
	mu.Lock()
	failAt, failMore = n, count-1
	mu.Unlock()
}

// FailAt makes the n-th (1-based) mutating call under the watched root fail with ErrInjected, once.
func FailAt(n int) {
	mu.Lock()
	failAt = n
	mu.Unlock()
}

func track(f *os.File, path string) *File {
	mu.Lock()
	openFiles[f] = filepath.Clean(path)
	mu.Unlock()
	return &File{f}
}

// Close closes the handle and drops it from the table of open handles.
func (f *File) Close() error {
	mu.Lock()
	delete(openFiles, f.File)
	mu.Unlock()
	return f.File.Close()
}

// OpenHandles returns the number of handles under root that were handed out and not closed.
func OpenHandles(root string) int {
	root = filepath.Clean(root)
	mu.Lock()
	defer mu.Unlock()
	n := 0
	for _, p := range openFiles {
		if under(p, root) {
			n++
		}
	}
	return n
}

// PauseAt installs a one-shot pause point (kind as in Op.Kind; reads such as "stat" count too).
func PauseAt(kind, suffix string, fn func()) {
	mu.Lock()
	pauseKind, pauseSuffix, pauseFn = kind, suffix, fn
	mu.Unlock()
}

// PauseAtStep installs a one-shot pause point before the n-th (1-based) call under the watched root from now on.
func PauseAtStep(n int, fn func()) {
	mu.Lock()
	pauseIn, pauseInFn = n, fn
	mu.Unlock()
}

// Steps returns the number of calls (reads included) under the watched root since Reset.
func Steps() int {
	mu.Lock()
	defer mu.Unlock()
	return steps
}

// Reset clears the log and every armed crash; dead roots stay dead (their goroutines may still be around).
func Reset(watchRoot string, logging bool) {
	mu.Lock()
	defer mu.Unlock()
	log = nil
	logOn = logging
	watch = filepath.Clean(watchRoot)
	count, armAt, armMode = 0, 0, 0
	steps, pauseIn, pauseInFn = 0, 0, nil
	matchKind, matchSuffix = "", ""
	failAt, failReadAt, reads, failShort, failMore = 0, 0, 0, false, 0
	select {
	case <-crashed:
	default:
	}
}

// Arm schedules a crash at the n-th (1-based) mutating call under the watched root.
func Arm(n int, mode int) {
	mu.Lock()
	armAt, armMode = n, mode
	mu.Unlock()
}

// ArmMatch schedules a crash at the first mutating call of the given kind whose path has the suffix.
func ArmMatch(kind, suffix string, mode int) {
	mu.Lock()
	matchKind, matchSuffix, armMode = kind, suffix, mode
	mu.Unlock()
}

// Crashed is signalled when the armed crash point has been reached.
func Crashed() <-chan struct{} { return crashed }

// Kill marks a root as belonging to a dead process.
func Kill(root string) {
	mu.Lock()
	deadRoot[filepath.Clean(root)] = true
	mu.Unlock()
}

// Forget removes the dead mark of a root (when the directory has been deleted).
func Forget(root string) {
	root = filepath.Clean(root)
	mu.Lock()
	delete(deadRoot, root)
	// the descriptors of the dead process go with it
	for f, p := range openFiles {
		if under(p, root) {
			_ = f.Close()
			delete(openFiles, f)
		}
	}
	mu.Unlock()
}

// Log returns a copy of the call log.
func Log() []Op {
	mu.Lock()
	defer mu.Unlock()
	return append([]Op(nil), log...)
}

// MutCount returns the number of mutating calls seen under the watched root since Reset.
func MutCount() int {
	mu.Lock()
	defer mu.Unlock()
	return count
}

func under(p, root string) bool {
	return root != "" && root != "." && (p == root || strings.HasPrefix(p, root+string(filepath.Separator)))
}

func isDead(p string) bool {
	for r := range deadRoot {
		if under(p, r) {
			return true
		}
	}
	return false
}

const (
	doRun  = iota // perform the call
	doSkip        // process is dead: pretend success, do nothing
	doDieAfter
	doTorn
	doFail // injected fault: do nothing, report an I/O error
)

// step records a call and decides what happens to it.
func step(kind, path, to string, mut bool) int {
	p := filepath.Clean(path)
	mu.Lock()
	if isDead(p) {
		mu.Unlock()
		if mut {
			return doSkip
		}
		return doRun
	}
	if pauseFn != nil && kind == pauseKind && strings.HasSuffix(p, pauseSuffix) {
		fn := pauseFn
		pauseFn = nil
		mu.Unlock()
		fn()
		mu.Lock()
	}
	if under(p, watch) {
		steps++
		if pauseInFn != nil {
			pauseIn--
			if pauseIn <= 0 {
				fn := pauseInFn
				pauseInFn = nil
				mu.Unlock()
				fn()
				mu.Lock()
			}
		}
	}
	op := Op{Kind: kind, Path: p, To: to, Mut: mut}
	if !mut && under(p, watch) {
		reads++
		if failReadAt != 0 && reads == failReadAt {
			failReadAt = 0
			op.Kind += "!fault"
			if logOn {
				log = append(log, op)
			}
			mu.Unlock()
			return doFail
		}
	}
	hit := false
	if mut && under(p, watch) {
		count++
		op.N = count
		if armAt != 0 && count == armAt {
			hit = true
		}
		if failAt != 0 && count == failAt {
			failAt = 0
			if failMore > 0 {
				failMore--
				failAt = count + 1
			}
			op.Kind += "!fault"
			if logOn {
				log = append(log, op)
			}
			mu.Unlock()
			return doFail
		}
		if matchKind != "" && kind == matchKind && strings.HasSuffix(p, matchSuffix) {
			hit = true
			matchKind = ""
		}
	}
	if logOn {
		log = append(log, op)
	}
	mode := armMode
	if hit {
		armAt = 0
		if mode == ModeBefore || (mode == ModeTorn && kind != "write" && kind != "writefile") {
			deadRoot[watch] = true
		}
	}
	mu.Unlock()
	if !hit {
		return doRun
	}
	switch {
	case mode == ModeAfter:
		return doDieAfter
	case mode == ModeTorn && (kind == "write" || kind == "writefile"):
		return doTorn
	}
	die()
	return doSkip
}

// die marks the watched root dead, signals the harness and parks the goroutine for good.
func die() {
	mu.Lock()
	deadRoot[watch] = true
	mu.Unlock()
	select {
	case crashed <- struct{}{}:
	default:
	}
	select {} // the process is gone
}

// File wraps *os.File so that writes are counted.
type File struct{ *os.File }

func (f *File) Write(p []byte) (int, error) {
	switch step("write", f.Name(), "", true) {
	case doFail:
		mu.Lock()
		short := failShort
		mu.Unlock()
		if short && len(p) > 1 {
			// the kernel took part of the buffer before the error (ENOSPC, EFBIG, EIO in the middle of a write)
			n, _ := f.File.Write(p[:len(p)/2])
			return n, ErrInjected
		}
		return 0, ErrInjected
	case doSkip:
		return len(p), nil
	case doDieAfter:
		_, _ = f.File.Write(p)
		die()
	case doTorn:
		_, _ = f.File.Write(p[:len(p)/2])
		die()
	}
	return f.File.Write(p)
}

// Read counts as a reading call: a read of an open file can fail like an open can.
func (f *File) Read(p []byte) (int, error) {
	if step("read", f.Name(), "", false) == doFail {
		return 0, ErrInjected
	}
	return f.File.Read(p)
}

type readerOnly struct{ io.Reader }

// WriteTo must not bypass Read.
func (f *File) WriteTo(w io.Writer) (int64, error) { return io.Copy(w, readerOnly{f}) }

type writerOnly struct{ io.Writer }

// ReadFrom must not bypass Write.
func (f *File) ReadFrom(r io.Reader) (int64, error) { return io.Copy(writerOnly{f}, r) }

func MkdirAll(p string, m os.FileMode) error {
	switch step("mkdirall", p, "", true) {
	case doFail:
		return ErrInjected
	case doSkip:
		return nil
	case doDieAfter:
		_ = os.MkdirAll(p, m)
		die()
	}
	return os.MkdirAll(p, m)
}

func CreateTemp(d, pat string) (*File, error) {
	switch step("createtemp", filepath.Join(d, pat), "", true) {
	case doFail:
		return nil, ErrInjected
	case doSkip:
		// a dead process creates nothing; hand out a handle on /dev/null so that callers keep going harmlessly
		f, err := os.OpenFile(os.DevNull, os.O_RDWR, 0)
		if err != nil {
			return nil, err
		}
		return track(f, filepath.Join(d, pat)), nil
	case doDieAfter:
		if f, err := os.CreateTemp(d, pat); err == nil {
			_ = f.Close()
		}
		die()
	}
	f, err := os.CreateTemp(d, pat)
	if err != nil {
		return nil, err
	}
	return track(f, filepath.Join(d, pat)), nil
}

func WriteFile(n string, b []byte, m os.FileMode) error {
	switch step("writefile", n, "", true) {
	case doFail:
		return ErrInjected
	case doSkip:
		return nil
	case doDieAfter:
		_ = os.WriteFile(n, b, m)
		die()
	case doTorn:
		_ = os.WriteFile(n, b[:len(b)/2], m)
		die()
	}
	return os.WriteFile(n, b, m)
}

func Rename(a, b string) error {
	switch step("rename", a, filepath.Clean(b), true) {
	case doFail:
		// the kernel's error type for a rename
		return &os.LinkError{Op: "rename", Old: a, New: b, Err: syscall.EIO}
	case doSkip:
		return nil
	case doDieAfter:
		_ = os.Rename(a, b)
		die()
	}
	return os.Rename(a, b)
}

func Remove(n string) error {
	switch step("remove", n, "", true) {
	case doFail:
		return ErrInjected
	case doSkip:
		return nil
	case doDieAfter:
		_ = os.Remove(n)
		die()
	}
	return os.Remove(n)
}

func RemoveAll(n string) error {
	switch step("removeall", n, "", true) {
	case doFail:
		return ErrInjected
	case doSkip:
		return nil
	case doDieAfter:
		_ = os.RemoveAll(n)
		die()
	}
	return os.RemoveAll(n)
}

func Mkdir(p string, m os.FileMode) error {
	switch step("mkdir", p, "", true) {
	case doFail:
		return ErrInjected
	case doSkip:
		return nil
	case doDieAfter:
		_ = os.Mkdir(p, m)
		die()
	}
	return os.Mkdir(p, m)
}

func Chtimes(n string, a, m2 time.Time) error {
	switch step("chtimes", n, "", true) {
	case doFail:
		return ErrInjected
	case doSkip:
		return nil
	}
	return os.Chtimes(n, a, m2)
}

func Create(n string) (*File, error) {
	switch step("create", n, "", true) {
	case doFail:
		return nil, ErrInjected
	case doSkip:
		f, err := os.OpenFile(os.DevNull, os.O_RDWR, 0)
		if err != nil {
			return nil, err
		}
		return track(f, n), nil
	}
	f, err := os.Create(n)
	if err != nil {
		return nil, err
	}
	return track(f, n), nil
}

func OpenFile(n string, flag int, perm os.FileMode) (*File, error) {
	mut := flag&(os.O_WRONLY|os.O_RDWR|os.O_CREATE|os.O_TRUNC|os.O_APPEND) != 0
	switch step("openfile", n, "", mut) {
	case doFail:
		return nil, ErrInjected
	case doSkip:
		f, err := os.OpenFile(os.DevNull, os.O_RDWR, 0)
		if err != nil {
			return nil, err
		}
		return track(f, n), nil
	}
	f, err := os.OpenFile(n, flag, perm)
	if err != nil {
		return nil, err
	}
	return track(f, n), nil
}

func Stat(n string) (fs.FileInfo, error) {
	if step("stat", n, "", false) == doFail {
		return nil, ErrInjected
	}
	return os.Stat(n)
}

func Open(n string) (*File, error) {
	if step("open", n, "", false) == doFail {
		return nil, ErrInjected
	}
	f, err := os.Open(n)
	if err != nil {
		return nil, err
	}
	return track(f, n), nil
}

func ReadFile(n string) ([]byte, error) {
	if step("readfile", n, "", false) == doFail {
		return nil, ErrInjected
	}
	return os.ReadFile(n)
}

func ReadDir(n string) ([]os.DirEntry, error) {
	if step("readdir", n, "", false) == doFail {
		return nil, ErrInjected
	}
	return os.ReadDir(n)
}
