// Package vsync: recording replacements for sync.Mutex / sync.WaitGroup (spike).
package vsync

import (
	"bytes"
	"fmt"
	"runtime"
	"strconv"
	"sync"
	"sync/atomic"
	"time"
)

func goid() int64 {
	var buf [64]byte
	n := runtime.Stack(buf[:], false)
	b := buf[:n]
	b = b[len("goroutine "):]
	i := bytes.IndexByte(b, ' ')
	id, _ := strconv.ParseInt(string(b[:i]), 10, 64)
	return id
}

type Mutex struct {
	m      sync.Mutex
	holder atomic.Int64 // goid of holder, 0 if free
	site   atomic.Value // string: where it was acquired
}

var (
	regMu   sync.Mutex
	waiting = map[int64]*Mutex{} // goid -> mutex it waits for
	Events  atomic.Int64
	// DelayAfterLock, if set, is called after each successful Lock with the caller site.
	DelayAfterLock atomic.Value // func(site string)
)

func caller() string {
	_, f, l, _ := runtime.Caller(2)
	return fmt.Sprintf("%s:%d", f, l)
}

func (m *Mutex) Lock() {
	g := goid()
	site := caller()
	regMu.Lock()
	waiting[g] = m
	regMu.Unlock()
	m.m.Lock()
	regMu.Lock()
	delete(waiting, g)
	regMu.Unlock()
	m.holder.Store(g)
	m.site.Store(site)
	Events.Add(1)
	if f, ok := DelayAfterLock.Load().(func(string)); ok && f != nil {
		f(site)
	}
}

func (m *Mutex) Unlock() {
	m.holder.Store(0)
	Events.Add(1)
	m.m.Unlock()
}

func (m *Mutex) TryLock() bool {
	if m.m.TryLock() {
		m.holder.Store(goid())
		return true
	}
	return false
}

// FindCycle returns a description of a wait-for cycle among instrumented mutexes, or "".
func FindCycle() string {
	regMu.Lock()
	defer regMu.Unlock()
	for g0 := range waiting {
		seen := map[int64]bool{}
		g := g0
		path := ""
		for {
			m, ok := waiting[g]
			if !ok {
				break
			}
			h := m.holder.Load()
			if h == 0 {
				break
			}
			s, _ := m.site.Load().(string)
			path += fmt.Sprintf("g%d waits for mutex held by g%d (acquired at %s); ", g, h, s)
			if h == g0 {
				return path
			}
			if seen[h] {
				break
			}
			seen[h] = true
			g = h
		}
	}
	return ""
}

type WaitGroup struct{ w sync.WaitGroup }

func (w *WaitGroup) Add(n int) { Events.Add(1); w.w.Add(n) }
func (w *WaitGroup) Done()     { Events.Add(1); w.w.Done() }
func (w *WaitGroup) Wait()     { w.w.Wait(); Events.Add(1) }

var _ = time.Now
