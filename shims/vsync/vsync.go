// Package vsync holds recording replacements for sync.Mutex and sync.WaitGroup (engine E4 of the verification
// harness). sync.Mutex/sync.WaitGroup in olareg.go, internal/store and internal/cache are redirected here by a
// check-time source rewrite (never committed). The wrappers record who waits for which mutex and who holds it,
// so that a monitor can find cycles in the wait-for graph, and can inject a delay right after an acquisition.
package vsync

import (
	"bytes"
	"fmt"
	"runtime"
	"strconv"
	"sync"
	"sync/atomic"
)

func goid() int64 {
	var buf [64]byte
	n := runtime.Stack(buf[:], false)
	b := buf[:n]
	b = b[len("goroutine "):]
	i := bytes.IndexByte(b, ' ')
	id, _ := strconv.ParseInt(string(b[:i]), 10, 64)
	return id
}

type Mutex struct {
	m      sync.Mutex
	holder atomic.Int64 // goid of holder, 0 if free
	site   atomic.Value // string: where it was acquired
}

var (
	regMu   sync.Mutex
	waiting = map[int64]*Mutex{}  // goid -> mutex it waits for
	waitAt  = map[int64]string{}  // goid -> site of the blocked Lock call
	Events  atomic.Int64          // every instrumented event
	Waits   atomic.Int64          // Lock calls that had to wait
	sites   = map[string]int64{}  // acquisition site -> count
	order   = map[string]bool{}   // "siteA -> siteB": B acquired while the goroutine held the lock taken at A
	heldBy  = map[int64][]string{} // goid -> sites of locks currently held (stack)
	// DelayAfterLock, if set, is called after each successful Lock with the caller site.
	DelayAfterLock atomic.Value // func(site string)
)

func caller() string {
	_, f, l, _ := runtime.Caller(2)
	for i := len(f) - 1; i >= 0; i-- {
		if f[i] == '/' {
			// keep package dir + file
			for j := i - 1; j >= 0; j-- {
				if f[j] == '/' {
					f = f[j+1:]
					break
				}
			}
			break
		}
	}
	return fmt.Sprintf("%s:%d", f, l)
}

// Owned schedules: the Lock calls of one goroutine are counted, and before the n-th of them a function of the harness
// runs on that goroutine (it can let another request run to completion and come back).
var (
	trackG    atomic.Int64 // goroutine whose Lock calls are counted (0: none)
	trackCnt  atomic.Int64
	trackAt   atomic.Int64
	trackFn   atomic.Value // func()
	noopPause = func() {}
)

// Track starts counting the Lock calls of the calling goroutine; before the n-th (1-based, 0: never) fn runs once.
func Track(n int, fn func()) {
	if fn == nil {
		fn = noopPause
	}
	trackCnt.Store(0)
	trackAt.Store(int64(n))
	trackFn.Store(fn)
	trackG.Store(goid())
}

// Untrack stops counting and returns the number of Lock calls seen.
func Untrack() int {
	trackG.Store(0)
	return int(trackCnt.Load())
}

func (m *Mutex) Lock() {
	g := goid()
	if tg := trackG.Load(); tg != 0 && tg == g {
		if c := trackCnt.Add(1); c == trackAt.Load() {
			if f, ok := trackFn.Load().(func()); ok {
				f()
			}
		}
	}
	site := caller()
	if !m.m.TryLock() {
		regMu.Lock()
		waiting[g] = m
		waitAt[g] = site
		regMu.Unlock()
		Waits.Add(1)
		m.m.Lock()
		regMu.Lock()
		delete(waiting, g)
		delete(waitAt, g)
		regMu.Unlock()
	}
	m.holder.Store(g)
	m.site.Store(site)
	Events.Add(1)
	regMu.Lock()
	sites[site]++
	for _, h := range heldBy[g] {
		order[h+" -> "+site] = true
	}
	heldBy[g] = append(heldBy[g], site)
	regMu.Unlock()
	if f, ok := DelayAfterLock.Load().(func(string)); ok && f != nil {
		f(site)
	}
}

func (m *Mutex) Unlock() {
	g := m.holder.Load()
	s, _ := m.site.Load().(string)
	m.holder.Store(0)
	Events.Add(1)
	regMu.Lock()
	// the unlocking goroutine is normally the holder; remove the most recent matching site
	h := heldBy[g]
	for i := len(h) - 1; i >= 0; i-- {
		if h[i] == s {
			heldBy[g] = append(h[:i], h[i+1:]...)
			break
		}
	}
	if len(heldBy[g]) == 0 {
		delete(heldBy, g)
	}
	regMu.Unlock()
	m.m.Unlock()
}

func (m *Mutex) TryLock() bool {
	if m.m.TryLock() {
		m.holder.Store(goid())
		m.site.Store(caller())
		return true
	}
	return false
}

// FindCycle returns a description of a wait-for cycle among instrumented mutexes, or "".
func FindCycle() string {
	regMu.Lock()
	defer regMu.Unlock()
	for g0 := range waiting {
		seen := map[int64]bool{}
		g := g0
		path := ""
		for {
			m, ok := waiting[g]
			if !ok {
				break
			}
			h := m.holder.Load()
			if h == 0 {
				break
			}
			s, _ := m.site.Load().(string)
			path += fmt.Sprintf("goroutine %d blocked in Lock at %s waits for the mutex goroutine %d acquired at %s; ", g, waitAt[g], h, s)
			if h == g0 {
				return path
			}
			if seen[h] {
				break
			}
			seen[h] = true
			g = h
		}
	}
	return ""
}

// Waiting lists the goroutines currently blocked on an instrumented mutex.
func Waiting() []string {
	regMu.Lock()
	defer regMu.Unlock()
	out := []string{}
	for g, m := range waiting {
		s, _ := m.site.Load().(string)
		out = append(out, fmt.Sprintf("goroutine %d at %s waits for the mutex held by goroutine %d (acquired at %s)", g, waitAt[g], m.holder.Load(), s))
	}
	return out
}

// OrderEdges returns the lock-order edges seen so far ("site held -> site acquired").
func OrderEdges() []string {
	regMu.Lock()
	defer regMu.Unlock()
	out := []string{}
	for e := range order {
		out = append(out, e)
	}
	return out
}

// Reset forgets statistics (not the state of live mutexes).
func Reset() {
	regMu.Lock()
	sites = map[string]int64{}
	order = map[string]bool{}
	regMu.Unlock()
}

type WaitGroup struct{ w sync.WaitGroup }

func (w *WaitGroup) Add(n int) { Events.Add(1); w.w.Add(n) }
func (w *WaitGroup) Done()     { Events.Add(1); w.w.Done() }
func (w *WaitGroup) Wait()     { w.w.Wait(); Events.Add(1) }
