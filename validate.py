#!/usr/bin/env python3
"""Validate MANIFEST.json and evidence/*.json against the given schemas (needs jsonschema: run with python3-vt)."""
import glob, json, sys
import jsonschema
ok = True
m = json.load(open('/verif/MANIFEST.json'))
jsonschema.validate(m, json.load(open('/root/.vp/MANIFEST.schema.json')))
es = json.load(open('/root/.vp/EVIDENCE.schema.json'))
for f in sorted(glob.glob('/verif/evidence/*.json')):
    try:
        jsonschema.validate(json.load(open(f)), es)
    except Exception as e:
        ok = False
        print('INVALID', f, str(e)[:300])
print('manifest ok; evidence', 'ok' if ok else 'INVALID')
sys.exit(0 if ok else 1)
