//go:build verif

package olareg

// Verification hooks (add-only, guarded by the build tag "verif"). Copied into a scratch copy of the
// repository by /verif/verif.py; never part of a normal build.

import (
	"time"

	"github.com/opencontainers/go-digest"

	"github.com/olareg/olareg/internal/store"
)

// VerifGC runs one collection of a single repository synchronously.
func (s *Server) VerifGC(repo string) error { return store.VerifGC(s.store, repo) }

// VerifGCPass runs one store-wide pass with explicit tick times.
func (s *Server) VerifGCPass(cur, prev time.Time) error { return store.VerifGCPass(s.store, cur, prev) }

// VerifSetBlobTime sets the age of one blob.
func (s *Server) VerifSetBlobTime(repo string, d digest.Digest, t time.Time) error {
	return store.VerifSetBlobTime(s.store, repo, d, t)
}

// VerifAgeBlobs makes every blob of a repository older by d.
func (s *Server) VerifAgeBlobs(repo string, d time.Duration) error {
	return store.VerifAgeBlobs(s.store, repo, d)
}

// VerifUploadCount returns the number of open upload sessions of a repository.
func (s *Server) VerifUploadCount(repo string) (int, error) {
	return store.VerifUploadCount(s.store, repo)
}

// VerifRepoNames lists the repositories the store currently has open.
func (s *Server) VerifRepoNames() []string { return store.VerifRepoNames(s.store) }

// VerifIndexJSON returns the top-level index of a repository as it would be written to index.json.
func (s *Server) VerifIndexJSON(repo string) ([]byte, error) { return store.VerifIndexJSON(s.store, repo) }

// VerifBlobList lists the digests of all blobs of a repository.
func (s *Server) VerifBlobList(repo string) ([]string, error) { return store.VerifBlobList(s.store, repo) }
