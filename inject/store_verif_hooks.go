//go:build verif

package store

import (
	"context"
	"encoding/json"
	"fmt"
	"os"
	"path/filepath"
	"sort"
	"time"

	"github.com/opencontainers/go-digest"
)

func VerifGC(s Store, repoStr string) error {
	r, err := s.RepoGet(context.Background(), repoStr)
	if err != nil {
		return err
	}
	r.Done()
	return r.gc()
}

func VerifGCPass(s Store, cur, prev time.Time) error {
	switch s := s.(type) {
	case *dir:
		return s.gc(cur, prev)
	case *mem:
		return s.gc(cur, prev)
	}
	return fmt.Errorf("unknown store")
}

func VerifSetBlobTime(s Store, repoStr string, d digest.Digest, t time.Time) error {
	r, err := s.RepoGet(context.Background(), repoStr)
	if err != nil {
		return err
	}
	defer r.Done()
	switch r := r.(type) {
	case *dirRepo:
		return os.Chtimes(filepath.Join(r.path, blobsDir, d.Algorithm().String(), d.Encoded()), t, t)
	case *memRepo:
		r.mu.Lock()
		defer r.mu.Unlock()
		if b, ok := r.blobs[d]; ok && b != nil {
			b.m.mod = t
			return nil
		}
		return fmt.Errorf("blob not in memory")
	}
	return fmt.Errorf("unknown repo")
}

// VerifAgeBlobs makes every blob of a repo older by d.
func VerifAgeBlobs(s Store, repoStr string, d time.Duration) error {
	r, err := s.RepoGet(context.Background(), repoStr)
	if err != nil {
		return err
	}
	defer r.Done()
	switch r := r.(type) {
	case *dirRepo:
		algoS, err := os.ReadDir(filepath.Join(r.path, blobsDir))
		if err != nil {
			return nil
		}
		for _, a := range algoS {
			es, _ := os.ReadDir(filepath.Join(r.path, blobsDir, a.Name()))
			for _, e := range es {
				p := filepath.Join(r.path, blobsDir, a.Name(), e.Name())
				fi, err := os.Stat(p)
				if err != nil {
					continue
				}
				t := fi.ModTime().Add(-d)
				_ = os.Chtimes(p, t, t)
			}
		}
		// data already written to open upload sessions ages too (time passes for everything on disk)
		ups, _ := os.ReadDir(filepath.Join(r.path, uploadDir))
		for _, e := range ups {
			p := filepath.Join(r.path, uploadDir, e.Name())
			if fi, err := os.Stat(p); err == nil {
				t := fi.ModTime().Add(-d)
				_ = os.Chtimes(p, t, t)
			}
		}
		// ... and so do index.json and the store's note of when the repository was last modified
		r.mu.Lock()
		if fi, err := os.Stat(filepath.Join(r.path, indexFile)); err == nil {
			t := fi.ModTime().Add(-d)
			_ = os.Chtimes(filepath.Join(r.path, indexFile), t, t)
		}
		if !r.timeMod.IsZero() {
			r.timeMod = r.timeMod.Add(-d)
		}
		r.mu.Unlock()
		return nil
	case *memRepo:
		r.mu.Lock()
		defer r.mu.Unlock()
		for _, b := range r.blobs {
			if b != nil {
				b.m.mod = b.m.mod.Add(-d)
			}
		}
		if !r.timeMod.IsZero() {
			r.timeMod = r.timeMod.Add(-d)
		}
		return nil
	}
	return fmt.Errorf("unknown repo")
}

func VerifUploadCount(s Store, repoStr string) (int, error) {
	r, err := s.RepoGet(context.Background(), repoStr)
	if err != nil {
		return 0, err
	}
	defer r.Done()
	switch r := r.(type) {
	case *dirRepo:
		l, err := r.uploads.List()
		return len(l), err
	case *memRepo:
		l, err := r.uploads.List()
		return len(l), err
	}
	return 0, fmt.Errorf("unknown repo")
}

func VerifRepoNames(s Store) []string {
	var out []string
	switch s := s.(type) {
	case *dir:
		out, _ = s.repos.List()
	case *mem:
		s.mu.Lock()
		for n := range s.repos {
			out = append(out, n)
		}
		s.mu.Unlock()
	}
	sort.Strings(out)
	return out
}

func VerifIndexJSON(s Store, repoStr string) ([]byte, error) {
	r, err := s.RepoGet(context.Background(), repoStr)
	if err != nil {
		return nil, err
	}
	defer r.Done()
	i, err := r.IndexGet()
	if err != nil {
		return nil, err
	}
	return json.Marshal(i)
}

func VerifBlobList(s Store, repoStr string) ([]string, error) {
	r, err := s.RepoGet(context.Background(), repoStr)
	if err != nil {
		return nil, err
	}
	defer r.Done()
	dl, err := r.blobList(false)
	out := make([]string, 0, len(dl))
	for _, d := range dl {
		out = append(out, d.String())
	}
	sort.Strings(out)
	return out, err
}
