//go:build verifvfs

package vh

// C05 with a failing read: "Whenever garbage collection runs and under every policy, it never removes a tagged
// manifest, anything transitively referenced by a retained manifest ..." - also when one of the collector's own reads
// fails. The mark phase learns what a manifest references by opening and parsing it; a collector that treats "could
// not read" as "references nothing" goes on to sweep the layers of an image it could not look at (EMFILE under load,
// EIO, a permission changed by a backup tool). Here one reading call (open, stat, readfile, readdir) of a collection,
// chosen uniformly among the reads a fault-free collection of the same directory makes, fails once.

import (
	"encoding/json"
	"fmt"
	"os"
	"strings"
	"testing"

	"pgregory.net/rapid"

	"github.com/olareg/olareg"
	"github.com/olareg/olareg/config"
	"github.com/olareg/olareg/internal/vfs"
)

const c05xRule = "TestC05Faults: directory store, every collection switch drawn, grace period 1 h, everything aged 2 h; content: 2-3 tagged images over shared layers, optionally a tagged index over two of them, an artifact (tagged or not) " +
	"whose subject is a tagged image, an untagged image with a layer of its own (garbage when untagged collection is on); one collection of the repository in which the k-th reading file-system call (k uniform over the reads of a fault-free " +
	"collection of a copy of the directory) fails with EIO, then a second collection without fault; oracle after each = every tag resolves and pulls completely (manifest, config, layers, children with their content byte-identical), and " +
	"the artifact of the tagged subject with its content is still served and listed; non-trivial = the failed read was the open of a manifest or index blob; distinct = (content, policy, k)"

func c05xProperty(t *rapid.T, st *Stats) {
	tmp := mkTemp("c05x")
	defer os.RemoveAll(tmp)
	root := tmp + "/root"
	conf := func(r string) config.Config {
		c := baseConf(config.StoreDir, r)
		return c
	}
	pol := [4]bool{rapid.Bool().Draw(t, "untagged"), rapid.Bool().Draw(t, "emptyRepo"), rapid.Bool().Draw(t, "refDangling"), rapid.Bool().Draw(t, "refWithSubj")}
	withPolicy := func(c config.Config) config.Config {
		c.Storage.GC.Untagged, c.Storage.GC.EmptyRepo, c.Storage.GC.ReferrersDangling, c.Storage.GC.ReferrersWithSubj = bp(pol[0]), bp(pol[1]), bp(pol[2]), bp(pol[3])
		return c
	}
	trace := []string{fmt.Sprintf("policy untagged=%v emptyRepo=%v refDangling=%v refWithSubj=%v", pol[0], pol[1], pol[2], pol[3])}
	fail := func(key, f string, a ...any) { Fail(t, st, key, fmt.Sprintf(f, a...), trace, nil) }
	rn := "r"
	// ---- content, written by a server that collects nothing
	w := olareg.New(conf(root))
	blobs := map[string][]byte{}
	push := func(b []byte) string {
		d := dig("sha256", b)
		if r := doReq(w, "POST", "/v2/"+rn+"/blobs/uploads/?digest="+d, b, nil); r.code != 201 {
			t.Fatalf("setup: blob push %d", r.code)
		}
		blobs[d] = b
		return d
	}
	cfg := push([]byte("{}"))
	layers := []string{push([]byte("layer A")), push([]byte("layer B, shared")), push(bigBlob(5000, 9))}
	type man struct {
		raw  []byte
		refs []string
	}
	mans := map[string]man{}
	tags := map[string]string{}
	put := func(ref string, raw []byte, mt string, refs []string) string {
		d := dig("sha256", raw)
		if r := doReq(w, "PUT", "/v2/"+rn+"/manifests/"+ref, raw, hdr("Content-Type", mt)); r.code != 201 {
			t.Fatalf("setup: manifest push %d %s", r.code, r.body)
		}
		mans[d], blobs[d] = man{raw, refs}, raw
		if ref != d {
			tags[ref] = d
		}
		return d
	}
	nImg := rapid.IntRange(2, 3).Draw(t, "nImages")
	imgs := []string{}
	for i := 0; i < nImg; i++ {
		ls := []string{layers[i%3], layers[1]}
		raw, _ := buildImage(mtImage, mtConfig, cfg, 2, ls, []int{len(blobs[ls[0]]), len(blobs[ls[1]])}, nil, "", map[string]string{"i": fmt.Sprint(i)})
		imgs = append(imgs, put(fmt.Sprintf("v%d", i), raw, mtImage, append([]string{cfg}, ls...)))
	}
	if rapid.Bool().Draw(t, "withIndex") {
		kids := []mdesc{{MediaType: mtImage, Digest: imgs[0], Size: int64(len(blobs[imgs[0]]))}, {MediaType: mtImage, Digest: imgs[1], Size: int64(len(blobs[imgs[1]]))}}
		raw, _ := buildIndex(mtIndex, kids, nil, "", nil)
		put("multi", raw, mtIndex, []string{imgs[0], imgs[1]})
		trace = append(trace, "tagged index over v0, v1")
	}
	artifact := ""
	if rapid.Bool().Draw(t, "withArtifact") {
		al := push([]byte("signature payload"))
		raw, _ := buildImage(mtImage, mtEmpty, cfg, 2, []string{al}, []int{len(blobs[al])}, &mdesc{MediaType: mtImage, Digest: imgs[0], Size: int64(len(blobs[imgs[0]]))}, "application/vnd.x.sig", nil)
		ref := dig("sha256", raw)
		if rapid.Bool().Draw(t, "artifactTagged") {
			ref = "sig"
		}
		artifact = put(ref, raw, mtImage, []string{cfg, al})
		trace = append(trace, "artifact of v0, ref "+shortTag(ref))
	}
	if rapid.Bool().Draw(t, "withGarbage") {
		gl := push([]byte("layer of an untagged image"))
		raw, _ := buildImage(mtImage, mtConfig, cfg, 2, []string{gl}, []int{len(blobs[gl])}, nil, "", map[string]string{"garbage": "1"})
		d := dig("sha256", raw)
		if r := doReq(w, "PUT", "/v2/"+rn+"/manifests/"+d, raw, hdr("Content-Type", mtImage)); r.code != 201 {
			t.Fatalf("setup: untagged push %d", r.code)
		}
		trace = append(trace, "untagged image with its own layer")
	}
	_ = w.VerifAgeBlobs(rn, 2*3600*1e9)
	_ = w.Close()
	// ---- how many reads does a collection make? (on a copy)
	countRoot := tmp + "/count"
	copyTree(root, countRoot)
	vfs.Reset(countRoot, false)
	c0 := olareg.New(withPolicy(conf(countRoot)))
	_ = c0.VerifGC(rn)
	nReads := vfs.ReadCount()
	_ = c0.Close()
	if nReads == 0 {
		t.Fatalf("a collection without any read")
	}
	// ---- the collection with one failing read
	k := rapid.IntRange(1, nReads).Draw(t, "failedRead")
	vfs.Reset(root, true)
	vfs.FailReadAt(k)
	srv := olareg.New(withPolicy(conf(root)))
	defer func() { _ = srv.Close() }()
	err := srv.VerifGC(rn)
	failed := ""
	for _, op := range vfs.Log() {
		if strings.HasSuffix(op.Kind, "!fault") {
			failed = fmt.Sprintf("%s(%s)", op.Kind, strings.TrimPrefix(op.Path, root))
		}
	}
	vfs.Reset(root, false)
	trace = append(trace, fmt.Sprintf("collection with read %d of %d failing: %s -> %v", k, nReads, failed, err))
	pull := func(when string) {
		var walk func(d string, why string)
		walk = func(d string, why string) {
			m, isMan := mans[d]
			u := "/v2/" + rn + "/blobs/" + d
			if isMan {
				u = "/v2/" + rn + "/manifests/" + d
			}
			r := doReq(srv, "GET", u, nil, hdr("Accept", acceptAll))
			if r.code != 200 || !sameBytes(r.body, blobs[d]) {
				fail("retained-content-removed-after-read-error", "%s: %s (%s) answers %d; the failed read of the collection was %s", when, short(d), why, r.code, failed)
			}
			for _, c := range m.refs {
				walk(c, "referenced by "+short(d)+" <- "+why)
			}
		}
		for _, tg := range sortedKeys(tags) {
			r := doReq(srv, "GET", "/v2/"+rn+"/manifests/"+tg, nil, hdr("Accept", acceptAll))
			if r.code != 200 || r.hdr.Get("Docker-Content-Digest") != tags[tg] {
				fail("tag-lost-after-read-error", "%s: tag %s answers %d (digest %s), it was %s; the failed read of the collection was %s", when, tg, r.code, short(r.hdr.Get("Docker-Content-Digest")), short(tags[tg]), failed)
			}
			walk(tags[tg], "tag "+tg)
		}
		if artifact != "" {
			walk(artifact, "artifact of the tagged image v0")
			r := doReq(srv, "GET", "/v2/"+rn+"/referrers/"+imgs[0], nil, nil)
			var idx mbody
			_ = json.Unmarshal(r.body, &idx)
			found := false
			for _, x := range idx.Manifests {
				if x.Digest == artifact {
					found = true
				}
			}
			if !found {
				fail("referrer-of-retained-subject-removed-after-read-error", "%s: the referrers of the tagged image v0 no longer list its artifact %s (status %d); the failed read of the collection was %s", when, short(artifact), r.code, failed)
			}
		}
	}
	pull("after the collection with the failed read")
	err2 := srv.VerifGC(rn)
	trace = append(trace, fmt.Sprintf("second collection, no fault -> %v", err2))
	pull("after a second collection without fault")
	nt := strings.HasPrefix(failed, "open") && strings.Contains(failed, "/blobs/")
	st.Case(trace, nt, "failed:"+strings.SplitN(failed, "(", 2)[0])
}

func TestC05Faults(t *testing.T) {
	st := newStats("TestC05Faults", "C05", c05xRule)
	rapid.Check(t, func(rt *rapid.T) { c05xProperty(rt, st) })
}
