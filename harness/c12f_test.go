//go:build verifvfs

package vh

// C12 under injected faults: "every request completes ... Close/Shutdown return. The registry never reaches a state in
// which requests to a repository block forever." A file-system call that fails (EIO, ENOSPC, a rename refused by the
// kernel) is an event like any other in the schedule; a handler that returns early on such an error with a mutex or a
// repository token still held leaves the repository wedged for every later request. TestC12 (vsync build) draws
// schedules, this test draws the fault: one or two mutating file-system calls of a generated request history on the
// directory store return an error instead of taking effect, the history goes on, and every request that follows - on
// the same and on another repository - and the final Close must return. Status codes are not judged here (storage is
// not healthy, a 5xx is an honest answer); only termination is.

import (
	"fmt"
	"net/url"
	"os"
	"strings"
	"testing"
	"time"

	"pgregory.net/rapid"

	"github.com/olareg/olareg"
	"github.com/olareg/olareg/config"
	"github.com/olareg/olareg/internal/vfs"
)

const c12fRule = "TestC12Faults: directory store (every collection switch on, grace period off, idle ticker); history of 4-14 requests over 2 repositories from {monolithic blob POST, POST+PATCH+PUT, POST+PUT, " +
	"mount, upload cancel, image PUT by tag / by digest, index PUT, artifact PUT, tag delete, manifest delete, blob delete, collection of a repository, store-wide collection pass, tag list, manifest GET, referrers GET, restart (Close + New on the directory)}; " +
	"the history is run once without fault to count its mutating file-system calls N, then on a fresh directory with the k-th call (k uniform in 1..N) failing with EIO, optionally a second one later; " +
	"oracle = every request of the history and of a fixed epilogue (tag list, blob HEAD, blob push, manifest push on both repositories, collection) returns within the watchdog (3 s + inspection of the goroutine dump for a " +
	"goroutine of the registry blocked on a mutex, 30 s otherwise), and Close returns; non-trivial = a fault was delivered inside a request and at least one later request addressed the same repository; distinct = (history, k)"

type c12fStep struct {
	name string
	repo string
	run  func(h *olareg.Server) string
	// eff (optional) tells what the answers of the step acknowledge and what the step may have removed or changed
	// whatever it answered: keys "blob:<repo>:<digest>", "man:<repo>:<digest>", "tag:<repo>:<tag>" (value: digest)
	eff func(res string) (acks map[string]c12fObj, touches []string)
}

type c12fObj struct {
	digest string
	body   []byte
}

func c12fCodes(res string) []string { return strings.Split(res, "/") }

func c12fHistory(t *rapid.T) []c12fStep { return c12fHistoryOpt(t, true) }

// c12fHistoryOpt: without the epilogue the history ends where the generator ends it - a state that a fixed closing
// sequence of pushes would repair stays visible.
func c12fHistoryOpt(t *rapid.T, epilogue bool) []c12fStep {
	repos := []string{"r", "r/n"}
	cfg := []byte("{}")
	cfgD := dig("sha256", cfg)
	layers := [][]byte{[]byte("layer one"), []byte("layer two, a little longer than the first"), bigBlob(40000, 3)}
	img := func(i int, subj *mdesc, at string) ([]byte, string) {
		l := layers[i%len(layers)]
		raw, _ := buildImage(mtImage, mtConfig, cfgD, len(cfg), []string{dig("sha256", l)}, []int{len(l)}, subj, at, map[string]string{"i": fmt.Sprint(i)})
		return raw, dig("sha256", raw)
	}
	post := func(h *olareg.Server, rn string, b []byte) string {
		return fmt.Sprint(doReq(h, "POST", "/v2/"+rn+"/blobs/uploads/?digest="+dig("sha256", b), b, nil).code)
	}
	steps := []c12fStep{}
	pushedTags, pushedImgs := [][2]string{}, [][2]string{}
	n := rapid.IntRange(4, 14).Draw(t, "nSteps")
	for i := 0; i < n; i++ {
		rn := rapid.SampledFrom(repos).Draw(t, "repo")
		li := rapid.IntRange(0, len(layers)-1).Draw(t, "layer")
		ii := rapid.IntRange(0, 2).Draw(t, "image")
		tag := rapid.SampledFrom([]string{"t1", "t2"}).Draw(t, "tag")
		kind := rapid.SampledFrom([]string{"blobPost", "blobPost", "blobChunked", "blobChunked", "blobPostPut", "mount", "uploadCancel", "imageByTag", "imageByTag", "imageByDigest", "indexPut", "artifactPut",
			"tagDelete", "tagDelete", "manifestDelete", "manifestDelete", "blobDelete", "collect", "collectAll", "tagList", "manifestGet", "referrers", "blobHead", "blobHead", "restart", "restart", "restart"}).Draw(t, "kind")
		// deletes mostly address what an earlier step of the history pushed (a delete of something absent makes no file-system call)
		switch kind {
		case "imageByTag":
			pushedTags = append(pushedTags, [2]string{rn, tag})
			pushedImgs = append(pushedImgs, [2]string{rn, fmt.Sprint(ii)})
		case "imageByDigest":
			pushedImgs = append(pushedImgs, [2]string{rn, fmt.Sprint(ii)})
		case "tagDelete":
			if len(pushedTags) > 0 && rapid.IntRange(0, 3).Draw(t, "deleteExisting") > 0 {
				p := pushedTags[rapid.IntRange(0, len(pushedTags)-1).Draw(t, "which")]
				rn, tag = p[0], p[1]
			}
		case "manifestDelete":
			if len(pushedImgs) > 0 && rapid.IntRange(0, 3).Draw(t, "deleteExisting") > 0 {
				p := pushedImgs[rapid.IntRange(0, len(pushedImgs)-1).Draw(t, "which")]
				rn = p[0]
				fmt.Sscan(p[1], &ii)
			}
		}
		s := c12fStep{name: fmt.Sprintf("%s %s layer=%d image=%d tag=%s", kind, rn, li, ii, tag), repo: rn}
		switch kind {
		case "blobPost":
			s.run = func(h *olareg.Server) string { return post(h, rn, cfg) + "/" + post(h, rn, layers[li]) }
			s.eff = func(res string) (map[string]c12fObj, []string) {
				a := map[string]c12fObj{}
				c := c12fCodes(res)
				if c[0] == "201" {
					a["blob:"+rn+":"+cfgD] = c12fObj{cfgD, cfg}
				}
				if len(c) > 1 && c[1] == "201" {
					a["blob:"+rn+":"+dig("sha256", layers[li])] = c12fObj{dig("sha256", layers[li]), layers[li]}
				}
				return a, nil
			}
		case "blobChunked":
			s.run = func(h *olareg.Server) string {
				b := layers[li]
				r := doReq(h, "POST", "/v2/"+rn+"/blobs/uploads/", nil, nil)
				if r.code != 202 {
					return fmt.Sprint(r.code)
				}
				cut := len(b) / 2
				r2 := doReq(h, "PATCH", r.hdr.Get("Location"), b[:cut], hdr("Content-Range", fmt.Sprintf("0-%d", cut-1)))
				loc := r2.hdr.Get("Location")
				if r2.code >= 500 {
					// a client that resumes: ask the session how far it got and go on from there
					g := doReq(h, "GET", sessionPath(r.hdr.Get("Location")), nil, nil)
					var from, to int
					if g.code != 204 {
						return fmt.Sprintf("202/%d/status %d", r2.code, g.code)
					}
					if n, _ := fmt.Sscanf(g.hdr.Get("Range"), "%d-%d", &from, &to); n == 2 && to+1 <= len(b) && to >= 0 {
						cut = to + 1
					} else {
						cut = 0
					}
					loc = g.hdr.Get("Location")
					if loc == "" {
						return fmt.Sprintf("202/%d/status without location", r2.code)
					}
				} else if r2.code != 202 {
					return fmt.Sprintf("202/%d", r2.code)
				}
				sep := "?"
				if strings.Contains(loc, "?") {
					sep = "&"
				}
				r3 := doReq(h, "PUT", loc+sep+"digest="+url.QueryEscape(dig("sha256", b)), b[cut:], hdr("Content-Range", fmt.Sprintf("%d-%d", cut, len(b)-1)))
				return fmt.Sprintf("202/202/%d", r3.code)
			}
			s.eff = func(res string) (map[string]c12fObj, []string) {
				if c := c12fCodes(res); c[len(c)-1] == "201" {
					return map[string]c12fObj{"blob:" + rn + ":" + dig("sha256", layers[li]): {dig("sha256", layers[li]), layers[li]}}, nil
				}
				return nil, nil
			}
		case "blobPostPut":
			s.run = func(h *olareg.Server) string {
				b := layers[li]
				r := doReq(h, "POST", "/v2/"+rn+"/blobs/uploads/", nil, nil)
				if r.code != 202 {
					return fmt.Sprint(r.code)
				}
				loc := r.hdr.Get("Location")
				sep := "?"
				if strings.Contains(loc, "?") {
					sep = "&"
				}
				return fmt.Sprintf("202/%d", doReq(h, "PUT", loc+sep+"digest="+url.QueryEscape(dig("sha256", b)), b, nil).code)
			}
			s.eff = func(res string) (map[string]c12fObj, []string) {
				if c := c12fCodes(res); c[len(c)-1] == "201" {
					return map[string]c12fObj{"blob:" + rn + ":" + dig("sha256", layers[li]): {dig("sha256", layers[li]), layers[li]}}, nil
				}
				return nil, nil
			}
		case "mount":
			s.run = func(h *olareg.Server) string {
				from := repos[0]
				if rn == from {
					from = repos[1]
				}
				r := doReq(h, "POST", "/v2/"+rn+"/blobs/uploads/?mount="+dig("sha256", layers[li])+"&from="+url.QueryEscape(from), nil, nil)
				if r.code == 202 {
					_ = doReq(h, "DELETE", sessionPath(r.hdr.Get("Location")), nil, nil)
				}
				return fmt.Sprint(r.code)
			}
			s.eff = func(res string) (map[string]c12fObj, []string) {
				if res == "201" {
					return map[string]c12fObj{"blob:" + rn + ":" + dig("sha256", layers[li]): {dig("sha256", layers[li]), layers[li]}}, nil
				}
				return nil, nil
			}
		case "uploadCancel":
			s.run = func(h *olareg.Server) string {
				r := doReq(h, "POST", "/v2/"+rn+"/blobs/uploads/", nil, nil)
				if r.code != 202 {
					return fmt.Sprint(r.code)
				}
				_ = doReq(h, "PATCH", r.hdr.Get("Location"), []byte("abandoned"), hdr("Content-Range", "0-8"))
				return fmt.Sprintf("202/%d", doReq(h, "DELETE", sessionPath(r.hdr.Get("Location")), nil, nil).code)
			}
		case "imageByTag", "imageByDigest":
			s.run = func(h *olareg.Server) string {
				raw, d := img(ii, nil, "")
				ref := tag
				if kind == "imageByDigest" {
					ref = d
				}
				return post(h, rn, cfg) + "/" + post(h, rn, layers[ii%len(layers)]) + "/" + fmt.Sprint(doReq(h, "PUT", "/v2/"+rn+"/manifests/"+ref, raw, hdr("Content-Type", mtImage)).code)
			}
			s.eff = func(res string) (map[string]c12fObj, []string) {
				raw, d := img(ii, nil, "")
				a := map[string]c12fObj{}
				c := c12fCodes(res)
				l := layers[ii%len(layers)]
				if c[0] == "201" {
					a["blob:"+rn+":"+cfgD] = c12fObj{cfgD, cfg}
				}
				if len(c) > 1 && c[1] == "201" {
					a["blob:"+rn+":"+dig("sha256", l)] = c12fObj{dig("sha256", l), l}
				}
				touches := []string{}
				if kind == "imageByTag" {
					touches = append(touches, "tag:"+rn+":"+tag) // a tag push moves the tag, whatever it answers
				}
				if len(c) > 2 && c[2] == "201" {
					a["man:"+rn+":"+d] = c12fObj{d, raw}
					if kind == "imageByTag" {
						a["tag:"+rn+":"+tag] = c12fObj{d, raw}
					}
				}
				return a, touches
			}
		case "indexPut":
			s.run = func(h *olareg.Server) string {
				raw, d := img(ii, nil, "")
				iraw, _ := buildIndex(mtIndex, []mdesc{{MediaType: mtImage, Digest: d, Size: int64(len(raw))}}, nil, "", nil)
				return fmt.Sprint(doReq(h, "PUT", "/v2/"+rn+"/manifests/"+tag+"-idx", iraw, hdr("Content-Type", mtIndex)).code)
			}
			s.eff = func(res string) (map[string]c12fObj, []string) {
				raw, d := img(ii, nil, "")
				iraw, _ := buildIndex(mtIndex, []mdesc{{MediaType: mtImage, Digest: d, Size: int64(len(raw))}}, nil, "", nil)
				// the child leaves the top level of the index when its parent is accepted (finding 12): by-digest reads of it are not asserted from here on
				touches := []string{"tag:" + rn + ":" + tag + "-idx", "man:" + rn + ":" + d}
				if res == "201" {
					return map[string]c12fObj{"tag:" + rn + ":" + tag + "-idx": {dig("sha256", iraw), iraw}, "man:" + rn + ":" + dig("sha256", iraw): {dig("sha256", iraw), iraw}}, touches
				}
				return nil, touches
			}
		case "artifactPut":
			s.run = func(h *olareg.Server) string {
				sraw, sd := img(0, nil, "")
				raw, d := img(ii, &mdesc{MediaType: mtImage, Digest: sd, Size: int64(len(sraw))}, "application/vnd.x.sig")
				return post(h, rn, cfg) + "/" + post(h, rn, layers[ii%len(layers)]) + "/" + fmt.Sprint(doReq(h, "PUT", "/v2/"+rn+"/manifests/"+d, raw, hdr("Content-Type", mtImage)).code)
			}
			s.eff = func(res string) (map[string]c12fObj, []string) {
				sraw, sd := img(0, nil, "")
				raw, d := img(ii, &mdesc{MediaType: mtImage, Digest: sd, Size: int64(len(sraw))}, "application/vnd.x.sig")
				if c := c12fCodes(res); len(c) > 2 && c[2] == "201" {
					return map[string]c12fObj{"man:" + rn + ":" + d: {d, raw}}, nil
				}
				return nil, nil
			}
		case "tagDelete":
			s.run = func(h *olareg.Server) string {
				return fmt.Sprint(doReq(h, "DELETE", "/v2/"+rn+"/manifests/"+tag, nil, nil).code)
			}
			s.eff = func(string) (map[string]c12fObj, []string) { return nil, []string{"tag:" + rn + ":" + tag} }
		case "manifestDelete":
			s.run = func(h *olareg.Server) string {
				_, d := img(ii, nil, "")
				return fmt.Sprint(doReq(h, "DELETE", "/v2/"+rn+"/manifests/"+d, nil, nil).code)
			}
			s.eff = func(string) (map[string]c12fObj, []string) {
				_, d := img(ii, nil, "")
				return nil, []string{"man:" + rn + ":" + d, "tag:" + rn + ":*"} // every tag that pointed to it goes with it
			}
		case "blobDelete":
			s.run = func(h *olareg.Server) string {
				return fmt.Sprint(doReq(h, "DELETE", "/v2/"+rn+"/blobs/"+dig("sha256", layers[li]), nil, nil).code)
			}
			s.eff = func(string) (map[string]c12fObj, []string) {
				return nil, []string{"blob:" + rn + ":" + dig("sha256", layers[li])}
			}
		case "collect":
			s.run = func(h *olareg.Server) string { return fmt.Sprint(h.VerifGC(rn)) }
		case "collectAll":
			s.run = func(h *olareg.Server) string {
				now := time.Now()
				return fmt.Sprint(h.VerifGCPass(now, now.Add(-time.Hour)))
			}
		case "tagList":
			s.run = func(h *olareg.Server) string {
				return fmt.Sprint(doReq(h, "GET", "/v2/"+rn+"/tags/list", nil, nil).code)
			}
		case "manifestGet":
			s.run = func(h *olareg.Server) string {
				return fmt.Sprint(doReq(h, "GET", "/v2/"+rn+"/manifests/"+tag, nil, hdr("Accept", acceptAll)).code)
			}
		case "blobHead":
			// a read that does not look at the index
			s.run = func(h *olareg.Server) string {
				return fmt.Sprint(doReq(h, "HEAD", "/v2/"+rn+"/blobs/"+dig("sha256", layers[li]), nil, nil).code)
			}
		case "restart":
			// run stays nil: the runner closes the server and opens a new one on the directory (everything is loaded again)
			s.name = "restart"
		case "referrers":
			s.run = func(h *olareg.Server) string {
				_, sd := img(0, nil, "")
				return fmt.Sprint(doReq(h, "GET", "/v2/"+rn+"/referrers/"+sd, nil, nil).code)
			}
		}
		steps = append(steps, s)
	}
	// epilogue: both repositories are read and written once more, and collected
	for _, rn := range repos {
		if !epilogue {
			break
		}
		rn := rn
		steps = append(steps,
			c12fStep{name: "epilogue tagList " + rn, repo: rn, run: func(h *olareg.Server) string {
				return fmt.Sprint(doReq(h, "GET", "/v2/"+rn+"/tags/list", nil, nil).code)
			}},
			c12fStep{name: "epilogue blobHead " + rn, repo: rn, run: func(h *olareg.Server) string {
				return fmt.Sprint(doReq(h, "HEAD", "/v2/"+rn+"/blobs/"+cfgD, nil, nil).code)
			}},
			c12fStep{name: "epilogue push " + rn, repo: rn, run: func(h *olareg.Server) string {
				raw, _ := img(1, nil, "")
				return post(h, rn, cfg) + "/" + post(h, rn, layers[1]) + "/" + fmt.Sprint(doReq(h, "PUT", "/v2/"+rn+"/manifests/after", raw, hdr("Content-Type", mtImage)).code)
			}, eff: func(res string) (map[string]c12fObj, []string) {
				raw, d := img(1, nil, "")
				a := map[string]c12fObj{}
				c := c12fCodes(res)
				if c[0] == "201" {
					a["blob:"+rn+":"+cfgD] = c12fObj{cfgD, cfg}
				}
				if len(c) > 1 && c[1] == "201" {
					a["blob:"+rn+":"+dig("sha256", layers[1])] = c12fObj{dig("sha256", layers[1]), layers[1]}
				}
				if len(c) > 2 && c[2] == "201" {
					a["man:"+rn+":"+d] = c12fObj{d, raw}
					a["tag:"+rn+":after"] = c12fObj{d, raw}
				}
				return a, []string{"tag:" + rn + ":after"}
			}},
			c12fStep{name: "epilogue collect " + rn, repo: rn, run: func(h *olareg.Server) string { return fmt.Sprint(h.VerifGC(rn)) }})
	}
	return steps
}

// c12fUniverse lists everything a history of c12fHistory can name (for read sweeps).
type c12fNames struct {
	tags, mans, blobs []string
	subject           string
}

func c12fUniverse() c12fNames {
	cfg := []byte("{}")
	cfgD := dig("sha256", cfg)
	layers := [][]byte{[]byte("layer one"), []byte("layer two, a little longer than the first"), bigBlob(40000, 3)}
	u := c12fNames{tags: []string{"t1", "t2", "t1-idx", "t2-idx", "after"}, blobs: []string{cfgD}}
	for _, l := range layers {
		u.blobs = append(u.blobs, dig("sha256", l))
	}
	img := func(i int, subj *mdesc, at string) ([]byte, string) {
		l := layers[i%len(layers)]
		raw, _ := buildImage(mtImage, mtConfig, cfgD, len(cfg), []string{dig("sha256", l)}, []int{len(l)}, subj, at, map[string]string{"i": fmt.Sprint(i)})
		return raw, dig("sha256", raw)
	}
	sraw, sd := img(0, nil, "")
	u.subject = sd
	for i := 0; i < 3; i++ {
		raw, d := img(i, nil, "")
		u.mans = append(u.mans, d)
		_, ad := img(i, &mdesc{MediaType: mtImage, Digest: sd, Size: int64(len(sraw))}, "application/vnd.x.sig")
		u.mans = append(u.mans, ad)
		iraw, _ := buildIndex(mtIndex, []mdesc{{MediaType: mtImage, Digest: d, Size: int64(len(raw))}}, nil, "", nil)
		u.mans = append(u.mans, dig("sha256", iraw))
	}
	return u
}

func c12fConf(root string) config.Config {
	conf := baseConf(config.StoreDir, root)
	conf.Storage.GC.GracePeriod = -1
	conf.Storage.GC.Untagged, conf.Storage.GC.EmptyRepo, conf.Storage.GC.ReferrersDangling, conf.Storage.GC.ReferrersWithSubj = bp(true), bp(true), bp(true), bp(true)
	conf.API.DeleteEnabled, conf.API.Blob.DeleteEnabled = bp(true), bp(true)
	return conf
}

func c12fProperty(t *rapid.T, st *Stats) {
	tmp := mkTemp("c12f")
	defer os.RemoveAll(tmp)
	steps := c12fHistory(t)
	trace := []string{}
	fail := func(key, f string, a ...any) { Fail(t, st, key, fmt.Sprintf(f, a...), trace, nil) }
	// ---- run 1: no fault, count the mutating calls
	root0 := tmp + "/count"
	vfs.Reset(root0, true)
	h0 := olareg.New(c12fConf(root0))
	for _, s := range steps {
		s := s
		if s.run == nil {
			_ = h0.Close()
			h0 = olareg.New(c12fConf(root0))
			continue
		}
		if !withWatchdog(30*time.Second, func() { _ = s.run(h0) }) {
			vfs.Kill(root0)
			fail("request-stuck", "without any fault, %q did not return", s.name)
		}
	}
	total, totalReads := vfs.MutCount(), vfs.ReadCount()
	indexReads := c12fReadOrdinals(vfs.Log(), root0, "/index.json")
	probeReads := c12fReadOrdinals(vfs.Log(), root0, "probes")
	_ = h0.Close()
	if total == 0 {
		st.Case([]string{"history without mutating call"}, false)
		return
	}
	// ---- run 2: the k-th mutating call fails
	// the fault: a mutating call (write side) or a reading call (open, stat, readfile, readdir) of the history
	readFault := totalReads > 0 && rapid.IntRange(0, 2).Draw(t, "readFault") == 0
	limit := total
	if readFault {
		limit = totalReads
	}
	k := rapid.IntRange(1, limit).Draw(t, "faultAt")
	if readFault && len(indexReads) > 0 && len(probeReads) > 0 {
		// a third of the reading faults goes to the opens of the file everything else hangs on, a third to the probes
		// the store makes when it meets a repository (uniform within the class), a third anywhere
		switch rapid.IntRange(0, 2).Draw(t, "readClass") {
		case 1:
			k = rapid.SampledFrom(indexReads).Draw(t, "indexRead")
		case 2:
			k = rapid.SampledFrom(probeReads).Draw(t, "probeRead")
		}
	}
	k2 := 0
	if !readFault && rapid.IntRange(0, 3).Draw(t, "secondFault") == 0 {
		k2 = k + rapid.IntRange(1, 12).Draw(t, "secondFaultAfter")
	}
	root := tmp + "/fault"
	vfs.Reset(root, true)
	if readFault {
		vfs.FailReadAt(k)
	} else {
		// one failing call, or (one case in four) a run of 2-6 failing mutating calls: a disk that is full for a while
		vfs.FailRun(k, rapid.SampledFrom([]int{1, 1, 1, 2, 3, 6}).Draw(t, "failingCalls"))
		vfs.FailShort(rapid.Bool().Draw(t, "shortWrite")) // a failing write may have taken half of its buffer
	}
	h := olareg.New(c12fConf(root))
	trace = append(trace, fmt.Sprintf("%d mutating and %d reading file-system calls without fault; fault at %s call %d (second at %d)", total, totalReads, map[bool]string{true: "reading", false: "mutating"}[readFault], k, k2))
	faultStep, laterSameRepo := -1, false
	faultOp := ""
	for i, s := range steps {
		s := s
		before := c12fCount(readFault)
		res := ""
		ok := true
		if s.run == nil {
			ok = withWatchdog(30*time.Second, func() { _ = h.Close() })
			h = olareg.New(c12fConf(root))
			res = "new server"
		} else {
			ok = withWatchdog(30*time.Second, func() { res = s.run(h) })
		}
		after := c12fCount(readFault)
		if faultStep < 0 && before < k && after >= k {
			faultStep = i
			for _, op := range vfs.Log() {
				if strings.HasSuffix(op.Kind, "!fault") {
					faultOp = fmt.Sprintf("%s(%s)", op.Kind, strings.TrimPrefix(op.Path, root))
				}
			}
			trace = append(trace, "  fault delivered: "+faultOp)
			if k2 > after {
				vfs.FailAt(k2)
			}
		} else if faultStep >= 0 && s.repo == steps[faultStep].repo {
			laterSameRepo = true
		}
		trace = append(trace, fmt.Sprintf("%s -> %s", s.name, res))
		if !ok {
			dump := goroutineDump()
			vfs.Kill(root)
			fail("request-stuck-after-io-error", "%q did not return (fault %s was delivered in step %d, %q); goroutines inside olareg:\n%s", s.name, faultOp, faultStep, stepName(steps, faultStep), trunc([]byte(dump), 3000))
		}
	}
	if !withWatchdog(30*time.Second, func() { _ = h.Close() }) {
		dump := goroutineDump()
		vfs.Kill(root)
		fail("close-stuck-after-io-error", "Close did not return (fault %s was delivered in step %d, %q); goroutines inside olareg:\n%s", faultOp, faultStep, stepName(steps, faultStep), trunc([]byte(dump), 3000))
	}
	vfs.Reset("", false)
	classes := []string{}
	if faultStep >= 0 {
		classes = append(classes, "fault-delivered", "fault-in:"+strings.Fields(steps[faultStep].name)[0], "fault-op:"+strings.SplitN(faultOp, "(", 2)[0])
	}
	if k2 > 0 {
		classes = append(classes, "second-fault")
	}
	st.Case(append([]string{fmt.Sprintf("k=%d", k)}, trace...), faultStep >= 0 && laterSameRepo, classes...)
}

// c12fReadOrdinals returns the ordinals (1-based, among the reading calls under root) of the opens of files whose path ends with suffix.
func c12fReadOrdinals(log []vfs.Op, root, suffix string) []int {
	out, n := []int{}, 0
	for _, op := range log {
		if op.Mut || !(op.Path == root || strings.HasPrefix(op.Path, root+"/")) {
			continue
		}
		n++
		switch {
		case suffix == "probes":
			// what the store looks at when it meets a repository for the first time
			if (op.Kind == "stat" && strings.HasSuffix(op.Path, "/index.json")) || (op.Kind == "readfile" && strings.HasSuffix(op.Path, "/oci-layout")) {
				out = append(out, n)
			}
		case strings.HasSuffix(op.Path, suffix) && op.Kind == "open":
			out = append(out, n)
		}
	}
	return out
}

// c12fCount is the shim's running count of the kind of call the fault is armed on.
func c12fCount(reads bool) int {
	if reads {
		return vfs.ReadCount()
	}
	return vfs.MutCount()
}

func stepName(steps []c12fStep, i int) string {
	if i < 0 || i >= len(steps) {
		return "-"
	}
	return steps[i].name
}

func TestC12Faults(t *testing.T) {
	st := newStats("TestC12Faults", "C12", c12fRule)
	rapid.Check(t, func(rt *rapid.T) { c12fProperty(rt, st) })
}
