package vh

// Engine E2 (GC graph machine) and C05 — garbage collection never removes retained or recent content
// (DESIGN.md §2 E2, §3 C05).

import (
	"encoding/json"
	"fmt"
	"sort"
	"strings"
	"testing"
	"time"

	"pgregory.net/rapid"

	"github.com/olareg/olareg/config"
)

const c05Rule = "rapid state machine building object graphs (shared layers, aliased digests that are both layer and manifest, nested indexes to depth 3, shared children, foreign-typed children, artifacts on images/indexes/children/" +
	"artifacts/missing digests/blob-only digests, circular subject+child) with tag moves and deletes, ageing of all blobs by 30 min / 2 h, and collections at any step (per repository, store-wide pass, restart) under every " +
	"Untagged x ReferrersDangling x ReferrersWithSubj x EmptyRepo x GracePeriod{-1,1h} x {mem,dir} combination; oracle = must-keep closure computed on the model from the statement; " +
	"non-trivial = >=1 collection ran when the repository held >=1 must-keep and >=1 collectable object; distinct = hash of the op trace"

var gcRepos = []string{"r1", "r2/n"}
var gcTags = []string{"t1", "t2", "t3"}

type gcState struct {
	*env
	untagged, dangling, withSubj, emptyRepo bool
	grace                                   time.Duration
	age                                     map[string]map[string]time.Duration // repo -> digest -> age
	// manBlobDelete (C06 only): the blob of a manifest may be deleted through the blob API, which leaves its index
	// entry behind for the next pass to clean up
	manBlobDelete bool
	// noTimeJump (C06, between the first passes and the pass under test): no operation lets hours pass, because the
	// ticks that would fall into those hours are not emulated there
	noTimeJump bool
}

func newGCState(t *rapid.T, st *Stats, forceOld bool) (*gcState, func()) {
	g := &gcState{age: map[string]map[string]time.Duration{}}
	dirStore := rapid.Bool().Draw(t, "dirStore")
	g.untagged, g.dangling, g.withSubj, g.emptyRepo = rapid.Bool().Draw(t, "untagged"), rapid.Bool().Draw(t, "refDangling"), rapid.Bool().Draw(t, "refWithSubj"), rapid.Bool().Draw(t, "emptyRepo")
	// "disable with a negative value": any negative value, not only the smallest
	g.grace = rapid.SampledFrom([]time.Duration{-1, -time.Second, -time.Hour, time.Hour, time.Hour, time.Hour}).Draw(t, "grace")
	e, cleanup := newEnv(t, st, dirStore, func(c *config.Config) {
		c.Storage.GC.Untagged, c.Storage.GC.ReferrersDangling, c.Storage.GC.ReferrersWithSubj, c.Storage.GC.EmptyRepo = bp(g.untagged), bp(g.dangling), bp(g.withSubj), bp(g.emptyRepo)
		c.Storage.GC.GracePeriod = g.grace
	})
	g.env = e
	e.repoPool = gcRepos
	e.logf("dir=%v untagged=%v refDangling=%v refWithSubj=%v emptyRepo=%v grace=%v", dirStore, g.untagged, g.dangling, g.withSubj, g.emptyRepo, g.grace)
	e.class(fmt.Sprintf("policy:u%v-d%v-s%v", b2i(g.untagged), b2i(g.dangling), b2i(g.withSubj)))
	if g.grace >= 0 {
		e.class("grace-on")
	} else {
		e.class("grace-off")
	}
	if dirStore {
		e.class("dir")
	} else {
		e.class("mem")
	}
	return g, cleanup
}

func b2i(b bool) int {
	if b {
		return 1
	}
	return 0
}

// touchAges gives every blob the model knows an age (new ones start at 0; acknowledged re-uploads reset it, see opPushBlob/opPushManifest).
func (g *gcState) touchAges() {
	for _, rn := range gcRepos {
		mr := g.repo(rn)
		if g.age[rn] == nil {
			g.age[rn] = map[string]time.Duration{}
		}
		for d := range mr.blobs {
			if _, ok := g.age[rn][d]; !ok {
				g.age[rn][d] = 0
			}
		}
		for d := range g.age[rn] {
			if _, ok := mr.blobs[d]; !ok {
				delete(g.age[rn], d)
			}
		}
	}
}

func (g *gcState) recent(rn, d string) bool {
	return g.grace >= 0 && g.age[rn][d] < g.grace
}

// lookupMan finds the content description of a manifest digest (same bytes = same content, whatever the repository).
func (g *gcState) lookupMan(d string) *mman {
	for _, rn := range gcRepos {
		if x := g.repo(rn).everMans[d]; x != nil {
			return x
		}
	}
	return nil
}

type keepSet struct {
	blob map[string]string // digest -> reason (must still be served as a blob with identical bytes)
	man  map[string]string // digest -> reason (must still be served as a manifest by digest)
}

// mustKeep computes the must-keep set of one repository straight from the statement of C05.
func (g *gcState) mustKeep(rn string) keepSet {
	mr := g.repo(rn)
	g.touchAges()
	K := keepSet{blob: map[string]string{}, man: map[string]string{}}
	keep := func(d, why string) bool {
		if _, ok := mr.blobs[d]; !ok {
			return false // not in this repository: cannot be required
		}
		if _, ok := K.blob[d]; !ok {
			K.blob[d] = why
		}
		return true
	}
	walked := map[string]bool{}
	var walkMan func(d, why string, asManifest bool)
	walkMan = func(d, why string, asManifest bool) {
		if !keep(d, why) {
			return
		}
		if asManifest && mr.mans[d] != nil && !mr.fuzzy[d] {
			if _, ok := K.man[d]; !ok {
				K.man[d] = why
			}
		}
		if walked[d] {
			return
		}
		walked[d] = true
		x := g.lookupMan(d)
		if x == nil {
			return
		}
		for i, r := range x.refs {
			if x.isIndex {
				// a child listed under a foreign media type is an opaque blob to the registry
				if i < len(x.refMT) && !(isImageType(x.refMT[i]) || isIndexType(x.refMT[i])) {
					keep(r, "foreign-typed child of "+short(d))
					continue
				}
				walkMan(r, "child of "+short(d), false)
			} else {
				keep(r, "config/layer of "+short(d))
			}
		}
		// referrers of a retained subject (only when the subject is a present manifest of this repository, and no
		// earlier collection legitimately dropped its referrers response while the subject was not retained)
		if mr.mans[d] != nil && !mr.fuzzy[d] && !mr.refFuzzy[d] {
			for _, ad := range sortedKeys(mr.mans) {
				if a := mr.mans[ad]; a.subject == d && !mr.fuzzy[ad] {
					walkMan(ad, "referrer of "+short(d), true)
				}
			}
		}
	}
	tagged := map[string]bool{}
	for _, d := range mr.tags {
		tagged[d] = true
	}
	// While finding 12 (C05/orphaned-child) is open, a manifest that is listed as a child of a present index has left
	// index.json: it has no entry of its own and survives only through a retained parent. Its own root status
	// (untagged-collection-off, recent manifest) is therefore not asserted; tagged entries always stay top-level.
	childOfPresent := map[string]bool{}
	for _, m := range mr.mans {
		if m.isIndex {
			for i, c := range m.refs {
				if i >= len(m.refMT) || isImageType(m.refMT[i]) || isIndexType(m.refMT[i]) {
					childOfPresent[c] = true
				}
			}
		}
	}
	for _, d := range sortedKeys(mr.mans) {
		x := mr.mans[d]
		top := !mr.fuzzy[d] && !childOfPresent[d]
		switch {
		case tagged[d]:
			walkMan(d, "tagged", true)
		case !top:
			g.st.Exclude("C05/orphaned-child:root-status-of-child-manifest")
		case g.recent(rn, d):
			walkMan(d, "manifest younger than the grace period", true)
		case !g.untagged && x.subject == "":
			walkMan(d, "untagged manifest while untagged collection is off", true)
		}
	}
	for d := range mr.blobs {
		if g.recent(rn, d) {
			keep(d, "blob younger than the grace period")
		}
	}
	// "the referrers of a retained subject": the subject need not be a manifest - a digest that is retained as the
	// config or a layer of a retained image is retained content, and a present manifest naming it as its subject is
	// its referrer (to a fixed point: the referrer's own content may be the subject of further referrers)
	for changed := true; changed; {
		changed = false
		for _, ad := range sortedKeys(mr.mans) {
			a := mr.mans[ad]
			if a.subject == "" || mr.fuzzy[ad] || mr.refFuzzy[a.subject] || childOfPresent[ad] || mr.mans[a.subject] != nil {
				continue
			}
			// (retained as part of a retained manifest - a loose blob that merely is young is nobody's subject yet: the
			// fixture of Appendix B removes the referrers of a subject that exists only as an unreferenced blob)
			if why, retained := K.blob[a.subject]; !retained || strings.HasPrefix(why, "blob younger") {
				continue
			}
			if _, done := K.man[ad]; done {
				continue
			}
			walkMan(ad, "referrer of retained content "+short(a.subject), true)
			g.class("referrer-of-retained-blob")
			changed = true
		}
	}
	return K
}

// afterCollect checks the must-keep set and re-synchronises the model with what the policy legitimately removed.
func (g *gcState) afterCollect(rn string, K keepSet, how string) {
	mr := g.repo(rn)
	for _, d := range sortedKeys(K.blob) {
		r := g.do("GET", "/v2/"+rn+"/blobs/"+d, nil, nil)
		if r.panicV != nil {
			g.abandon("panic")
		}
		if r.code != 200 || !sameBytes(r.body, mr.blobs[d]) {
			g.fail("retained-content-removed", "collection (%s) of %s removed %s (blob GET %d), which must be kept: %s", how, rn, short(d), r.code, K.blob[d])
		}
	}
	for _, d := range sortedKeys(K.man) {
		r := g.do("GET", "/v2/"+rn+"/manifests/"+d, nil, hdr("Accept", acceptAll))
		if r.code != 200 || !sameBytes(r.body, mr.mans[d].raw) {
			g.fail("retained-manifest-removed", "collection (%s) of %s: manifest %s is no longer served by digest (%d), it must be kept: %s", how, rn, short(d), r.code, K.man[d])
		}
	}
	for tg, d := range mr.tags {
		r := g.do("HEAD", "/v2/"+rn+"/manifests/"+tg, nil, hdr("Accept", acceptAll))
		if r.code != 200 || r.hdr.Get("Docker-Content-Digest") != d {
			g.fail("tag-removed", "collection (%s) of %s: tag %s no longer resolves to %s (%d %s)", how, rn, tg, short(d), r.code, short(r.hdr.Get("Docker-Content-Digest")))
		}
	}
	// referrers of retained subjects still list their retained referrers
	for _, sd := range sortedKeys(K.man) {
		if mr.refFuzzy[sd] {
			continue
		}
		want := []string{}
		for ad, a := range mr.mans {
			if a.subject == sd {
				if _, ok := K.man[ad]; ok {
					want = append(want, ad)
				}
			}
		}
		if len(want) == 0 {
			continue
		}
		r := g.do("GET", "/v2/"+rn+"/referrers/"+sd, nil, nil)
		var idx mbody
		_ = json.Unmarshal(r.body, &idx)
		got := map[string]bool{}
		for _, x := range idx.Manifests {
			got[x.Digest] = true
		}
		for _, ad := range want {
			if !got[ad] {
				g.fail("retained-referrer-unlisted", "collection (%s) of %s: referrers of the retained subject %s no longer list the retained referrer %s (status %d, listed %v)", how, rn, short(sd), short(ad), r.code, shortList(sortedKeys(got)))
			}
		}
	}
	// pull walk from every tag
	for tg := range mr.tags {
		g.pullWalk(rn, tg, how)
	}
	// after a collection the listing of a subject that is not a retained manifest is unspecified
	for _, a := range mr.mans {
		if a.subject != "" {
			if _, ok := K.man[a.subject]; !ok {
				mr.refFuzzy[a.subject] = true
			}
		}
	}
	// re-synchronise: what is outside K may legitimately be gone
	collectable := 0
	for _, d := range sortedKeys(mr.blobs) {
		if _, ok := K.blob[d]; ok {
			continue
		}
		collectable++
		if r := g.do("HEAD", "/v2/"+rn+"/blobs/"+d, nil, nil); r.code == 404 {
			delete(mr.blobs, d)
			if mr.mans[d] != nil {
				g.modelDeleteDigest(rn, d) // children of a collected index are orphaned like those of a deleted one
			}
			g.class("something-collected")
		}
	}
	for _, d := range sortedKeys(mr.mans) {
		if _, ok := K.man[d]; ok {
			continue
		}
		if r := g.do("HEAD", "/v2/"+rn+"/manifests/"+d, nil, hdr("Accept", acceptAll)); r.code == 404 {
			g.modelDeleteDigest(rn, d)
		}
	}
	if len(K.blob) > 0 && collectable > 0 {
		g.class("collect-with-keep-and-garbage")
	}
}

// pullWalk fetches a whole tagged image: manifest, children, config, layers.
func (g *gcState) pullWalk(rn, tg, how string) {
	mr := g.repo(rn)
	r := g.do("GET", "/v2/"+rn+"/manifests/"+tg, nil, hdr("Accept", acceptAll))
	if r.code != 200 {
		g.fail("tagged-image-not-pullable", "after collection (%s): GET of tag %s/%s answers %d", how, rn, tg, r.code)
	}
	seen := map[string]bool{}
	var walk func(raw []byte, mt, path string, depth int)
	walk = func(raw []byte, mt, path string, depth int) {
		if depth > 6 {
			return
		}
		var b mbody
		if json.Unmarshal(raw, &b) != nil {
			return
		}
		if isIndexType(mt) {
			for _, c := range b.Manifests {
				if _, ok := mr.blobs[c.Digest]; seen[c.Digest] || !ok {
					continue // explicitly deleted through the API (not by the collection): not part of the claim
				}
				seen[c.Digest] = true
				var cr resp
				// children that were never (or are no longer) manifests of their own are fetched as blobs (finding 12 keeps
				// their by-digest manifest visibility unspecified)
				asBlob := mr.mans[c.Digest] == nil || mr.fuzzy[c.Digest] || !(isIndexType(c.MediaType) || isImageType(c.MediaType))
				if asBlob {
					cr = g.do("GET", "/v2/"+rn+"/blobs/"+c.Digest, nil, nil)
				} else {
					cr = g.do("GET", "/v2/"+rn+"/manifests/"+c.Digest, nil, hdr("Accept", acceptAll))
				}
				if cr.code != 200 || !hashesTo(c.Digest, cr.body) {
					ij, _ := g.srv.VerifIndexJSON(rn)
					bl, _ := g.srv.VerifBlobList(rn)
					g.fail("tagged-image-not-pullable", "after collection (%s): pull of tag %s/%s: child %s of %s answers %d %s (asBlob=%v)\nindex of the store: %s\nblobs: %v", how, rn, tg, short(c.Digest), path, cr.code, trunc(cr.body, 160), asBlob, trunc(ij, 3000), shortList(bl))
				}
				if isIndexType(c.MediaType) || isImageType(c.MediaType) {
					walk(cr.body, c.MediaType, path+">"+short(c.Digest), depth+1)
				}
			}
			return
		}
		refs := []string{}
		if b.Config != nil {
			refs = append(refs, b.Config.Digest)
		}
		for _, l := range b.Layers {
			refs = append(refs, l.Digest)
		}
		for _, d := range refs {
			if _, ok := mr.blobs[d]; !ok {
				continue
			}
			br := g.do("GET", "/v2/"+rn+"/blobs/"+d, nil, nil)
			if br.code != 200 || !hashesTo(d, br.body) {
				g.fail("tagged-image-not-pullable", "after collection (%s): pull of tag %s/%s: config/layer %s of %s answers %d", how, rn, tg, short(d), path, br.code)
			}
		}
	}
	walk(r.body, r.hdr.Get("Content-Type"), tg, 0)
}

// ---- graph building operations (shared by C05 and C06)

func (g *gcState) opPushBlob(t *rapid.T) {
	rn := rapid.SampledFrom(gcRepos).Draw(t, "repo")
	b := rapid.SampledFrom(blobPool).Draw(t, "blob")
	d := dig("sha256", b)
	proto := rapid.SampledFrom([]string{"post", "post", "post+put", "post+patch+put", "post+patch+wait+put"}).Draw(t, "protocol")
	if g.noTimeJump && proto == "post+patch+wait+put" {
		proto = "post+patch+put"
	}
	_, again := g.repo(rn).blobs[d]
	var r resp
	switch proto {
	case "post":
		r = g.do("POST", "/v2/"+rn+"/blobs/uploads/?digest="+d, b, nil)
	default:
		r = g.do("POST", "/v2/"+rn+"/blobs/uploads/", nil, nil)
		if r.code != 202 {
			g.abandon("session refused")
		}
		loc := r.hdr.Get("Location")
		if proto == "post+put" {
			r = g.do("PUT", loc+"&digest="+d, b, nil)
			break
		}
		r = g.do("PATCH", loc, b, hdr("Content-Range", fmt.Sprintf("0-%d", len(b)-1)))
		if r.code != 202 {
			g.abandon("chunk refused")
		}
		loc = r.hdr.Get("Location")
		if proto == "post+patch+wait+put" {
			// the data was written long ago; the upload is completed (acknowledged) only now
			g.advance(2 * time.Hour)
			g.class("upload-completed-long-after-last-write")
		}
		r = g.do("PUT", loc+"&digest="+d, nil, nil)
	}
	g.logf("pushBlob %s %s (%s) -> %d", rn, short(d), proto, r.code)
	if r.code != 201 {
		g.abandon("blob push refused")
	}
	g.repo(rn).blobs[d] = b
	g.universe[d] = true
	// an acknowledged upload is a recent upload, whether or not the content was there before
	g.touchAges()
	if again && g.age[rn][d] > 0 {
		g.class("old-blob-uploaded-again")
	}
	g.age[rn][d] = 0
}

// drawBlobRef picks a config/layer digest: usually a plain blob, sometimes a digest that is also a manifest (aliasing).
func (g *gcState) drawBlobRef(t *rapid.T, mr *mrepo, label string) string {
	all := sortedKeys(mr.blobs)
	if len(all) == 0 {
		return ""
	}
	if rapid.IntRange(0, 4).Draw(t, label+"Alias") == 0 {
		mans := []string{}
		for _, d := range all {
			if mr.mans[d] != nil || g.lookupMan(d) != nil {
				mans = append(mans, d)
			}
		}
		if len(mans) > 0 {
			g.class("aliased-digest")
			return rapid.SampledFrom(mans).Draw(t, label+"Man")
		}
	}
	plain := mr.plainBlobs()
	if len(plain) == 0 {
		return rapid.SampledFrom(all).Draw(t, label)
	}
	return rapid.SampledFrom(plain).Draw(t, label)
}

func (g *gcState) opPushManifest(t *rapid.T) {
	rn := rapid.SampledFrom(gcRepos).Draw(t, "repo")
	mr := g.repo(rn)
	kind := rapid.SampledFrom([]string{"image", "image", "index", "artifact", "artifact", "artifact-index"}).Draw(t, "kind")
	salt := map[string]string{"n": fmt.Sprint(rapid.IntRange(0, 4).Draw(t, "salt"))}
	var subj *mdesc
	if kind == "artifact" || kind == "artifact-index" {
		cands := append(sortedKeys(mr.mans), dig("sha256", []byte("subject never pushed")))
		cands = append(cands, mr.plainBlobs()...)
		sd := rapid.SampledFrom(cands).Draw(t, "subject")
		smt := mtImage
		if x := mr.mans[sd]; x != nil {
			smt = x.mt
			if x.subject != "" {
				g.class("referrer-of-referrer")
			}
		} else {
			g.class("dangling-or-blob-subject")
		}
		subj = &mdesc{MediaType: smt, Digest: sd, Size: int64(len(mr.blobs[sd]))}
		g.subjects[sd] = true
	}
	var raw []byte
	var mm *mman
	if kind == "index" || kind == "artifact-index" {
		kids := []mdesc{}
		mans := sortedKeys(mr.mans)
		n := rapid.IntRange(0, 3).Draw(t, "nChildren")
		for i := 0; i < n && len(mans) > 0; i++ {
			c := rapid.SampledFrom(mans).Draw(t, "child")
			if _, ok := mr.blobs[c]; !ok {
				continue
			}
			kids = append(kids, mdesc{MediaType: mr.mans[c].mt, Digest: c, Size: int64(len(mr.mans[c].raw))})
			if mr.mans[c].isIndex {
				g.class("nested-index")
			}
			for _, o := range mr.mans {
				if o.isIndex {
					for _, oc := range o.refs {
						if oc == c {
							g.class("shared-child")
						}
					}
				}
			}
		}
		if subj != nil && mr.mans[subj.Digest] != nil && rapid.IntRange(0, 2).Draw(t, "circular") == 0 {
			kids = append(kids, mdesc{MediaType: mr.mans[subj.Digest].mt, Digest: subj.Digest, Size: int64(len(mr.mans[subj.Digest].raw))})
			g.class("circular-subject-child")
		}
		if pl := mr.plainBlobs(); len(pl) > 0 && rapid.IntRange(0, 5).Draw(t, "foreignChild") == 0 {
			c := rapid.SampledFrom(pl).Draw(t, "foreignChildBlob")
			kids = append(kids, mdesc{MediaType: "application/vnd.example.foreign", Digest: c, Size: int64(len(mr.blobs[c]))})
			g.class("foreign-typed-child")
		}
		raw, mm = buildIndex(mtIndex, kids, subj, "application/vnd.x.gc", salt)
	} else {
		cfg := g.drawBlobRef(t, mr, "config")
		if cfg == "" {
			g.skip(t, "no blobs")
		}
		layers, sizes := []string{}, []int{}
		for i, n := 0, rapid.IntRange(0, 3).Draw(t, "nLayers"); i < n; i++ {
			l := g.drawBlobRef(t, mr, "layer")
			layers = append(layers, l)
			sizes = append(sizes, len(mr.blobs[l]))
		}
		raw, mm = buildImage(mtImage, mtConfig, cfg, len(mr.blobs[cfg]), layers, sizes, subj, "application/vnd.x.gc", salt)
	}
	p := manifestPlan{repo: rn, raw: raw, mm: mm, ct: mm.mt, alg: "sha256", digest: dig("sha256", raw)}
	p.ref = p.digest
	if rapid.IntRange(0, 2).Draw(t, "byTag") > 0 {
		p.tag = rapid.SampledFrom(gcTags).Draw(t, "tag")
		p.ref = p.tag
	}
	r := g.putManifest(p, nil)
	g.logf("pushManifest %s kind=%s %s ref=%s refs=%v subject=%s -> %d", rn, kind, short(p.digest), shortTag(p.ref), shortList(mm.refs), short(mm.subject), r.code)
	if r.panicV != nil || r.code != 201 {
		g.abandon(fmt.Sprintf("manifest refused %d", r.code))
	}
	_, again := mr.blobs[p.digest]
	g.acceptManifest(p)
	// finding 12, another face: a child is known to the store only through what its parents say about it. A digest
	// that some index of this repository lists under another media type (it was an opaque blob when that index was
	// pushed) is served under either type depending on which parent the last index reload met first.
	for _, o := range mr.everMans {
		if !o.isIndex {
			continue
		}
		for i, c := range o.refs {
			if c == p.digest && i < len(o.refMT) && o.refMT[i] != mm.mt {
				mr.markFuzzy(p.digest)
				g.class("digest-listed-under-two-types")
			}
		}
	}
	// an acknowledged push is a recent push, whether or not the bytes were stored before
	g.touchAges()
	if again && g.age[rn][p.digest] > 0 {
		g.class("old-manifest-pushed-again")
	}
	g.age[rn][p.digest] = 0
}

func (g *gcState) opDelete(t *rapid.T) {
	rn := rapid.SampledFrom(gcRepos).Draw(t, "repo")
	mr := g.repo(rn)
	top := 2
	if g.manBlobDelete {
		top = 3
	}
	switch rapid.IntRange(0, top).Draw(t, "what") {
	case 0:
		if len(mr.tags) == 0 {
			g.skip(t, "no tags")
		}
		tg := rapid.SampledFrom(sortedKeys(mr.tags)).Draw(t, "tag")
		r := g.do("DELETE", "/v2/"+rn+"/manifests/"+tg, nil, nil)
		g.logf("deleteTag %s %s -> %d", rn, tg, r.code)
		if r.code != 202 {
			g.abandon("tag delete refused")
		}
		delete(mr.tags, tg)
	case 1:
		if len(mr.mans) == 0 {
			g.skip(t, "no manifests")
		}
		d := rapid.SampledFrom(sortedKeys(mr.mans)).Draw(t, "digest")
		r := g.do("DELETE", "/v2/"+rn+"/manifests/"+d, nil, nil)
		g.logf("deleteManifest %s %s -> %d", rn, short(d), r.code)
		if r.code != 202 && !(mr.fuzzy[d] && r.code == 404) {
			g.abandon("manifest delete refused")
		}
		if m := mr.mans[d]; m != nil && m.subject != "" && r.code != 202 {
			mr.refFuzzy[m.subject] = true
		}
		g.modelDeleteDigest(rn, d)
	case 2:
		pl := mr.plainBlobs()
		if len(pl) == 0 {
			g.skip(t, "no blobs")
		}
		d := rapid.SampledFrom(pl).Draw(t, "blob")
		r := g.do("DELETE", "/v2/"+rn+"/blobs/"+d, nil, nil)
		g.logf("deleteBlob %s %s -> %d", rn, short(d), r.code)
		if r.code != 202 {
			g.abandon("blob delete refused")
		}
		delete(mr.blobs, d)
	case 3:
		// DELETE blobs/<digest of a manifest>: only for manifests nothing else refers to, so that the model stays exact
		cands := []string{}
		for _, d := range sortedKeys(mr.mans) {
			free := !mr.fuzzy[d] && mr.mans[d].subject == ""
			for _, tg := range mr.tags {
				if tg == d {
					free = false
				}
			}
			for _, o := range mr.mans {
				if o.subject == d {
					free = false
				}
				for _, x := range o.refs {
					if x == d {
						free = false
					}
				}
			}
			if free {
				cands = append(cands, d)
			}
		}
		if len(cands) == 0 {
			g.skip(t, "no free-standing untagged manifest")
		}
		d := rapid.SampledFrom(cands).Draw(t, "manifestBlob")
		r := g.do("DELETE", "/v2/"+rn+"/blobs/"+d, nil, nil)
		g.logf("deleteBlob %s %s (a manifest: its index entry stays behind) -> %d", rn, short(d), r.code)
		if r.code != 202 {
			g.abandon("blob delete refused")
		}
		g.modelDeleteDigest(rn, d)
		delete(mr.blobs, d)
		g.class("manifest-blob-deleted")
	}
}

func (g *gcState) opAdvance(t *rapid.T) {
	d := rapid.SampledFrom([]time.Duration{30 * time.Minute, 2 * time.Hour}).Draw(t, "delta")
	g.advance(d)
}

func (g *gcState) advance(d time.Duration) {
	g.logf("advance %v", d)
	g.touchAges()
	for _, rn := range gcRepos {
		if err := g.srv.VerifAgeBlobs(rn, d); err != nil {
			g.abandon("ageing hook failed: " + err.Error())
		}
		for x := range g.age[rn] {
			g.age[rn][x] += d
		}
	}
	g.class("advance")
}

func (g *gcState) opCollect(t *rapid.T) {
	how := rapid.SampledFrom([]string{"repo", "repo", "pass", "restart"}).Draw(t, "how")
	if how == "restart" && !g.isDir() {
		how = "pass"
	}
	Ks := map[string]keepSet{}
	for _, rn := range gcRepos {
		Ks[rn] = g.mustKeep(rn)
	}
	mid := false
	for _, rn := range gcRepos {
		mr := g.repo(rn)
		if len(mr.plainBlobs()) > 0 && len(mr.mans) == 0 {
			mid = true
		}
	}
	if mid {
		g.class("collect-between-blobs-and-manifest")
	}
	switch how {
	case "repo":
		rn := rapid.SampledFrom(gcRepos).Draw(t, "repo")
		g.logf("collect repository %s (must keep %d blobs, %d manifests)", rn, len(Ks[rn].blob), len(Ks[rn].man))
		if err := g.srv.VerifGC(rn); err != nil && !strings.Contains(err.Error(), "failed to load index") {
			g.abandon("collection reported an error: " + err.Error())
		}
		g.afterCollect(rn, Ks[rn], how)
	case "pass":
		g.logf("collect store-wide pass")
		_ = g.srv.VerifGCPass(time.Now(), time.Time{})
		for _, rn := range gcRepos {
			g.afterCollect(rn, Ks[rn], how)
		}
	case "restart":
		g.logf("restart (Close collects every open repository)")
		g.restart()
		for _, rn := range gcRepos {
			g.afterCollect(rn, Ks[rn], how)
		}
	}
	g.class("collect:" + how)
}

func c05Property(t *rapid.T, st *Stats) {
	g, cleanup := newGCState(t, st, false)
	defer cleanup()
	defer func() {
		if g.abandoned {
			return
		}
		st.Case(g.trace, g.classes["collect-with-keep-and-garbage"], g.classList()...)
	}()
	t.Repeat(g.actions(map[string]func(*rapid.T){
		"pushBlob":      g.opPushBlob,
		"pushManifest":  g.opPushManifest,
		"pushManifest2": g.opPushManifest,
		"delete":        g.opDelete,
		"advance":       g.opAdvance,
		"collect":       g.opCollect,
		"":              func(*rapid.T) {},
	}))
}

func TestC05(t *testing.T) {
	st := newStats("TestC05", "C05", c05Rule)
	rapid.Check(t, func(t *rapid.T) { c05Property(t, st) })
}

var _ = sort.Strings
