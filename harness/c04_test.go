package vh

// C04 — only complete, well-formed manifests are accepted; refusals change nothing (DESIGN.md §3 C04).

import (
	"crypto/sha256"
	"encoding/hex"
	"encoding/json"
	"fmt"
	"os"
	"path/filepath"
	"regexp"
	"sort"
	"strings"
	"testing"

	"pgregory.net/rapid"
)

const c04Rule = "rapid state machine: valid image/index/artifact manifests with 0-2 mutations (truncate, non-object top level, dropped config, malformed/unsupported/absent/foreign-repo/deleted references, " +
	"unknown fields, contradictory body mediaType) x Content-Type pool x reference pool x ?digest=; oracle = independent acceptance predicate + before/after snapshot (API battery + file tree); " +
	"non-trivial = >=1 refused push in a non-empty repository and >=1 accepted push; distinct = hash of the op trace"

var c04Repos = []string{"r1", "r2/n", "other"}
var c04TagRE = regexp.MustCompile(`^[a-zA-Z0-9_][a-zA-Z0-9._-]{0,127}$`)
var c04DigRE = regexp.MustCompile(`^(sha256:[a-f0-9]{64}|sha384:[a-f0-9]{96}|sha512:[a-f0-9]{128})$`)
var c04Tags = []string{"t1", "t2", "_edge", strings.Repeat("k", 128)}

// snapshot is the observable state of all repositories (API battery) plus, for the dir store, the file tree.
func (e *env) snapshot(tags []string) string {
	var sb strings.Builder
	digs := sortedKeys(e.universe)
	for _, rn := range e.repoPool {
		mr := e.repo(rn)
		r := e.do("GET", "/v2/"+rn+"/tags/list", nil, nil)
		fmt.Fprintf(&sb, "%s tags %d %s|", rn, r.code, strings.TrimSpace(string(r.body)))
		for _, tg := range tags {
			g := e.do("HEAD", "/v2/"+rn+"/manifests/"+tg, nil, hdr("Accept", acceptAll))
			if g.code != 404 {
				fmt.Fprintf(&sb, "t:%s=%d/%s ", shortTag(tg), g.code, short(g.hdr.Get("Docker-Content-Digest")))
			}
		}
		for _, d := range digs {
			rb := e.do("HEAD", "/v2/"+rn+"/blobs/"+d, nil, nil)
			if rb.code != 404 {
				fmt.Fprintf(&sb, "b:%s=%d ", short(d), rb.code)
			}
			if !mr.fuzzy[d] {
				rm := e.do("HEAD", "/v2/"+rn+"/manifests/"+d, nil, hdr("Accept", acceptAll))
				if rm.code != 404 {
					fmt.Fprintf(&sb, "m:%s=%d/%s ", short(d), rm.code, rm.hdr.Get("Content-Type"))
				}
			}
			if !c04DigRE.MatchString(d) || !e.subjects[d] {
				continue
			}
			rr := e.do("GET", "/v2/"+rn+"/referrers/"+d, nil, nil)
			var idx mbody
			_ = json.Unmarshal(rr.body, &idx)
			if len(idx.Manifests) > 0 || rr.code != 200 {
				ds := []string{}
				for _, x := range idx.Manifests {
					ds = append(ds, short(x.Digest))
				}
				sort.Strings(ds)
				fmt.Fprintf(&sb, "r:%s=%d%v ", short(d), rr.code, ds)
			}
		}
		sb.WriteString("\n")
	}
	if e.root != "" {
		sb.WriteString(treeSnapshot(e.root, false))
	}
	return sb.String()
}

// treeSnapshot lists every file (path, size, sha256) under root, without upload bookkeeping.
func treeSnapshot(root string, withMtime bool) string {
	var sb strings.Builder
	_ = filepath.Walk(root, func(p string, fi os.FileInfo, err error) error {
		if err != nil {
			return nil
		}
		rel, _ := filepath.Rel(root, p)
		if fi.IsDir() {
			if fi.Name() == "_uploads" {
				return filepath.SkipDir
			}
			fmt.Fprintf(&sb, "D %s\n", rel)
			return nil
		}
		b, _ := os.ReadFile(p)
		h := sha256.Sum256(b)
		if withMtime {
			fmt.Fprintf(&sb, "F %s %d %s %o %d\n", rel, fi.Size(), hex.EncodeToString(h[:8]), fi.Mode(), fi.ModTime().UnixNano())
		} else {
			fmt.Fprintf(&sb, "F %s %d %s\n", rel, fi.Size(), hex.EncodeToString(h[:8]))
		}
		return nil
	})
	return sb.String()
}

type c04Verdict struct {
	ok        bool   // the statement requires acceptance conditions to hold
	detection bool   // Content-Type absent: type comes from heuristic detection, ok => 201 is not asserted
	dontCare  bool   // body is JSON null: neither direction asserted
	why       string // first failed condition
	isTag     bool
	digest    string // digest the content is stored under if accepted
}

// c04Predict is the acceptance predicate written from the property text, evaluated on the final request.
func c04Predict(raw []byte, ct, ref, qdig string, blobs map[string][]byte, ackTypes map[string]map[string]bool) c04Verdict {
	v := c04Verdict{ok: true}
	no := func(why string) {
		if v.ok {
			v.ok, v.why = false, why
		}
	}
	// reference
	if c04TagRE.MatchString(ref) {
		v.isTag = true
		v.digest = dig("sha256", raw)
		if qdig != "" {
			if !c04DigRE.MatchString(qdig) {
				no("?digest= is not a valid digest")
			} else if !hashesTo(qdig, raw) {
				no("?digest= does not match the body")
			}
			v.digest = qdig
		}
	} else {
		if !c04DigRE.MatchString(ref) {
			no("reference is neither a tag nor a valid digest")
		} else if !hashesTo(ref, raw) {
			no("reference digest does not match the body")
		}
		v.digest = ref
	}
	// media type
	hdrType, _, _ := strings.Cut(ct, ";")
	hdrType = strings.ToLower(strings.TrimSpace(hdrType))
	supported := func(mt string) bool { return isImageType(mt) || isIndexType(mt) }
	if hdrType != "" && !supported(hdrType) {
		no("unsupported Content-Type")
	}
	// body
	var top any
	if err := json.Unmarshal(raw, &top); err != nil {
		no("body is not JSON")
		return v
	}
	if top == nil {
		v.dontCare = true
	}
	obj, isObj := top.(map[string]any)
	if !isObj && top != nil {
		no("top-level JSON value is not an object")
		return v
	}
	str := func(m map[string]any, k string) string {
		s, _ := m[k].(string)
		return s
	}
	bodyMT := ""
	if obj != nil {
		bodyMT = str(obj, "mediaType")
	}
	eff := hdrType
	if hdrType == "" {
		v.detection = true
		switch {
		case bodyMT != "":
			eff = bodyMT
		default:
			if l, ok := obj["manifests"].([]any); ok && len(l) > 0 {
				eff = mtIndex
			} else if c, ok := obj["config"].(map[string]any); ok && str(c, "mediaType") != "" {
				eff = mtImage
			} else {
				eff = ""
			}
		}
		if !supported(eff) {
			no("no supported media type can be detected")
			return v
		}
	} else if bodyMT != "" && bodyMT != hdrType {
		no("body mediaType contradicts Content-Type")
	}
	present := func(x any, what string) {
		m, ok := x.(map[string]any)
		if !ok {
			no(what + " descriptor missing")
			return
		}
		d := str(m, "digest")
		if !c04DigRE.MatchString(d) {
			no(what + " digest malformed or unsupported: " + d)
			return
		}
		if _, ok := blobs[d]; !ok {
			no(what + " not present in this repository: " + short(d))
		}
		// a child that is a manifest of this repository is "the child manifest it references" only under a media type it
		// was acknowledged with (the index descriptor replaces the registry's own record of an untagged child)
		if ts := ackTypes[d]; what == "child" && len(ts) > 0 {
			if !ts[str(m, "mediaType")] {
				no("child " + short(d) + " listed as " + str(m, "mediaType") + ", it was pushed as " + strings.Join(sortedKeys(ts), "/"))
			} else if len(ts) > 1 {
				v.dontCare = true // pushed under several types: which one the registry records is not specified
			}
		}
	}
	if isImageType(eff) {
		present(obj["config"], "config")
		if l, ok := obj["layers"].([]any); ok {
			for _, x := range l {
				present(x, "layer")
			}
		}
	} else if isIndexType(eff) {
		if l, ok := obj["manifests"].([]any); ok {
			for _, x := range l {
				present(x, "child")
			}
		}
	}
	return v
}

type c04Req struct {
	raw  []byte
	ct   string
	ref  string
	qdig string
	desc []string
	kind string
}

// c04Build draws a request: a valid manifest over the repository's blobs, then mutations.
func (e *env) c04Build(t *rapid.T, rn string) c04Req {
	mr := e.repo(rn)
	blobs := mr.plainBlobs()
	q := c04Req{}
	obj := map[string]any{"schemaVersion": 2}
	pick := func(label string, pool []string) (string, int) {
		// a reference from this repository, or (mutation) from elsewhere
		switch rapid.IntRange(0, 15).Draw(t, label+"Src") {
		case 0:
			q.desc = append(q.desc, label+":absent")
			return dig("sha256", []byte("never pushed "+label)), 7
		case 1:
			// present only in another repository
			for _, on := range e.repoPool {
				if on == rn {
					continue
				}
				for _, d := range e.repo(on).plainBlobs() {
					if _, here := mr.blobs[d]; !here {
						q.desc = append(q.desc, label+":foreign-repo")
						return d, len(e.repo(on).blobs[d])
					}
				}
			}
		case 2:
			q.desc = append(q.desc, label+":malformed")
			return rapid.SampledFrom([]string{"sha256:abc", "sha256:" + strings.Repeat("Z", 64), "md5:d41d8cd98f00b204e9800998ecf8427e", "", "sha256-" + strings.Repeat("a", 64), "sha256:" + strings.ToUpper(strings.Repeat("ab", 32))}).Draw(t, label+"Bad"), 3
		}
		if len(pool) == 0 {
			q.desc = append(q.desc, label+":absent")
			return dig("sha256", []byte("never pushed "+label)), 7
		}
		d := rapid.SampledFrom(pool).Draw(t, label)
		if _, ok := mr.blobs[d]; !ok && mr.mans[d] != nil {
			q.desc = append(q.desc, label+":blob-deleted")
			return d, len(mr.mans[d].raw)
		}
		return d, len(mr.blobs[d])
	}
	q.kind = rapid.SampledFrom([]string{"image", "image", "index", "artifact"}).Draw(t, "kind")
	docker := rapid.IntRange(0, 4).Draw(t, "docker") == 0
	mt := mtImage
	if q.kind == "index" {
		mt = mtIndex
		if docker {
			mt = mtDIndex
		}
		kids := []any{}
		all := sortedKeys(mr.blobs)
		// a manifest the index still lists although its blob was deleted through the blob API is a candidate as well
		for _, d := range sortedKeys(mr.mans) {
			if _, ok := mr.blobs[d]; !ok {
				all = append(all, d)
			}
		}
		for i, n := 0, rapid.IntRange(0, 2).Draw(t, "nChildren"); i < n; i++ {
			d, sz := pick("child", all)
			cmt := mtImage
			if m := mr.mans[d]; m != nil {
				cmt = m.mt
				if rapid.IntRange(0, 4).Draw(t, "childOtherType") == 0 {
					cmt = map[string]string{mtImage: mtDImage, mtDImage: mtImage, mtIndex: mtDIndex, mtDIndex: mtIndex}[cmt]
					q.desc = append(q.desc, "childOtherType")
				}
			}
			kids = append(kids, map[string]any{"mediaType": cmt, "digest": d, "size": sz})
		}
		obj["manifests"] = kids
	} else {
		if docker {
			mt = mtDImage
		}
		d, sz := pick("config", blobs)
		obj["config"] = map[string]any{"mediaType": mtConfig, "digest": d, "size": sz}
		layers := []any{}
		for i, n := 0, rapid.IntRange(0, 2).Draw(t, "nLayers"); i < n; i++ {
			d, sz := pick("layer", blobs)
			layers = append(layers, map[string]any{"mediaType": mtLayer, "digest": d, "size": sz})
		}
		obj["layers"] = layers
		if q.kind == "artifact" {
			subj := dig("sha256", []byte("subject never pushed"))
			if ms := sortedKeys(mr.mans); len(ms) > 0 && rapid.Bool().Draw(t, "subjectExists") {
				subj = rapid.SampledFrom(ms).Draw(t, "subject")
			}
			obj["subject"] = map[string]any{"mediaType": mtImage, "digest": subj, "size": 10}
			obj["artifactType"] = "application/vnd.example.c04"
			e.universe[subj] = true
			e.subjects[subj] = true
		}
	}
	obj["mediaType"] = mt
	obj["annotations"] = map[string]any{"salt": fmt.Sprint(rapid.IntRange(0, 5).Draw(t, "salt"))}
	q.ct = mt
	// structural mutations
	for i, n := 0, rapid.SampledFrom([]int{0, 0, 0, 1, 1, 2}).Draw(t, "nMut"); i < n; i++ {
		switch rapid.SampledFrom([]string{"dropConfig", "unknownField", "bodyTypeOther", "bodyTypeUnsupported", "bodyTypeEmpty", "ctOther", "ctDecorated", "ctAbsent", "ctJunk"}).Draw(t, "mutation") {
		case "dropConfig":
			delete(obj, "config")
			q.desc = append(q.desc, "dropConfig")
		case "unknownField":
			obj["x-unknown"] = map[string]any{"a": []any{1, "two", nil}}
			q.desc = append(q.desc, "unknownField")
		case "bodyTypeOther":
			obj["mediaType"] = rapid.SampledFrom(allManifestTypes).Draw(t, "bodyType")
			q.desc = append(q.desc, "bodyType="+obj["mediaType"].(string)[16:])
		case "bodyTypeUnsupported":
			obj["mediaType"] = rapid.SampledFrom([]string{"application/vnd.oci.artifact.manifest.v1+json", "application/vnd.docker.distribution.manifest.v1+json", "application/json"}).Draw(t, "bodyTypeBad")
			q.desc = append(q.desc, "bodyTypeUnsupported")
		case "bodyTypeEmpty":
			delete(obj, "mediaType")
			q.desc = append(q.desc, "bodyTypeEmpty")
		case "ctOther":
			q.ct = rapid.SampledFrom(allManifestTypes).Draw(t, "ct")
			q.desc = append(q.desc, "ct="+q.ct[16:])
		case "ctDecorated":
			q.ct = rapid.SampledFrom([]string{q.ct + "; charset=utf-8", strings.ToUpper(q.ct), "  " + q.ct + " ;q=1"}).Draw(t, "ctDecor")
			q.desc = append(q.desc, "ctDecorated")
		case "ctAbsent":
			q.ct = ""
			q.desc = append(q.desc, "ctAbsent")
		case "ctJunk":
			q.ct = rapid.SampledFrom([]string{"application/json", "application/vnd.docker.distribution.manifest.v1+prettyjws", "text/plain", "junk", "application/vnd.oci.image.manifest.v1+jsonx"}).Draw(t, "ctJunk")
			q.desc = append(q.desc, "ctJunk")
		}
	}
	raw, _ := json.Marshal(obj)
	// byte-level mutations
	switch rapid.IntRange(0, 11).Draw(t, "byteMut") {
	case 0:
		cut := rapid.IntRange(0, len(raw)-1).Draw(t, "truncateAt")
		raw = raw[:cut]
		q.desc = append(q.desc, fmt.Sprintf("truncate@%d", cut))
	case 1:
		raw = []byte(rapid.SampledFrom([]string{"[]", `"str"`, "42", "null", "[{}]", "true"}).Draw(t, "topLevel"))
		q.desc = append(q.desc, "topLevel="+string(raw))
	}
	q.raw = raw
	// reference
	body256 := dig("sha256", raw)
	switch rapid.SampledFrom([]string{"tag", "tag", "tag", "tag", "digest", "digest", "digest", "tag+digest", "tag+digest", "badTag", "wrongDigest", "badDigest", "tag+wrongDigest"}).Draw(t, "refKind") {
	case "tag":
		q.ref = rapid.SampledFrom(c04Tags).Draw(t, "tag")
	case "digest":
		q.ref = dig(rapid.SampledFrom(algPool).Draw(t, "refAlg"), raw)
	case "tag+digest":
		q.ref = rapid.SampledFrom(c04Tags).Draw(t, "tag")
		q.qdig = dig(rapid.SampledFrom(algPool).Draw(t, "qAlg"), raw)
	case "badTag":
		q.ref = rapid.SampledFrom([]string{strings.Repeat("k", 129), ".lead", "-lead", "a:b", "a@b", "a b", "sha256:", "a+b"}).Draw(t, "badTag")
		q.desc = append(q.desc, "badTag")
	case "wrongDigest":
		q.ref = wrongDigest(rapid.SampledFrom([]string{"flip", "other-content"}).Draw(t, "wrongKind"), "sha256", raw)
		q.desc = append(q.desc, "wrongDigest")
	case "badDigest":
		q.ref = rapid.SampledFrom([]string{"sha256:abc", "md5:d41d8cd98f00b204e9800998ecf8427e", "sha3-256:" + body256[7:], "sha256:" + strings.ToUpper(body256[7:]), "sha512:" + body256[7:]}).Draw(t, "badDigest")
		q.desc = append(q.desc, "badDigest")
	case "tag+wrongDigest":
		q.ref = rapid.SampledFrom(c04Tags).Draw(t, "tag")
		q.qdig = rapid.SampledFrom([]string{flipHex(body256), "sha256:abc", "md5:d41d8cd98f00b204e9800998ecf8427e"}).Draw(t, "wrongQ")
		q.desc = append(q.desc, "tag+wrongDigest")
	}
	return q
}

func c04Property(t *rapid.T, st *Stats) {
	dirStore := rapid.Bool().Draw(t, "dirStore")
	e, cleanup := newEnv(t, st, dirStore, nil)
	defer cleanup()
	e.repoPool = c04Repos
	defer func() {
		if e.abandoned {
			return
		}
		nt := e.classes["refused-in-nonempty-repo"] && e.classes["accepted"]
		st.Case(e.trace, nt, e.classList()...)
	}()
	ackTypes := map[string]map[string]map[string]bool{} // repository -> manifest digest -> media types it was acknowledged under
	t.Repeat(e.actions(map[string]func(*rapid.T){
		"pushBlob": func(t *rapid.T) {
			rn := rapid.SampledFrom(c04Repos).Draw(t, "repo")
			b := rapid.SampledFrom(blobPool).Draw(t, "blob")
			d := dig("sha256", b)
			r := e.do("POST", "/v2/"+rn+"/blobs/uploads/?digest="+d, b, nil)
			e.logf("pushBlob %s %s -> %d", rn, short(d), r.code)
			if r.code != 201 {
				e.abandon("blob push refused")
			}
			e.repo(rn).blobs[d] = b
			e.universe[d] = true
		},
		"deleteBlob": func(t *rapid.T) {
			rn := rapid.SampledFrom(c04Repos).Draw(t, "repo")
			blobs := e.repo(rn).plainBlobs()
			// the blob API also removes the blob of a manifest: the index entry (and the tags) stay, the content is gone,
			// and a later index or image that references the digest references something that no longer exists
			ofManifest := false
			if mb := e.repo(rn).manifestBlobs(); len(mb) > 0 && rapid.IntRange(0, 2).Draw(t, "blobOfManifest") == 0 {
				blobs, ofManifest = mb, true
			}
			if len(blobs) == 0 {
				t.Skip("no blobs")
			}
			d := rapid.SampledFrom(blobs).Draw(t, "digest")
			r := e.do("DELETE", "/v2/"+rn+"/blobs/"+d, nil, nil)
			e.logf("deleteBlob %s %s (manifest: %v) -> %d", rn, short(d), ofManifest, r.code)
			if r.code != 202 {
				e.abandon("blob delete refused")
			}
			delete(e.repo(rn).blobs, d)
			e.class("blob-deleted")
			if ofManifest {
				e.class("manifest-blob-deleted")
			}
		},
		"putManifest": func(t *rapid.T) {
			rn := rapid.SampledFrom(c04Repos).Draw(t, "repo")
			mr := e.repo(rn)
			q := e.c04Build(t, rn)
			// the same bytes again: a manifest acknowledged earlier, re-pushed under another reference after some of
			// what it references may have been deleted
			if ms := sortedKeys(mr.mans); len(ms) > 0 && rapid.IntRange(0, 4).Draw(t, "rePut") == 0 {
				d := rapid.SampledFrom(ms).Draw(t, "rePutOf")
				q.raw, q.ct, q.qdig = mr.mans[d].raw, mr.mans[d].mt, ""
				q.ref = rapid.SampledFrom(c04Tags).Draw(t, "rePutTag")
				q.desc = append(q.desc, "rePut")
			}
			// the body may already sit in the repository as an ordinary blob (uploaded through the blob API)
			if json.Valid(q.raw) && rapid.IntRange(0, 5).Draw(t, "bodyAsBlob") == 0 {
				bd := dig("sha256", q.raw)
				if r := e.do("POST", "/v2/"+rn+"/blobs/uploads/?digest="+bd, q.raw, nil); r.code == 201 {
					mr.blobs[bd] = q.raw
					e.universe[bd] = true
					q.desc = append(q.desc, "bodyAsBlob")
				}
			}
			v := c04Predict(q.raw, q.ct, q.ref, q.qdig, mr.blobs, ackTypes[rn])
			e.universe[dig("sha256", q.raw)] = true
			if c04DigRE.MatchString(q.ref) {
				e.universe[q.ref] = true
			}
			if c04DigRE.MatchString(q.qdig) {
				e.universe[q.qdig] = true
			}
			before := e.snapshot(c04Tags)
			p := manifestPlan{repo: rn, raw: q.raw, ct: q.ct, ref: q.ref, qdig: q.qdig}
			r := e.putManifest(p, nil)
			e.logf("putManifest %s kind=%s ref=%s q=%s ct=%q mut=%v len=%d predicted ok=%v (%s) -> %d", rn, q.kind, shortTag(q.ref), short(q.qdig), q.ct, q.desc, len(q.raw), v.ok, v.why, r.code)
			for _, m := range q.desc {
				e.class("mut:" + strings.FieldsFunc(m, func(r rune) bool { return r == '=' || r == '@' })[0])
			}
			if r.panicV != nil {
				e.fail("put-panic", "manifest PUT panicked: %v", r.panicV)
			}
			nonEmpty := len(mr.mans) > 0 || len(mr.tags) > 0
			if r.code == 201 {
				if !v.ok && !v.dontCare {
					e.fail("accepted-invalid", "manifest acknowledged 201 although: %s\nbody: %s", v.why, trunc(q.raw, 400))
				}
				e.class("accepted")
				// adopt into the model (parse what was stored)
				var b mbody
				_ = json.Unmarshal(q.raw, &b)
				mm := &mman{raw: q.raw, mt: r.hdr.Get("Content-Type")}
				hdrType, _, _ := strings.Cut(q.ct, ";")
				mm.mt = strings.ToLower(strings.TrimSpace(hdrType))
				if mm.mt == "" {
					mm.mt = b.MediaType
					if mm.mt == "" {
						if len(b.Manifests) > 0 {
							mm.mt = mtIndex
						} else {
							mm.mt = mtImage
						}
					}
				}
				mm.isIndex = isIndexType(mm.mt)
				if mm.isIndex {
					for _, c := range b.Manifests {
						mm.refs = append(mm.refs, c.Digest)
					}
				} else {
					if b.Config != nil {
						mm.refs = append(mm.refs, b.Config.Digest)
					}
					for _, l := range b.Layers {
						mm.refs = append(mm.refs, l.Digest)
					}
				}
				if b.Subject != nil {
					mm.subject = b.Subject.Digest
				}
				p.mm, p.digest = mm, v.digest
				if h := r.hdr.Get("Docker-Content-Digest"); h != "" {
					p.digest = h
				}
				if v.isTag {
					p.tag = q.ref
				}
				e.acceptManifest(p)
				if ackTypes[rn] == nil {
					ackTypes[rn] = map[string]map[string]bool{}
				}
				if ackTypes[rn][p.digest] == nil {
					ackTypes[rn][p.digest] = map[string]bool{}
				}
				ackTypes[rn][p.digest][mm.mt] = true
				return
			}
			// not acknowledged
			if v.ok && !v.detection && !v.dontCare {
				e.fail("valid-refused", "complete, well-formed manifest refused with %d: %s\nbody: %s", r.code, trunc(r.body, 200), trunc(q.raw, 400))
			}
			if r.code < 400 || r.code >= 500 {
				e.fail("refusal-status", "refused manifest answered %d (want 4xx): %s", r.code, trunc(r.body, 200))
			}
			e.class("refused")
			if nonEmpty {
				e.class("refused-in-nonempty-repo")
			}
			if after := e.snapshot(c04Tags); after != before {
				e.fail("refusal-changed-state", "refused push (%d, %s) changed the observable state:\n--- before\n%s\n--- after\n%s", r.code, v.why, before, after)
			}
		},
		"": func(*rapid.T) {},
	}))
}

func TestC04(t *testing.T) {
	st := newStats("TestC04", "C04", c04Rule)
	rapid.Check(t, func(t *rapid.T) { c04Property(t, st) })
}
