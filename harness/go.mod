module github.com/olareg/olareg/verifharness

go 1.21

require (
	github.com/anishathalye/porcupine v1.3.0
	github.com/olareg/olareg v0.0.0
	github.com/opencontainers/go-digest v1.0.0
	pgregory.net/rapid v1.3.0
)

replace github.com/olareg/olareg => ../src
