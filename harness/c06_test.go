package vh

// C06 — collection removes exactly the garbage, converges, and is not starved (DESIGN.md §3 C06).

import (
	"encoding/json"
	"fmt"
	"os"
	"path/filepath"
	"sort"
	"strings"
	"testing"
	"time"

	"pgregory.net/rapid"
)

const c06Rule = "E2 object graphs and delete histories in two healthy repositories, everything aged beyond the grace period (or grace disabled), plus a mix of 1-6 unhealthy repositories (ghost = only ever read, " +
	"emptied+removed by an earlier pass, corrupt: index.json garbage / deleted / directory deleted behind the store); one store-wide pass, then a second; every mix is run with whatever map order the pass takes; " +
	"oracle = no unreachable blob left, no index entry without blob, second pass changes nothing, untagged/referrers/empty-repository rules where documented unambiguously, all of it for every healthy repository whatever the others are; " +
	"non-trivial = the pass had something to remove in >=1 healthy repository and the mix holds >=1 unhealthy repository; distinct = hash of the op trace"

type c06Index struct {
	Manifests []mdesc `json:"manifests"`
}

// c06State reads the post-pass state of one repository through the hooks.
type c06Repo struct {
	entries []mdesc
	blobs   map[string][]byte
}

func (g *gcState) readRepo(rn string) (*c06Repo, error) {
	b, err := g.srv.VerifIndexJSON(rn)
	if err != nil {
		return nil, err
	}
	var idx c06Index
	if err := json.Unmarshal(b, &idx); err != nil {
		return nil, err
	}
	r := &c06Repo{entries: idx.Manifests, blobs: map[string][]byte{}}
	dl, err := g.srv.VerifBlobList(rn)
	if err != nil {
		return nil, err
	}
	for _, d := range dl {
		br := g.do("GET", "/v2/"+rn+"/blobs/"+d, nil, nil)
		if br.code == 200 {
			r.blobs[d] = br.body
		}
	}
	return r, nil
}

// reach follows the given entries through index and image blobs.
func (r *c06Repo) reach(from []mdesc) map[string]bool {
	out := map[string]bool{}
	queue := append([]mdesc{}, from...)
	for len(queue) > 0 {
		d := queue[0]
		queue = queue[1:]
		key := d.Digest + "|" + d.MediaType
		if out[key] {
			continue
		}
		out[key] = true
		out[d.Digest] = true
		raw, ok := r.blobs[d.Digest]
		if !ok {
			continue
		}
		var b mbody
		if json.Unmarshal(raw, &b) != nil {
			continue
		}
		if isIndexType(d.MediaType) {
			queue = append(queue, b.Manifests...)
		} else if isImageType(d.MediaType) {
			if b.Config != nil {
				out[b.Config.Digest] = true
			}
			for _, l := range b.Layers {
				out[l.Digest] = true
			}
		}
	}
	return out
}

func (r *c06Repo) render() string {
	es := []string{}
	for _, e := range r.entries {
		es = append(es, fmt.Sprintf("%s/%s/%s", short(e.Digest), e.Annotations[annRefNameL], short(e.Annotations[annSubjectL])))
	}
	sort.Strings(es)
	return fmt.Sprintf("entries=%v blobs=%v", es, shortList(sortedKeys(r.blobs)))
}

func c06Property(t *rapid.T, st *Stats) {
	g, cleanup := newGCState(t, st, true)
	defer cleanup()
	g.manBlobDelete = true
	defer func() {
		if g.abandoned {
			return
		}
		st.Case(g.trace, g.classes["pass-removed-something"] && g.classes["unhealthy-in-mix"], g.classList()...)
	}()
	// ---- build phase
	t.Repeat(g.actions(map[string]func(*rapid.T){
		"pushBlob":      g.opPushBlob,
		"pushManifest":  g.opPushManifest,
		"pushManifest2": g.opPushManifest,
		"delete":        g.opDelete,
		"":              func(*rapid.T) {},
	}))
	if g.abandoned {
		return
	}
	g.guard(func() { c06Pass(t, g) })
}

func c06Pass(t *rapid.T, g *gcState) {
	fail := g.fail
	// everything is older than the grace period
	for _, rn := range gcRepos {
		_ = g.srv.VerifAgeBlobs(rn, 3*time.Hour)
	}
	// ---- a first scheduled pass (as the ticker would run it: prev = zero time), then a few more changes, then the
	// pass under test with the real previous tick: a repository is only visited if it was flagged as modified since
	tick0 := time.Now()
	err0 := g.srv.VerifGCPass(tick0, time.Time{})
	if os.Getenv("VERIF_C06_DEBUG") != "" {
		for _, rn := range gcRepos {
			if r, err := g.readRepo(rn); err == nil {
				g.logf("  [debug] after tick0 (err %v) %s: %s", err0, rn, r.render())
			}
		}
	}
	// (a pass that changed a repository flags it again; the following tick finds nothing and leaves it unflagged)
	time.Sleep(2 * time.Millisecond)
	tick1 := time.Now()
	_ = g.srv.VerifGCPass(tick1, tick0)
	// the model follows what a pass removed
	syncModel := func() {
		for _, rn := range gcRepos {
			r, err := g.readRepo(rn)
			if err != nil {
				g.abandon("cannot read repository after a pass")
			}
			mr := g.repo(rn)
			for _, d := range sortedKeys(mr.blobs) {
				if _, ok := r.blobs[d]; !ok {
					delete(mr.blobs, d)
				}
			}
			for _, d := range sortedKeys(mr.mans) {
				if _, ok := r.blobs[d]; !ok {
					g.modelDeleteDigest(rn, d)
				} else if m := g.do("HEAD", "/v2/"+rn+"/manifests/"+d, nil, hdr("Accept", acceptAll)); m.code == 404 {
					g.modelDeleteDigest(rn, d)
				}
			}
		}
	}
	syncModel()
	time.Sleep(3 * time.Millisecond)
	g.noTimeJump = true
	prevTick := tick1
	for i, n := 0, rapid.IntRange(0, 4).Draw(t, "changesAfterFirstPass"); i < n; i++ {
		// one ticker period (15 min, the default) may pass between two changes, with the tick that ends it: what was
		// changed before it is 15 min old when the next change comes - younger than the grace period, older than a tick
		if g.grace > 0 && i > 0 && rapid.IntRange(0, 2).Draw(t, "tickerPeriodPasses") == 0 {
			g.advance(15 * time.Minute)
			if g.abandoned {
				return
			}
			tk := time.Now()
			_ = g.srv.VerifGCPass(tk, tk.Add(-15*time.Minute))
			prevTick = tk
			syncModel()
			g.class("ticker-period-between-changes")
			g.logf("scheduled pass at the end of that period")
		}
		g.class("changes-between-passes")
		g.outsideRepeat = true
		switch rapid.IntRange(0, 3).Draw(t, "changeKind") {
		case 0, 1:
			g.guard(func() { g.opDelete(t) })
		case 2:
			g.guard(func() { g.opPushManifest(t) })
		case 3:
			g.guard(func() { g.opPushBlob(t) })
		}
		if g.abandoned {
			return
		}
	}
	// The schedule as the ticker produces it. The store's clock cannot be moved, so "time passes" is emulated by making
	// everything the store has dated (blobs, upload data, index.json, its note of the last modification) older.
	// With a grace period: ticks that fall between a change and the end of its grace period keep the young garbage -
	// and must leave the repository due for the pass after the grace period; then the grace period plus half a ticker
	// period (15 min, the default) elapses and the pass under test runs with the tick before it as its predecessor.
	if g.grace >= 0 {
		for i, n := 0, rapid.IntRange(0, 2).Draw(t, "ticksInsideGrace"); i < n; i++ {
			time.Sleep(time.Millisecond)
			tk := time.Now()
			_ = g.srv.VerifGCPass(tk, prevTick)
			prevTick = tk
			g.class("tick-inside-grace")
			g.logf("scheduled pass while the changes are younger than the grace period")
		}
		// the ticker goes on: a tick 7 min after the last change, then one every 15 min, each with its predecessor,
		// until the grace period of the last change has elapsed (what was changed a ticker period earlier meets the
		// tick that is due for it on the way); the tick after that is the pass under test
		time.Sleep(time.Millisecond)
		age := func(d time.Duration) {
			for _, rn := range gcRepos {
				_ = g.srv.VerifAgeBlobs(rn, d)
			}
		}
		age(7 * time.Minute)
		for el := 7 * time.Minute; el <= g.grace; el += 15 * time.Minute {
			tk := time.Now()
			_ = g.srv.VerifGCPass(tk, tk.Add(-15*time.Minute))
			age(15 * time.Minute)
		}
		prevTick = time.Now().Add(-15 * time.Minute)
	}
	time.Sleep(time.Millisecond)
	// ---- the mix of unhealthy repositories
	kinds := []string{"ghost", "ghost", "empty"}
	if g.isDir() {
		kinds = append(kinds, "removed", "corrupt-garbage-index", "corrupt-no-index", "corrupt-no-dir")
	}
	nBad := rapid.IntRange(0, 6).Draw(t, "nUnhealthy")
	cfg := []byte("{}")
	cd := dig("sha256", cfg)
	for i := 0; i < nBad; i++ {
		kind := rapid.SampledFrom(kinds).Draw(t, "unhealthyKind")
		// names sort before, between and after the healthy ones; map order decides the visiting order anyway
		rn := fmt.Sprintf("%s%d", rapid.SampledFrom([]string{"a", "m", "r1x", "z"}).Draw(t, "namePrefix"), i)
		g.logf("unhealthy repository %s: %s", rn, kind)
		g.class("unhealthy-in-mix")
		g.class("mix:" + kind)
		switch kind {
		case "ghost":
			_ = g.do("GET", "/v2/"+rn+"/tags/list", nil, nil)
		case "empty":
			r := g.do("POST", "/v2/"+rn+"/blobs/uploads/", nil, nil)
			if r.code == 202 {
				_ = g.do("DELETE", sessionPath(r.hdr.Get("Location")), nil, nil)
			}
		case "removed":
			// content that a first collection removes completely (directory included when EmptyRepo is on)
			r := g.do("POST", "/v2/"+rn+"/blobs/uploads/?digest="+cd, cfg, nil)
			if r.code != 201 {
				g.abandon("setup push refused")
			}
			_ = g.srv.VerifAgeBlobs(rn, 3*time.Hour)
			_ = g.srv.VerifGC(rn)
		default:
			r := g.do("POST", "/v2/"+rn+"/blobs/uploads/?digest="+cd, cfg, nil)
			raw, _ := buildImage(mtImage, mtConfig, cd, 2, nil, nil, nil, "", nil)
			r2 := g.do("PUT", "/v2/"+rn+"/manifests/keep", raw, hdr("Content-Type", mtImage))
			if r.code != 201 || r2.code != 201 {
				g.abandon("setup push refused")
			}
			switch kind {
			case "corrupt-garbage-index":
				_ = os.WriteFile(filepath.Join(g.root, rn, "index.json"), []byte("{garbage"), 0o644)
			case "corrupt-no-index":
				_ = os.Remove(filepath.Join(g.root, rn, "index.json"))
			case "corrupt-no-dir":
				_ = os.RemoveAll(filepath.Join(g.root, rn))
			}
		}
	}
	// ---- before the pass
	type pre struct {
		blobs    map[string]bool
		garbage  int
		sessions int
	}
	before := map[string]*pre{}
	for _, rn := range gcRepos {
		r, err := g.readRepo(rn)
		if err != nil {
			g.abandon("cannot read repository before the pass")
		}
		p := &pre{blobs: map[string]bool{}}
		for d := range r.blobs {
			p.blobs[d] = true
		}
		reach := r.reach(r.entries)
		for d := range r.blobs {
			if !reach[d] {
				p.garbage++
			}
		}
		before[rn] = p
	}
	// ---- the pass
	g.logf("scheduled store-wide pass (previous tick %v ago)", time.Since(prevTick).Round(time.Millisecond))
	_ = g.srv.VerifGCPass(time.Now(), prevTick)
	after := map[string]*c06Repo{}
	for _, rn := range gcRepos {
		r, err := g.readRepo(rn)
		if err != nil {
			fail("healthy-repo-unreadable", "after the pass the healthy repository %s cannot be read: %v", rn, err)
		}
		after[rn] = r
		removed := 0
		for d := range before[rn].blobs {
			if _, ok := r.blobs[d]; !ok {
				removed++
			}
		}
		if removed > 0 {
			g.class("pass-removed-something")
		}
		// 1. no garbage left: every remaining blob is reachable from the post-pass index
		reach := r.reach(r.entries)
		for _, d := range sortedKeys(r.blobs) {
			if !reach[d] {
				fail("garbage-left", "after one pass (grace elapsed) blob %s of %s is not reachable from any index entry; %s", short(d), rn, r.render())
			}
		}
		// 2. no dangling entry
		for _, e := range r.entries {
			if _, ok := r.blobs[e.Digest]; !ok {
				fail("entry-without-blob", "after the pass index entry %s (%s) of %s has no blob", short(e.Digest), e.MediaType, rn)
			}
			if m := g.do("HEAD", "/v2/"+rn+"/manifests/"+e.Digest, nil, hdr("Accept", acceptAll)); m.code != 200 {
				fail("entry-not-served", "after the pass index entry %s of %s answers %d", short(e.Digest), rn, m.code)
			}
		}
		// 4. untagged collection on: nothing untagged and unreachable from a tagged manifest or a kept response
		if g.untagged {
			roots := []mdesc{}
			for _, e := range r.entries {
				if e.Annotations[annRefNameL] != "" || e.Annotations[annSubjectL] != "" {
					roots = append(roots, e)
				}
			}
			rr := r.reach(roots)
			for _, e := range r.entries {
				if e.Annotations[annRefNameL] == "" && e.Annotations[annSubjectL] == "" && !rr[e.Digest] {
					fail("untagged-left", "untagged collection is on, yet after the pass %s of %s is untagged and not reachable from a tagged manifest or referrers response; %s", short(e.Digest), rn, r.render())
				}
			}
		}
		// 5. referrers of removed subjects
		if g.withSubj || (g.dangling && g.untagged) {
			for _, e := range r.entries {
				if s := e.Annotations[annSubjectL]; s != "" && before[rn].blobs[s] {
					var resp mbody
					_ = json.Unmarshal(r.blobs[e.Digest], &resp)
					if len(resp.Manifests) == 0 {
						// an empty response (all referrers deleted earlier) lists nothing; its blob is shared by every
						// subject in that state, so the entry can outlive its subject without keeping anything alive
						g.class("empty-response-exempt")
						continue
					}
					if _, ok := r.blobs[s]; !ok {
						fail("referrers-of-removed-subject-left", "the pass removed subject %s of %s but kept its referrers response %s (ReferrersWithSubj=%v ReferrersDangling=%v Untagged=%v)", short(s), rn, short(e.Digest), g.withSubj, g.dangling, g.untagged)
					}
				}
			}
		}
		// 6. empty repository
		if g.emptyRepo && g.isDir() && len(r.entries) == 0 && len(r.blobs) == 0 {
			if ents, err := os.ReadDir(filepath.Join(g.root, rn)); err == nil {
				onlyNested := true
				for _, e := range ents {
					if !e.IsDir() || e.Name() == "blobs" || e.Name() == "_uploads" {
						onlyNested = false
					}
				}
				if !onlyNested {
					names := []string{}
					for _, e := range ents {
						names = append(names, e.Name())
					}
					fail("empty-repo-left", "EmptyRepo is on and %s holds no manifest, blob or session, yet its directory remains with %v", rn, names)
				}
			}
			g.class("empty-repo-removed")
		}
	}
	// model: manifests the pass removed are gone; children of a removed index are orphans (open finding 12: their
	// by-digest visibility lasts until the next index reload, so it is left out of the convergence comparison)
	for _, rn := range gcRepos {
		mr := g.repo(rn)
		reach := after[rn].reach(after[rn].entries)
		for _, d := range sortedKeys(mr.mans) {
			if _, ok := after[rn].blobs[d]; !ok || !reach[d+"|"+mr.mans[d].mt] {
				g.modelDeleteDigest(rn, d)
			}
		}
	}
	// 3. convergence: a second pass changes nothing
	sweep1 := g.snapshot(gcTags)
	_ = g.srv.VerifGCPass(time.Now(), time.Time{})
	for _, rn := range gcRepos {
		r2, err := g.readRepo(rn)
		if err != nil {
			fail("healthy-repo-unreadable", "after the second pass %s cannot be read: %v", rn, err)
		}
		if r2.render() != after[rn].render() {
			fail("second-pass-changed", "a second pass changed %s:\n first : %s\n second: %s", rn, after[rn].render(), r2.render())
		}
	}
	if sweep2 := g.snapshot(gcTags); sweep2 != sweep1 {
		fail("second-pass-changed", "a second pass changed the API answers:\n%s", diffLines(sweep1, sweep2))
	}
	_ = strings.TrimSpace
}

func TestC06(t *testing.T) {
	st := newStats("TestC06", "C06", c06Rule)
	rapid.Check(t, func(t *rapid.T) { c06Property(t, st) })
}
