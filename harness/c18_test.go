package vh

// C18 — the repository index keeps its invariants under any insert/remove sequence.
// rapid state machine directly on types.Index with an abstract model (DESIGN.md §3 C18).

import (
	"encoding/json"
	"fmt"
	"testing"

	"github.com/opencontainers/go-digest"
	"pgregory.net/rapid"

	"github.com/olareg/olareg/types"
)

var c18Digs = func() []digest.Digest {
	out := []digest.Digest{}
	for i := 0; i < 5; i++ {
		out = append(out, digest.FromString(fmt.Sprintf("d%d", i)))
	}
	return out
}()
var c18Tags = []string{"t1", "t2", "t3", "T1"}
var c18Subj = []string{digest.FromString("s1").String(), digest.FromString("s2").String(), digest.SHA512.FromString("s3").String()}

const c18Rule = "rapid state machine over types.Index (AddDesc tag/subject/plain +- children option, RmDesc digest/digest+tag/tag/subject/digest+subject, AddChildren, Copy+mutate); " +
	"non-trivial = >=4 mutations and some digest was touched through >=2 of {tag, subject, child}; distinct = hash of the op trace"

type c18Model struct {
	tags       map[string]digest.Digest
	subj       map[string]digest.Digest
	childCount map[digest.Digest]int  // exact number of child records when !childFuzzy
	childFuzzy map[digest.Digest]bool // child membership not derivable from the doc comments alone
}

func dn(d digest.Digest) string {
	for i, x := range c18Digs {
		if x == d {
			return fmt.Sprintf("D%d", i)
		}
	}
	if d.Validate() != nil {
		return fmt.Sprintf("%q", string(d)) // e.g. the empty digest of a lookup that failed
	}
	return d.Encoded()[:6]
}

func c18Top(idx *types.Index, d digest.Digest) bool {
	for _, x := range idx.Manifests {
		if x.Digest == d {
			return true
		}
	}
	return false
}

func c18Property(t *rapid.T, st *Stats) {
	var idx types.Index
	m := c18Model{tags: map[string]digest.Digest{}, subj: map[string]digest.Digest{}, childCount: map[digest.Digest]int{}, childFuzzy: map[digest.Digest]bool{}}
	trace := []string{}
	mutations := 0
	touched := map[digest.Digest]map[string]bool{}
	touch := func(d digest.Digest, how string) {
		if touched[d] == nil {
			touched[d] = map[string]bool{}
		}
		touched[d][how] = true
	}
	defer func() {
		nt := false
		if mutations >= 4 {
			for _, h := range touched {
				if len(h) >= 2 {
					nt = true
				}
			}
		}
		st.Case(trace, nt)
	}()
	fail := func(key, f string, a ...any) {
		j, _ := json.Marshal(idx)
		Fail(t, st, key, fmt.Sprintf(f, a...)+"\nINDEX: "+string(j), trace, nil)
	}
	probe := func(i *types.Index) string {
		// nil and empty lists are the same observation (only contents are compared)
		n := *i
		if len(n.Manifests) == 0 {
			n.Manifests = nil
		}
		if len(n.Annotations) == 0 {
			n.Annotations = nil
		}
		j, _ := json.Marshal(n)
		s := string(j)
		for _, d := range c18Digs {
			_, err := i.GetDesc(d.String())
			s += fmt.Sprintf("|%s:%v", dn(d), err == nil)
		}
		for _, tg := range c18Tags {
			g, err := i.GetDesc(tg)
			s += fmt.Sprintf("|%s:%v:%s", tg, err == nil, g.Digest)
		}
		return s
	}
	inv := func() {
		seenTag := map[string]int{}
		seenSubj := map[string]int{}
		bare := map[digest.Digest]int{}
		for _, d := range idx.Manifests {
			tg, sj := d.Annotations[types.AnnotRefName], d.Annotations[types.AnnotReferrerSubject]
			if tg != "" {
				seenTag[tg]++
			}
			if sj != "" {
				seenSubj[sj]++
			}
			if tg == "" && sj == "" {
				bare[d.Digest]++
			}
		}
		for tg, n := range seenTag {
			if n > 1 {
				fail("I1-tag-unique", "tag %s on %d descriptors", tg, n)
			}
		}
		for sj, n := range seenSubj {
			if n > 1 {
				fail("I2-subject-unique", "subject %.16s on %d descriptors", sj, n)
			}
		}
		for d, n := range bare {
			if n > 1 {
				fail("I3-untagged-once", "digest %s listed %d times without a tag or subject", dn(d), n)
			}
		}
		for _, tg := range c18Tags {
			got, err := idx.GetDesc(tg)
			want, ok := m.tags[tg]
			if ok != (err == nil) || (ok && got.Digest != want) {
				fail("I1-tag-lookup", "GetDesc(%s) = %s,%v ; model %s,%v", tg, dn(got.Digest), err, dn(want), ok)
			}
		}
		for _, sj := range c18Subj {
			got, err := idx.GetByAnnotation(types.AnnotReferrerSubject, sj)
			want, ok := m.subj[sj]
			if ok != (err == nil) || (ok && got.Digest != want) {
				fail("I2-subject-lookup", "GetByAnnotation(subject %.16s) = %s,%v ; model %s,%v", sj, dn(got.Digest), err, dn(want), ok)
			}
		}
		for _, d := range c18Digs {
			_, err := idx.GetDesc(d.String())
			found := err == nil
			top := c18Top(&idx, d)
			if top && !found {
				fail("I4-top-not-found", "digest %s is a top-level entry but GetDesc fails: %v", dn(d), err)
			}
			if m.childFuzzy[d] {
				continue
			}
			if !top && m.childCount[d] > 0 && !found {
				fail("I4-child-not-found", "digest %s is recorded as a child (%d) but GetDesc fails: %v", dn(d), m.childCount[d], err)
			}
			if !top && m.childCount[d] == 0 && found {
				fail("I4-found-but-absent", "digest %s is neither top-level nor a recorded child but GetDesc succeeds", dn(d))
			}
		}
		if _, err := idx.GetDesc("sha256:zz"); err == nil {
			fail("I4-malformed", "GetDesc of a malformed digest succeeded")
		}
	}
	drawChildren := func(t *rapid.T, self digest.Digest) []types.Descriptor {
		kids := rapid.SliceOfNDistinct(rapid.SampledFrom(c18Digs), 0, 3, func(x digest.Digest) digest.Digest { return x }).Draw(t, "kids")
		cd := []types.Descriptor{}
		for _, k := range kids {
			if k != self { // an index never lists itself
				cd = append(cd, types.Descriptor{MediaType: types.MediaTypeOCI1Manifest, Digest: k, Size: 1})
			}
		}
		return cd
	}
	hasBare := func(d digest.Digest) bool {
		for _, x := range idx.Manifests {
			if x.Digest == d && len(x.Annotations) == 0 {
				return true
			}
		}
		return false
	}
	add := func(t *rapid.T, ix *types.Index, mm *c18Model, record bool) {
		d := rapid.SampledFrom(c18Digs).Draw(t, "d")
		desc := types.Descriptor{MediaType: types.MediaTypeOCI1Manifest, Digest: d, Size: 1}
		tg, sj := "", ""
		switch rapid.IntRange(0, 3).Draw(t, "kind") {
		case 1, 3:
			tg = rapid.SampledFrom(c18Tags).Draw(t, "tag")
		case 2:
			sj = rapid.SampledFrom(c18Subj).Draw(t, "subj")
		}
		if tg != "" {
			desc.Annotations = map[string]string{types.AnnotRefName: tg}
		}
		if sj != "" {
			desc.Annotations = map[string]string{types.AnnotReferrerSubject: sj}
			desc.MediaType = types.MediaTypeOCI1ManifestList
		}
		// an annotation of another tool (a layout written by containerd or buildkit carries such on its entries); the
		// index "may lose" it, but an entry that has neither tag nor subject is an untagged listing whatever else it carries
		other := ""
		if rapid.IntRange(0, 4).Draw(t, "otherAnnotation") == 0 {
			other = rapid.SampledFrom([]string{"2024", "2025"}).Draw(t, "created")
			if desc.Annotations == nil {
				desc.Annotations = map[string]string{}
			}
			desc.Annotations["org.opencontainers.image.created"] = other
		}
		// the fields of a descriptor that live behind a pointer or a slice (a platform entry of a multi-platform index,
		// embedded data, source URLs): a copy must not share them
		if rapid.IntRange(0, 3).Draw(t, "deepFields") == 0 {
			desc.URLs = []string{"https://example.com/a"}
			desc.Data = []byte("embedded")
			desc.Platform = &types.Platform{Architecture: "amd64", OS: "linux", OSFeatures: []string{"f1"}, Features: []string{"sse4"}}
		}
		opts := []types.IndexOpt{}
		var kids []types.Descriptor
		if rapid.IntRange(0, 2).Draw(t, "withChildren") == 0 {
			kids = drawChildren(t, d)
			opts = append(opts, types.IndexWithChildren(kids))
		}
		if !record {
			ix.AddDesc(desc, opts...)
			return
		}
		ks := ""
		for _, k := range kids {
			ks += dn(k.Digest) + ","
		}
		trace = append(trace, fmt.Sprintf("AddDesc %s tag=%q subj=%.14s created=%q children=[%s]", dn(d), tg, sj, other, ks))
		mutations++
		touch(d, "plain")
		if tg != "" {
			touch(d, "tag")
		}
		if sj != "" {
			touch(d, "subject")
		}
		// --- model (from the doc comment of AddDesc)
		// children option: "moves matching descriptors without annotations to child manifest list"
		for _, k := range kids {
			touch(k.Digest, "child")
			// exact only when the call cannot create or destroy a bare entry of k on its way
			interferes := false
			if tg != "" {
				if cur, ok := mm.tags[tg]; ok && cur == k.Digest {
					interferes = true // untagging k may leave a bare entry that is then moved
				}
			}
			if sj != "" {
				if cur, ok := mm.subj[sj]; ok && cur == k.Digest {
					interferes = true
				}
			}
			if interferes {
				mm.childFuzzy[k.Digest] = true
			} else if hasBare(k.Digest) {
				mm.childCount[k.Digest]++
			}
		}
		if tg != "" {
			mm.tags[tg] = d
		}
		if sj != "" {
			mm.subj[sj] = d
		}
		// "If the descriptor exists as a child, it is removed from the child entries."
		if mm.childCount[d] > 0 {
			mm.childCount[d]--
		}
		// adding a tag to a digest keeps the referrers responses recorded under that digest and the other way round:
		// "lookup by tag returns the last insertion for it" (the sweep after each step compares every tag and subject)
		ix.AddDesc(desc, opts...)
		if !c18Top(ix, d) {
			fail("add-not-listed", "AddDesc(%s) did not leave a top-level entry", dn(d))
		}
	}
	rm := func(t *rapid.T, ix *types.Index, mm *c18Model, record bool) {
		kind := rapid.IntRange(0, 4).Draw(t, "kind")
		d := rapid.SampledFrom(c18Digs).Draw(t, "d")
		desc := types.Descriptor{}
		tg, sj := "", ""
		switch kind {
		case 0:
			desc.Digest = d
		case 1:
			tg = rapid.SampledFrom(c18Tags).Draw(t, "tag")
			desc.Digest = d
			desc.Annotations = map[string]string{types.AnnotRefName: tg}
		case 2:
			tg = rapid.SampledFrom(c18Tags).Draw(t, "tag")
			desc.Annotations = map[string]string{types.AnnotRefName: tg}
		case 3:
			sj = rapid.SampledFrom(c18Subj).Draw(t, "subj")
			desc.Annotations = map[string]string{types.AnnotReferrerSubject: sj}
		case 4:
			sj = rapid.SampledFrom(c18Subj).Draw(t, "subj")
			desc.Digest = d
			desc.Annotations = map[string]string{types.AnnotReferrerSubject: sj}
		}
		if !record {
			ix.RmDesc(desc)
			return
		}
		mutations++
		switch kind {
		case 0, 4: // "Otherwise all references to the digest are removed."
			trace = append(trace, fmt.Sprintf("RmDesc digest=%s subj=%.14s", dn(d), sj))
			for k, td := range mm.tags {
				if td == d {
					delete(mm.tags, k)
				}
			}
			for k, sd := range mm.subj {
				if sd == d {
					delete(mm.subj, k)
				}
			}
			mm.childCount[d] = 0
			delete(mm.childFuzzy, d)
		case 1: // "one reference to the untagged digest is preserved"
			trace = append(trace, fmt.Sprintf("RmDesc digest=%s tag=%s", dn(d), tg))
			if mm.tags[tg] == d {
				delete(mm.tags, tg)
			}
		case 2: // "If the digest is blank ... all matching tags/referrers are deleted."
			trace = append(trace, "RmDesc tag="+tg)
			delete(mm.tags, tg)
		case 3:
			trace = append(trace, fmt.Sprintf("RmDesc subj=%.14s", sj))
			delete(mm.subj, sj)
		}
		wasFound := false
		if kind == 1 {
			_, err := ix.GetDesc(d.String())
			wasFound = err == nil
		}
		ix.RmDesc(desc)
		if kind == 1 && wasFound {
			if _, err := ix.GetDesc(d.String()); err != nil {
				fail("I5-tag-removal-lost-digest", "removing tag %s from %s made the digest unreachable", tg, dn(d))
			}
		}
		if kind == 0 || kind == 4 {
			if c18Top(ix, d) {
				fail("I6-still-listed", "digest %s still listed after RmDesc(digest)", dn(d))
			}
			if _, err := ix.GetDesc(d.String()); err == nil {
				fail("I6-still-found", "digest %s still found after RmDesc(digest)", dn(d))
			}
		}
	}
	addChildren := func(t *rapid.T, ix *types.Index, mm *c18Model, record bool) {
		kids := drawChildren(t, "")
		if record {
			ks := ""
			for _, k := range kids {
				ks += dn(k.Digest) + ","
				mm.childCount[k.Digest]++
				touch(k.Digest, "child")
			}
			trace = append(trace, "AddChildren ["+ks+"]")
			mutations++
		}
		ix.AddChildren(kids)
	}
	t.Repeat(map[string]func(*rapid.T){
		"add":         func(t *rapid.T) { add(t, &idx, &m, true) },
		"rm":          func(t *rapid.T) { rm(t, &idx, &m, true) },
		"addChildren": func(t *rapid.T) { addChildren(t, &idx, &m, true) },
		"copy": func(t *rapid.T) {
			// I7: mutating a copy never shows in the original and vice versa
			mutateCopy := rapid.Bool().Draw(t, "mutateCopy")
			trace = append(trace, fmt.Sprintf("Copy then mutate copy=%v", mutateCopy))
			cp := idx.Copy()
			if probe(&cp) != probe(&idx) {
				fail("I7-copy-differs", "fresh copy differs from the original:\n copy %s\n orig %s", probe(&cp), probe(&idx))
			}
			victim, other := &cp, &idx
			if !mutateCopy {
				victim, other = &idx, &cp
			}
			before := probe(other)
			if mutateCopy {
				n := rapid.IntRange(1, 4).Draw(t, "n")
				for i := 0; i < n; i++ {
					switch rapid.IntRange(0, 3).Draw(t, "cop") {
					case 0:
						add(t, victim, nil, false)
					case 1:
						rm(t, victim, nil, false)
					case 2:
						addChildren(t, victim, nil, false)
					case 3: // poke shared structure
						for i := range victim.Manifests {
							victim.Manifests[i].Size = 999
							if len(victim.Manifests[i].URLs) > 0 {
								victim.Manifests[i].URLs[0] = "poked"
							}
							if len(victim.Manifests[i].Data) > 0 {
								victim.Manifests[i].Data[0] = 'X'
							}
							if p := victim.Manifests[i].Platform; p != nil {
								p.Architecture = "poked"
								if len(p.OSFeatures) > 0 {
									p.OSFeatures[0] = "poked"
								}
								if len(p.Features) > 0 {
									p.Features[0] = "poked"
								}
							}
							if victim.Manifests[i].Annotations != nil {
								victim.Manifests[i].Annotations["poke"] = "x"
								delete(victim.Manifests[i].Annotations, types.AnnotRefName)
							}
						}
						if victim.Annotations != nil {
							victim.Annotations["poke"] = "x"
						}
					}
				}
			} else {
				// mutate the original through the recorded operations, then compare the copy
				switch rapid.IntRange(0, 2).Draw(t, "oop") {
				case 0:
					add(t, &idx, &m, true)
				case 1:
					rm(t, &idx, &m, true)
				case 2:
					addChildren(t, &idx, &m, true)
				}
			}
			if after := probe(other); after != before {
				fail("I7-copy-not-independent", "mutation of one side changed the other:\n before %s\n after  %s", before, after)
			}
			// both sides change after the copy (the store hands out copies and goes on inserting, the receiver may
			// edit its copy): the side mutated first must not see what the other side does afterwards
			if rapid.Bool().Draw(t, "thenOtherSide") {
				mutated := probe(victim)
				for i, n := 0, rapid.IntRange(1, 3).Draw(t, "n2"); i < n; i++ {
					op := rapid.IntRange(0, 2).Draw(t, "oop2")
					mm, rec := &m, true
					if other != &idx {
						mm, rec = nil, false
					}
					switch op {
					case 0:
						add(t, other, mm, rec)
					case 1:
						rm(t, other, mm, rec)
					case 2:
						addChildren(t, other, mm, rec)
					}
				}
				trace = append(trace, "then the other side was mutated")
				if after := probe(victim); after != mutated {
					fail("I7-copy-not-independent", "after both sides were mutated, the side mutated first changed again:\n before %s\n after  %s", mutated, after)
				}
			}
		},
		"": func(*rapid.T) { inv() },
	})
}

func TestC18(t *testing.T) {
	st := newStats("TestC18", "C18", c18Rule)
	rapid.Check(t, func(t *rapid.T) { c18Property(t, st) })
}
