//go:build verifvfs

package vh

// C17 — fallback-tag referrers are converted without loss, repeatably (DESIGN.md §3 C17).

import (
	"encoding/json"
	"fmt"
	"os"
	"path/filepath"
	"runtime"
	"sort"
	"strings"
	"testing"
	"time"

	"pgregory.net/rapid"

	"github.com/olareg/olareg"
	"github.com/olareg/olareg/config"
	"github.com/olareg/olareg/internal/vfs"
)

const c17Rule = "generated legacy layouts (1-4 subjects present/absent sha256/sha512, 0-6 referrer manifests image/index, fallback indexes accurate/stale/foreign-subject/missing-blob/mixed/wrong-fields/empty, " +
	"pre-existing responses, already-converted layouts, unrelated tags/manifests/nested indexes) opened by a writable dir store or mem-over-dir, re-opened, and crash-enumerated over the file-system calls of the first open; " +
	"oracle = expected grouping by the subject each listed manifest actually names, field-exact, everything else still served, convert annotation set, same answers after repeat/crash+repeat, watchdog for termination; " +
	"non-trivial = layout has >=1 fallback index that needs a regenerated response and >=1 that can be adopted; distinct = hash of the layout description"

func c17Conf(store config.Store, root string) config.Config {
	return baseConf(store, root)
}

// c17Observe opens nothing; it reads everything the layout promises from h and renders it canonically.
// Problems against the expectation are returned as text ("" = fine).
func c17Observe(h *olareg.Server, l *legacyLayout) (string, string) {
	var sb strings.Builder
	problem := ""
	bad := func(f string, a ...any) {
		if problem == "" {
			problem = fmt.Sprintf(f, a...)
		}
	}
	rn := l.repo
	for _, sd := range l.subjects {
		r := doReq(h, "GET", "/v2/"+rn+"/referrers/"+sd, nil, nil)
		if r.panicV != nil {
			bad("referrers GET panicked: %v", r.panicV)
			continue
		}
		var idx mbody
		if r.code != 200 || json.Unmarshal(r.body, &idx) != nil {
			bad("referrers of %s: status %d body %q", short(sd), r.code, trunc(r.body, 100))
			continue
		}
		got := map[string]mdesc{}
		for _, x := range idx.Manifests {
			if _, dup := got[x.Digest]; dup {
				bad("referrers of %s lists %s twice", short(sd), short(x.Digest))
			}
			got[x.Digest] = x
		}
		want := l.want[sd]
		for d, w := range want {
			g, ok := got[d]
			if !ok {
				bad("referrers of %s: %s is listed in a fallback index/response, exists and names that subject, but is missing; got %v", short(sd), short(d), shortList(sortedKeys(got)))
				continue
			}
			if g.Size != w.Size || g.MediaType != w.MediaType || g.ArtifactType != w.ArtifactType || !mapEq(g.Annotations, w.Annotations) {
				bad("referrers of %s: descriptor of %s is %+v, recomputed from the manifest: %+v", short(sd), short(d), g, w)
			}
		}
		for d := range got {
			if _, ok := want[d]; !ok {
				bad("referrers of %s lists %s, which is not an existing manifest naming that subject that any fallback index listed", short(sd), short(d))
			}
		}
		fmt.Fprintf(&sb, "ref %s %v\n", short(sd), shortList(sortedKeys(got)))
	}
	for _, tg := range sortedKeys(l.tags) {
		r := doReq(h, "GET", "/v2/"+rn+"/manifests/"+tg, nil, hdr("Accept", acceptAll))
		if r.code != 200 || r.hdr.Get("Docker-Content-Digest") != l.tags[tg] || !sameBytes(r.body, l.blobs[l.tags[tg]]) {
			bad("tag %s: status %d digest %s body %q, layout has %s", tg, r.code, short(r.hdr.Get("Docker-Content-Digest")), trunc(r.body, 200), short(l.tags[tg]))
		}
		fmt.Fprintf(&sb, "tag %s %d\n", tg, r.code)
	}
	for _, d := range sortedKeys(l.manifests) {
		r := doReq(h, "GET", "/v2/"+rn+"/manifests/"+d, nil, hdr("Accept", acceptAll))
		if r.code != 200 || !sameBytes(r.body, l.blobs[d]) {
			bad("manifest %s (%s): status %d body %q", short(d), l.manifests[d], r.code, trunc(r.body, 200))
		}
		fmt.Fprintf(&sb, "man %s %d\n", short(d), r.code)
	}
	for _, d := range sortedKeys(l.blobs) {
		r := doReq(h, "GET", "/v2/"+rn+"/blobs/"+d, nil, nil)
		if r.code != 200 || !sameBytes(r.body, l.blobs[d]) {
			bad("blob %s: status %d", short(d), r.code)
		}
	}
	r := doReq(h, "GET", "/v2/"+rn+"/tags/list", nil, nil)
	var tl struct{ Tags []string }
	_ = json.Unmarshal(r.body, &tl)
	// fallback tags may disappear (converted) but every other tag stays, and nothing new appears
	other := []string{}
	for _, tg := range tl.Tags {
		if _, ok := l.tags[tg]; ok {
			other = append(other, tg)
		} else if !strings.HasPrefix(tg, "sha256-") && !strings.HasPrefix(tg, "sha512-") {
			bad("tags/list shows %s, which the layout never had", tg)
		}
	}
	if fmt.Sprint(other) != fmt.Sprint(sortedKeys(l.tags)) {
		bad("tags/list (status %d) has %v, layout tags %v", r.code, other, sortedKeys(l.tags))
	}
	return sb.String(), problem
}

// withWatchdog runs f on its own goroutine; false = it did not return in time.
// After 3 s without an answer the goroutine dump is consulted: a goroutine of the store blocked on a mutex ends the
// wait at once (a real deadlock does not get better with time); otherwise the full bound d applies.
func withWatchdog(d time.Duration, f func()) bool {
	done := make(chan struct{})
	go func() { defer close(done); f() }()
	select {
	case <-done:
		return true
	case <-time.After(3 * time.Second):
	}
	dump := goroutineDump()
	if strings.Contains(dump, "sync.(*Mutex).Lock") || strings.Contains(dump, "vsync.(*Mutex).Lock") {
		select {
		case <-done:
			return true
		case <-time.After(2 * time.Second):
			return false
		}
	}
	select {
	case <-done:
		return true
	case <-time.After(d):
		return false
	}
}

func goroutineDump() string {
	buf := make([]byte, 1<<20)
	n := runtime.Stack(buf, true)
	s := string(buf[:n])
	// keep only goroutines inside olareg
	out := []string{}
	for _, g := range strings.Split(s, "\n\n") {
		if strings.Contains(g, "internal/vfs.die") {
			continue // parked on purpose: a simulated dead process
		}
		if strings.Contains(g, "olareg/internal/store") || strings.Contains(g, "olareg.(*Server)") {
			out = append(out, g)
		}
	}
	return strings.Join(out, "\n\n")
}

func c17Property(t *rapid.T, st *Stats) {
	tmp := mkTemp("c17")
	defer os.RemoveAll(tmp)
	pristine := filepath.Join(tmp, "pristine")
	l := genLegacyLayout(t, pristine, "r", false)
	storeKind := rapid.SampledFrom([]string{"dir", "dir", "mem+root"}).Draw(t, "store")
	trace := append([]string{"store=" + storeKind, fmt.Sprintf("subjects=%d artifacts=%d converted=%v", len(l.subjects), len(l.arts), l.converted)}, l.desc...)
	for _, sd := range l.subjects {
		trace = append(trace, fmt.Sprintf("want %s: %v", short(sd), shortList(sortedKeys(l.want[sd]))))
	}
	classes := map[string]bool{storeKind: true}
	fail := func(key, f string, a ...any) {
		idx, _ := os.ReadFile(filepath.Join(pristine, "r", "index.json"))
		Fail(t, st, key, fmt.Sprintf(f, a...)+"\nindex.json of the legacy layout: "+string(idx), trace, nil)
	}
	defer func() {
		cl := []string{}
		for c := range classes {
			cl = append(cl, c)
		}
		sort.Strings(cl)
		st.Case(trace, l.adoptable >= 1 && l.regenerate >= 1, cl...)
	}()
	if l.adoptable > 0 {
		classes["adoptable"] = true
	}
	if l.regenerate > 0 {
		classes["needs-regeneration"] = true
	}
	if l.converted {
		classes["already-converted"] = true
	}
	store := config.StoreDir
	if storeKind == "mem+root" {
		store = config.StoreMem
	}
	// --- first open
	root1 := filepath.Join(tmp, "run1")
	copyTree(pristine, root1)
	l1 := *l
	l1.root, l1.dir = root1, filepath.Join(root1, "r")
	vfs.Reset(root1, false)
	srv := olareg.New(c17Conf(store, root1))
	var obs1, prob string
	if !withWatchdog(30*time.Second, func() { obs1, prob = c17Observe(srv, &l1) }) {
		dump := goroutineDump()
		vfs.Kill(root1)
		fail("conversion-hangs", "opening the layout with the %s store did not finish within 30 s; goroutines inside olareg:\n%s", storeKind, trunc([]byte(dump), 3000))
	}
	nMut, nRead := vfs.MutCount(), vfs.ReadCount()
	if prob != "" {
		fail("conversion-result", "%s store, first open: %s", storeKind, prob)
	}
	if storeKind == "dir" {
		b, _ := os.ReadFile(filepath.Join(root1, "r", "index.json"))
		var li layoutIndex
		if json.Unmarshal(b, &li) != nil || li.Annotations["org.olareg.referrer.convert"] != "true" {
			fail("not-marked-converted", "after the first open index.json does not carry org.olareg.referrer.convert=true: %s", trunc(b, 300))
		}
		if _, problems := validateLayoutTree(root1, layoutOpts{strictLayoutFile: true}); len(problems) > 0 {
			fail("converted-layout-invalid", "after conversion the directory is not a valid layout: %s", strings.Join(problems, "; "))
		}
	}
	if !withWatchdog(30*time.Second, func() { _ = srv.Close() }) {
		fail("close-hangs", "Close after conversion did not return")
	}
	// --- repeat: re-open the (possibly converted) directory with both stores
	for _, st2 := range []config.Store{store, config.StoreMem} {
		s2 := olareg.New(c17Conf(st2, root1))
		var obs2, prob2 string
		if !withWatchdog(30*time.Second, func() { obs2, prob2 = c17Observe(s2, &l1) }) {
			vfs.Kill(root1)
			fail("conversion-hangs", "re-opening the converted layout did not finish within 30 s")
		}
		_ = s2.Close()
		if prob2 != "" {
			fail("repeat-result", "re-opening (store type %d) after the first conversion: %s", st2, prob2)
		}
		if obs2 != obs1 {
			fail("repeat-differs", "re-opening gives other answers:\n--- first\n%s--- again\n%s", obs1, obs2)
		}
		classes["repeat"] = true
	}
	// --- crash enumeration over the mutating file-system calls of the first open (dir store only)
	if storeKind != "dir" || nMut == 0 {
		return
	}
	classes["crash-enumerated"] = true
	points := []int{}
	for k := 1; k <= nMut; k++ {
		points = append(points, k)
	}
	limit := envInt("VERIF_C17_CRASH_POINTS", 6)
	if tierName == "thorough" {
		limit = 1000
	}
	exhaustive := true
	if len(points) > limit {
		exhaustive = false
		picked := []int{}
		for len(picked) < limit {
			picked = append(picked, rapid.IntRange(1, nMut).Draw(t, "crashPoint"))
		}
		points = picked
	}
	if exhaustive {
		st.Add("layouts-with-all-crash-points", 1)
	}
	// an I/O error instead of a crash: the k-th mutating call fails, the process lives on with whatever it made of
	// that, is closed, and a new process opens the directory - the interrupted conversion is repeated there
	for _, k := range points {
		rk := filepath.Join(tmp, fmt.Sprintf("fault-%d", k))
		copyTree(pristine, rk)
		lk := *l
		lk.root, lk.dir = rk, filepath.Join(rk, "r")
		vfs.Reset(rk, false)
		vfs.FailAt(k)
		sk := olareg.New(c17Conf(config.StoreDir, rk))
		if !withWatchdog(30*time.Second, func() { _, _ = c17Observe(sk, &lk) }) {
			vfs.Kill(rk)
			fail("conversion-hangs", "first open with an I/O error injected at mutating call %d did not finish", k)
		}
		if !withWatchdog(30*time.Second, func() { _ = sk.Close() }) {
			vfs.Kill(rk)
			fail("close-hangs", "Close after a conversion with an I/O error at mutating call %d did not return", k)
		}
		vfs.Reset(rk, false)
		sa := olareg.New(c17Conf(config.StoreDir, rk))
		var obsA, probA string
		if !withWatchdog(30*time.Second, func() { obsA, probA = c17Observe(sa, &lk) }) {
			vfs.Kill(rk)
			fail("conversion-hangs", "repeating the conversion after an I/O error at call %d did not finish", k)
		}
		_ = sa.Close()
		if probA != "" {
			fail("fault-repeat-result", "I/O error at mutating call %d of %d during the conversion, Close, then re-open: %s", k, nMut, probA)
		}
		if obsA != obs1 {
			fail("fault-repeat-differs", "I/O error at call %d, Close, then re-open gives other answers:\n--- uninterrupted\n%s--- after the error\n%s", k, obs1, obsA)
		}
		st.Add("fault-points-checked", 1)
		_ = os.RemoveAll(rk)
	}
	// the same with a failing READ: the conversion reads every listed manifest to learn its subject; a manifest that
	// could not be read once must not be dropped from the converted listing for good (the marker is set only once)
	readPoints := []int{}
	for k := 1; k <= nRead; k++ {
		readPoints = append(readPoints, k)
	}
	if len(readPoints) > limit {
		picked := []int{}
		for len(picked) < limit {
			picked = append(picked, rapid.IntRange(1, nRead).Draw(t, "readFaultPoint"))
		}
		readPoints = picked
	}
	for _, k := range readPoints {
		rk := filepath.Join(tmp, fmt.Sprintf("rfault-%d", k))
		copyTree(pristine, rk)
		lk := *l
		lk.root, lk.dir = rk, filepath.Join(rk, "r")
		vfs.Reset(rk, false)
		vfs.FailReadAt(k)
		sk := olareg.New(c17Conf(config.StoreDir, rk))
		if !withWatchdog(30*time.Second, func() { _, _ = c17Observe(sk, &lk) }) {
			vfs.Kill(rk)
			fail("conversion-hangs", "first open with reading call %d failing did not finish", k)
		}
		vfs.Reset(rk, false)
		// the same process, storage healthy again: everything must be there now (the first answers are not judged)
		var obsB, probB string
		if !withWatchdog(30*time.Second, func() { obsB, probB = c17Observe(sk, &lk) }) {
			vfs.Kill(rk)
			fail("conversion-hangs", "reading again after reading call %d had failed did not finish", k)
		}
		_ = sk.Close()
		sa := olareg.New(c17Conf(config.StoreDir, rk))
		var obsA, probA string
		if !withWatchdog(30*time.Second, func() { obsA, probA = c17Observe(sa, &lk) }) {
			vfs.Kill(rk)
			fail("conversion-hangs", "re-opening after a conversion with reading call %d failing did not finish", k)
		}
		_ = sa.Close()
		if probA != "" {
			fail("read-fault-repeat-result", "reading call %d of %d failed during the conversion, Close, then re-open: %s", k, nRead, probA)
		}
		if obsA != obs1 {
			fail("read-fault-repeat-differs", "reading call %d failed during the conversion, Close, re-open gives other answers:\n--- uninterrupted\n%s--- after the error\n%s", k, obs1, obsA)
		}
		if probB != "" || obsB != obs1 {
			fail("read-fault-same-process", "reading call %d of %d failed during the conversion; the same server, asked again with the storage healthy: %s\n--- uninterrupted\n%s--- asked again\n%s", k, nRead, probB, obs1, obsB)
		}
		st.Add("read-fault-points-checked", 1)
		_ = os.RemoveAll(rk)
	}
	for _, k := range points {
		for _, mode := range []int{vfs.ModeBefore, vfs.ModeAfter, vfs.ModeTorn} {
			rk := filepath.Join(tmp, fmt.Sprintf("crash-%d-%d", k, mode))
			copyTree(pristine, rk)
			lk := *l
			lk.root, lk.dir = rk, filepath.Join(rk, "r")
			vfs.Reset(rk, false)
			vfs.Arm(k, mode)
			sk := olareg.New(c17Conf(config.StoreDir, rk))
			finished := make(chan struct{})
			go func() { defer close(finished); _, _ = c17Observe(sk, &lk) }()
			crashed := false
			select {
			case <-vfs.Crashed():
				crashed = true
			case <-finished:
			case <-time.After(30 * time.Second):
				vfs.Kill(rk)
				fail("conversion-hangs", "first open with a crash armed at call %d did not finish", k)
			}
			st.Add("crash-runs", 1)
			if !crashed {
				_ = sk.Close()
				_ = os.RemoveAll(rk)
				continue
			}
			// the process is gone: a new one opens what it left behind (copied, the dead root stays dead)
			ra := rk + "-after"
			copyTree(rk, ra)
			la := *l
			la.root, la.dir = ra, filepath.Join(ra, "r")
			vfs.Reset(ra, false)
			sa := olareg.New(c17Conf(config.StoreDir, ra))
			var obsA, probA string
			if !withWatchdog(30*time.Second, func() { obsA, probA = c17Observe(sa, &la) }) {
				vfs.Kill(ra)
				fail("conversion-hangs", "repeating the conversion after a crash at call %d (mode %d) did not finish", k, mode)
			}
			_ = sa.Close()
			if probA != "" {
				fail("crash-repeat-result", "crash at mutating call %d of %d (mode %d) during the conversion, then re-open: %s", k, nMut, mode, probA)
			}
			if obsA != obs1 {
				fail("crash-repeat-differs", "crash at call %d (mode %d) then re-open gives other answers:\n--- uninterrupted\n%s--- after crash\n%s", k, mode, obs1, obsA)
			}
			st.Add("crash-points-checked", 1)
			_ = os.RemoveAll(rk)
			_ = os.RemoveAll(ra)
			vfs.Forget(rk)
		}
	}
}

func TestC17(t *testing.T) {
	st := newStats("TestC17", "C17", c17Rule)
	rapid.Check(t, func(t *rapid.T) { c17Property(t, st) })
}
