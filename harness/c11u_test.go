package vh

// C11, upload sessions: several clients use ONE upload session at the same time (a retry overlapping the request it
// retries, two workers given the same Location). "Concurrent requests ... behave as if executed one at a time": in
// every sequential order a chunk is accepted only at the current end of the session, so the acknowledged chunks
// must tile the upload without gap or overlap, the completed blob must be their concatenation, and a status query
// must report a boundary of that tiling.

import (
	"bytes"
	"fmt"
	"net/url"
	"os"
	"sort"
	"strconv"
	"strings"
	"sync"
	"testing"
	"time"

	"pgregory.net/rapid"

	"github.com/olareg/olareg/config"
)

const c11uRule = "generated concurrent programs on one upload session: 2-4 clients x 1-4 steps (PATCH at the offset last seen by that client or freshly asked for, bodies of 1 B - 96 KiB delivered in reads of 1-32 KiB, status queries), " +
	"both stores; oracle = acknowledged chunks tile [0,total) without gap or overlap, every status answer lies between the bytes acknowledged before it and the bytes of requests started before its answer, completion with the digest of the concatenation succeeds and reads back exactly; " +
	"non-trivial = an acknowledged PATCH overlapped in time with a request of another client on the same session; distinct = hash of the program"

type c11uStep struct {
	Kind  string // patch, patchAsk (status first), status
	Size  int
	Chunk int
}

func (s c11uStep) String() string {
	if s.Kind == "status" {
		return "status"
	}
	return fmt.Sprintf("%s(%dB in reads of %dB)", s.Kind, s.Size, s.Chunk)
}

type c11uChunk struct {
	client, start, n int
	call, ret        time.Duration
	data             []byte
}

func c11uProperty(t *rapid.T, st *Stats) {
	dirStore := rapid.Bool().Draw(t, "dirStore")
	nClients := rapid.IntRange(2, 4).Draw(t, "nClients")
	progs := make([][]c11uStep, nClients)
	for c := range progs {
		for i, n := 0, rapid.IntRange(1, 4).Draw(t, "nSteps"); i < n; i++ {
			s := c11uStep{Kind: rapid.SampledFrom([]string{"patch", "patch", "patchAsk", "status"}).Draw(t, "step")}
			if s.Kind != "status" {
				s.Size = rapid.SampledFrom([]int{1, 7, 500, 5000, 40000, 98304}).Draw(t, "size")
				s.Chunk = rapid.SampledFrom([]int{1024, 4096, 32768}).Draw(t, "readSize")
			}
			progs[c] = append(progs[c], s)
		}
	}
	e, cleanup := newEnv(t, st, dirStore, func(c *config.Config) {})
	defer cleanup()
	trace := []string{fmt.Sprintf("dir=%v", dirStore)}
	for c, p := range progs {
		ss := []string{}
		for _, s := range p {
			ss = append(ss, s.String())
		}
		trace = append(trace, fmt.Sprintf("client %d: %s", c, strings.Join(ss, " ; ")))
	}
	prog := append([]string{}, trace...)
	r := doReq(e.srv, "POST", "/v2/shared/blobs/uploads/", nil, nil)
	if r.code != 202 {
		t.Skip("no session")
	}
	loc0, _ := url.Parse(r.hdr.Get("Location"))
	sessPath := loc0.Path
	// finding 26 (C11/session-patch-not-atomic) is open: the offset check and the write of a PATCH are not one step.
	// While it is listed the harness lets only one PATCH at a time into the server (status queries and refusals of
	// stale offsets stay concurrent with it), so that the search covers what lies behind the finding.
	serialise := avoid("C11/session-patch-not-atomic")
	var patchMu sync.Mutex
	if serialise {
		st.Exclude("C11/session-patch-not-atomic")
	}
	var mu sync.Mutex
	chunks := []c11uChunk{}
	type statusObs struct {
		client, end int
		call, ret   time.Duration
	}
	statuses := []statusObs{}
	problems := []string{}
	lines := []string{}
	t0 := time.Now()
	rangeEnd := func(h string) int { // "0-N" -> N+1 ; "0--1" -> 0
		if !strings.HasPrefix(h, "0-") {
			return -1
		}
		n, err := strconv.Atoi(h[2:])
		if err != nil {
			return -1
		}
		return n + 1
	}
	stateFor := func(off int) string { return stateTok(off) }
	var wg sync.WaitGroup
	gate := make(chan struct{})
	for c := range progs {
		wg.Add(1)
		go func(c int) {
			defer wg.Done()
			<-gate
			known := 0 // the offset this client believes the session is at
			for si, s := range progs[c] {
				if s.Kind == "status" || s.Kind == "patchAsk" {
					call := time.Since(t0)
					g := doReq(e.srv, "GET", sessPath, nil, nil)
					ret := time.Since(t0)
					end := rangeEnd(g.hdr.Get("Range"))
					mu.Lock()
					lines = append(lines, fmt.Sprintf("[%8.3f..%8.3f ms] c%d status -> %d Range=%q", ms(call), ms(ret), c, g.code, g.hdr.Get("Range")))
					if g.code != 204 || end < 0 {
						problems = append(problems, fmt.Sprintf("status query answered %d Range=%q", g.code, g.hdr.Get("Range")))
					} else {
						statuses = append(statuses, statusObs{c, end, call, ret})
					}
					mu.Unlock()
					if end >= 0 {
						known = end
					}
					if s.Kind == "status" {
						continue
					}
				}
				data := bytes.Repeat([]byte{byte('A' + c*4 + si)}, s.Size)
				if serialise {
					patchMu.Lock()
				}
				call := time.Since(t0)
				p := doReq(e.srv, "PATCH", sessPath+"?state="+stateFor(known), data, &reqOpt{hdr: map[string]string{"Content-Range": fmt.Sprintf("%d-%d", known, known+s.Size-1)}, chunkRead: s.Chunk})
				ret := time.Since(t0)
				if serialise {
					patchMu.Unlock()
				}
				mu.Lock()
				lines = append(lines, fmt.Sprintf("[%8.3f..%8.3f ms] c%d PATCH %d-%d -> %d Range=%q", ms(call), ms(ret), c, known, known+s.Size-1, p.code, p.hdr.Get("Range")))
				if p.panicV != nil {
					problems = append(problems, fmt.Sprintf("PATCH panicked: %v", p.panicV))
				}
				if p.code >= 500 {
					problems = append(problems, fmt.Sprintf("PATCH answered %d", p.code))
				}
				if p.code == 202 {
					chunks = append(chunks, c11uChunk{client: c, start: known, n: s.Size, call: call, ret: ret, data: data})
				}
				mu.Unlock()
				if end := rangeEnd(p.hdr.Get("Range")); end >= 0 {
					known = end // both an acknowledgement and a 416 refusal report the current end
				}
			}
		}(c)
	}
	close(gate)
	wg.Wait()
	sort.Strings(lines)
	full := append(append([]string{}, trace...), lines...)
	fail := func(key, f string, a ...any) { Fail(t, st, key, fmt.Sprintf(f, a...), full, nil) }
	// non-trivial: an acknowledged PATCH overlapped in time with a request of another client on the session
	overlap, patchOverlap := false, false
	for _, a := range chunks {
		for _, b := range chunks {
			if a.client != b.client && a.call <= b.ret && b.call <= a.ret {
				overlap, patchOverlap = true, true
			}
		}
		for _, b := range statuses {
			if a.client != b.client && a.call <= b.ret && b.call <= a.ret {
				overlap = true
			}
		}
	}
	classes := []string{"mem"}
	if dirStore {
		classes[0] = "dir"
	}
	if patchOverlap {
		classes = append(classes, "acknowledged-patches-overlapped-in-time")
	}
	if overlap {
		classes = append(classes, "request-overlapped-an-acknowledged-patch")
	}
	defer func() { st.CaseSample(prog, full, overlap, classes...) }()
	if len(problems) > 0 {
		fail("session-request-failed", "%s", strings.Join(problems, "; "))
	}
	// (1) the acknowledged chunks tile the upload
	sort.Slice(chunks, func(i, j int) bool { return chunks[i].start < chunks[j].start })
	total := 0
	want := []byte{}
	for _, c := range chunks {
		if c.start != total {
			fail("session-patch-not-atomic", "acknowledged chunks do not tile the upload: client %d's chunk %d-%d was acknowledged (202) although the chunks acknowledged before it end at %d - in no sequential order are both accepted", c.client, c.start, c.start+c.n-1, total)
		}
		total += c.n
		want = append(want, c.data...)
	}
	// (2) a status answer reports the bytes received: at least every chunk acknowledged before the query was sent, at
	// most every chunk whose request had started before the answer came back (a chunk in flight counts in part)
	for _, s := range statuses {
		lo, hi := 0, 0
		for _, c := range chunks {
			if c.ret <= s.call {
				lo += c.n
			}
			if c.call <= s.ret {
				hi += c.n
			}
		}
		if s.end < lo || s.end > hi {
			fail("status-out-of-bounds", "a status query (%.3f..%.3f ms) reported %d bytes received; chunks acknowledged before it add up to %d, chunks started before its answer to %d", ms(s.call), ms(s.ret), s.end, lo, hi)
		}
	}
	// (3) final status, completion and read-back
	g := doReq(e.srv, "GET", sessPath, nil, nil)
	if end := rangeEnd(g.hdr.Get("Range")); g.code != 204 || end != total {
		fail("final-status", "at quiescence the session reports Range=%q (status %d), acknowledged chunks add up to %d bytes", g.hdr.Get("Range"), g.code, total)
	}
	d := dig("sha256", want)
	p := doReq(e.srv, "PUT", sessPath+"?state="+stateFor(total)+"&digest="+url.QueryEscape(d), nil, nil)
	if p.code != 201 {
		fail("blob-not-concatenation", "completing the session with the digest of the concatenation of the acknowledged chunks (%d bytes) answered %d %s", total, p.code, trunc(p.body, 200))
	}
	b := doReq(e.srv, "GET", "/v2/shared/blobs/"+d, nil, nil)
	if b.code != 200 || !bytes.Equal(b.body, want) {
		fail("blob-not-concatenation", "the completed blob reads back %d (%d bytes), want the %d acknowledged bytes", b.code, len(b.body), len(want))
	}
}

func ms(d time.Duration) float64 { return float64(d.Nanoseconds()) / 1e6 }

func TestC11Upload(t *testing.T) {
	st := newStats("TestC11Upload", "C11", c11uRule)
	rapid.Check(t, func(rt *rapid.T) { c11uProperty(rt, st) })
}

// TestKF_C11_SessionPatchNotAtomic reproduces finding 26: two PATCH requests for the same offset of one session are
// both acknowledged.
func TestKF_C11_SessionPatchNotAtomic(t *testing.T) {
	st := newStats("TestKF_C11_SessionPatchNotAtomic", "C11", "reproducer")
	deadline := time.Now().Add(8 * time.Second)
	root := mkTemp("kf11u")
	defer os.RemoveAll(root)
	srv := newServerForKF(root)
	defer srv.Close()
	for round := 0; time.Now().Before(deadline); round++ {
		r := doReq(srv, "POST", "/v2/shared/blobs/uploads/", nil, nil)
		if r.code != 202 {
			t.Fatalf("setup: POST answered %d", r.code)
		}
		lu, _ := url.Parse(r.hdr.Get("Location"))
		codes := make([]int, 2)
		var wg sync.WaitGroup
		for c := 0; c < 2; c++ {
			wg.Add(1)
			go func(c int) {
				defer wg.Done()
				data := bytes.Repeat([]byte{byte('A' + c)}, 20000)
				p := doReq(srv, "PATCH", lu.Path+"?state="+stateTok(0), data, &reqOpt{hdr: map[string]string{"Content-Range": "0-19999"}, chunkRead: 1024})
				codes[c] = p.code
			}(c)
		}
		wg.Wait()
		g := doReq(srv, "GET", lu.Path, nil, nil)
		_ = doReq(srv, "DELETE", lu.Path, nil, nil)
		if codes[0] == 202 && codes[1] == 202 {
			Fail(kfT{t}, st, "session-patch-not-atomic", fmt.Sprintf("round %d: two PATCH requests with Content-Range 0-19999 on the same session were both acknowledged (202); the session then reports Range=%q", round, g.hdr.Get("Range")),
				[]string{"POST /v2/shared/blobs/uploads/ -> 202", "client A: PATCH 0-19999 (body arrives in 1 KiB reads) -> 202", "client B, concurrently: PATCH 0-19999 -> 202", "GET session -> Range " + g.hdr.Get("Range")}, nil)
		}
	}
}
