//go:build verifbubble

package vh

// Engine E5: one testing/synctest bubble per generated case (go1.26.8). Inside the bubble time.Now, timers,
// tickers and time.Sleep are virtual and synctest.Wait() is a true quiescent point.

import (
	"testing"
	"testing/synctest"

	"pgregory.net/rapid"
)

// bubbleCheck runs prop once per rapid case inside a fresh bubble. rapid's control-flow panics are carried
// out of the bubble and re-raised in the outer goroutine.
func bubbleCheck(t *testing.T, prop func(rt *rapid.T)) {
	rapid.Check(t, func(rt *rapid.T) {
		var out any
		synctest.Test(t, func(*testing.T) {
			defer func() { out = recover() }()
			prop(rt)
		})
		if out != nil {
			panic(out)
		}
	})
}
