//go:build verifvfs

package vh

// C14 with a failing read: "A directory store opened read-only, and a memory store layered over a root directory, never
// create, modify or delete anything under that directory whatever requests they receive, while still serving its
// content." A read that fails once (EMFILE under load, EIO) while such a store meets a repository for the first time
// must not decide for good that there is nothing to serve. One reading call of the first request fails; afterwards the
// storage is healthy again, every pre-existing tag, manifest and blob must be served, and the tree must be unchanged.

import (
	"fmt"
	"os"
	"strings"
	"testing"

	"pgregory.net/rapid"

	"github.com/olareg/olareg"
	"github.com/olareg/olareg/config"
	"github.com/olareg/olareg/internal/vfs"
)

const c14xRule = "TestC14Faults: a directory written by a writable server (1-2 repositories, 1-3 images tagged or not, optional artifact); served by {read-only directory store, memory store over the directory, read-only memory store over the " +
	"directory}; the first request (tag GET, manifest GET by digest, blob GET, tag list, referrers) has its k-th reading file-system call failing with EIO (k uniform over the reads the same request makes on a fresh server); then 0-2 more " +
	"requests; oracle = afterwards every pre-existing tag, manifest and blob answers 200 with its bytes, the tag list is complete, and the tree (names, sizes, hashes, modes, mtimes) is unchanged after Close; " +
	"non-trivial = the failed read was one of the probes of the repository directory or of index.json; distinct = (content, mode, first request, k)"

func c14xProperty(t *rapid.T, st *Stats) {
	tmp := mkTemp("c14x")
	defer os.RemoveAll(tmp)
	root := tmp + "/root"
	trace := []string{}
	fail := func(key, f string, a ...any) { Fail(t, st, key, fmt.Sprintf(f, a...), trace, nil) }
	w := olareg.New(baseConf(config.StoreDir, root))
	type known struct {
		repo string
		tags map[string]string
		mans map[string]bool
		blob map[string][]byte
	}
	kn := []known{}
	cfg := []byte("{}")
	cd := dig("sha256", cfg)
	repos := []string{"r1"}
	if rapid.Bool().Draw(t, "second") {
		repos = append(repos, "r2/n")
	}
	for _, rn := range repos {
		k := known{repo: rn, tags: map[string]string{}, mans: map[string]bool{}, blob: map[string][]byte{}}
		push := func(b []byte) string {
			d := dig("sha256", b)
			if r := doReq(w, "POST", "/v2/"+rn+"/blobs/uploads/?digest="+d, b, nil); r.code != 201 {
				t.Fatalf("setup: blob push %d", r.code)
			}
			k.blob[d] = b
			return d
		}
		push(cfg)
		layer := push([]byte("layer of " + rn))
		first := ""
		for i, n := 0, rapid.IntRange(1, 3).Draw(t, "nImages"); i < n; i++ {
			raw, _ := buildImage(mtImage, mtConfig, cd, 2, []string{layer}, []int{len(k.blob[layer])}, nil, "", map[string]string{"i": fmt.Sprint(i)})
			d := dig("sha256", raw)
			ref := d
			if i == 0 || rapid.Bool().Draw(t, "tagged") {
				ref = fmt.Sprintf("v%d", i)
				k.tags[ref] = d
			}
			if r := doReq(w, "PUT", "/v2/"+rn+"/manifests/"+ref, raw, hdr("Content-Type", mtImage)); r.code != 201 {
				t.Fatalf("setup: manifest push %d", r.code)
			}
			k.mans[d], k.blob[d] = true, raw
			if first == "" {
				first = d
			}
		}
		if rapid.Bool().Draw(t, "withArtifact") {
			raw, _ := buildImage(mtImage, mtEmpty, cd, 2, nil, nil, &mdesc{MediaType: mtImage, Digest: first, Size: int64(len(k.blob[first]))}, "application/vnd.x.sig", nil)
			d := dig("sha256", raw)
			if r := doReq(w, "PUT", "/v2/"+rn+"/manifests/"+d, raw, hdr("Content-Type", mtImage)); r.code != 201 {
				t.Fatalf("setup: artifact push %d", r.code)
			}
			k.mans[d], k.blob[d] = true, raw
		}
		kn = append(kn, k)
	}
	_ = w.Close()
	mode := rapid.SampledFrom([]string{"dir+ro", "mem+root", "mem+root+ro"}).Draw(t, "mode")
	conf := baseConf(config.StoreDir, root)
	switch mode {
	case "dir+ro":
		conf.Storage.ReadOnly = bp(true)
	case "mem+root":
		conf.Storage.StoreType = config.StoreMem
	case "mem+root+ro":
		conf.Storage.StoreType = config.StoreMem
		conf.Storage.ReadOnly = bp(true)
	}
	k0 := kn[rapid.IntRange(0, len(kn)-1).Draw(t, "repo")]
	someTag := sortedKeys(k0.tags)[0]
	someMan := sortedKeys(k0.mans)[0]
	reqs := map[string][2]string{
		"tagGet":      {"GET", "/v2/" + k0.repo + "/manifests/" + someTag},
		"manifestGet": {"GET", "/v2/" + k0.repo + "/manifests/" + someMan},
		"blobGet":     {"GET", "/v2/" + k0.repo + "/blobs/" + cd},
		"blobHead":    {"HEAD", "/v2/" + k0.repo + "/blobs/" + cd},
		"tagList":     {"GET", "/v2/" + k0.repo + "/tags/list"},
		"referrers":   {"GET", "/v2/" + k0.repo + "/referrers/" + someMan},
	}
	kinds := sortedKeys(reqs)
	firstKind := rapid.SampledFrom(kinds).Draw(t, "firstRequest")
	before := treeSnapshotFull(tmp)
	// how many reads does the first request make on a server that has not seen the repository yet?
	vfs.Reset(root, false)
	c := olareg.New(conf)
	_ = doReq(c, reqs[firstKind][0], reqs[firstKind][1], nil, hdr("Accept", acceptAll))
	nReads := vfs.ReadCount()
	_ = c.Close()
	if nReads == 0 {
		st.Case([]string{"no reads"}, false)
		return
	}
	k := rapid.IntRange(1, nReads).Draw(t, "failedRead")
	vfs.Reset(root, true)
	vfs.FailReadAt(k)
	srv := olareg.New(conf)
	r := doReq(srv, reqs[firstKind][0], reqs[firstKind][1], nil, hdr("Accept", acceptAll))
	failed := ""
	for _, op := range vfs.Log() {
		if strings.HasSuffix(op.Kind, "!fault") {
			failed = fmt.Sprintf("%s(%s)", op.Kind, strings.TrimPrefix(op.Path, root))
		}
	}
	vfs.Reset(root, false)
	trace = append(trace, fmt.Sprintf("mode=%s; first request %s %s with read %d of %d failing: %s -> %d", mode, reqs[firstKind][0], reqs[firstKind][1], k, nReads, failed, r.code))
	if r.panicV != nil {
		fail("panic", "the request with the failing read panicked: %v", r.panicV)
	}
	for i, n := 0, rapid.IntRange(0, 2).Draw(t, "more"); i < n; i++ {
		kd := rapid.SampledFrom(kinds).Draw(t, "next")
		x := doReq(srv, reqs[kd][0], reqs[kd][1], nil, hdr("Accept", acceptAll))
		trace = append(trace, fmt.Sprintf("%s %s -> %d", reqs[kd][0], reqs[kd][1], x.code))
	}
	for _, kk := range kn {
		for _, d := range sortedKeys(kk.blob) {
			if g := doReq(srv, "GET", "/v2/"+kk.repo+"/blobs/"+d, nil, nil); g.code != 200 || !sameBytes(g.body, kk.blob[d]) {
				fail("content-not-served-after-read-error", "%s: pre-existing blob %s/%s answers %d after a request whose read failed once (%s)", mode, kk.repo, short(d), g.code, failed)
			}
		}
		for _, tg := range sortedKeys(kk.tags) {
			g := doReq(srv, "GET", "/v2/"+kk.repo+"/manifests/"+tg, nil, hdr("Accept", acceptAll))
			if g.code != 200 || g.hdr.Get("Docker-Content-Digest") != kk.tags[tg] || !sameBytes(g.body, kk.blob[kk.tags[tg]]) {
				fail("content-not-served-after-read-error", "%s: pre-existing tag %s/%s answers %d after a request whose read failed once (%s)", mode, kk.repo, tg, g.code, failed)
			}
		}
		for _, d := range sortedKeys(kk.mans) {
			if g := doReq(srv, "GET", "/v2/"+kk.repo+"/manifests/"+d, nil, hdr("Accept", acceptAll)); g.code != 200 || !sameBytes(g.body, kk.blob[d]) {
				fail("content-not-served-after-read-error", "%s: pre-existing manifest %s/%s answers %d after a request whose read failed once (%s)", mode, kk.repo, short(d), g.code, failed)
			}
		}
		l := doReq(srv, "GET", "/v2/"+kk.repo+"/tags/list", nil, nil)
		for _, tg := range sortedKeys(kk.tags) {
			if !strings.Contains(string(l.body), `"`+tg+`"`) {
				fail("content-not-served-after-read-error", "%s: tags/list of %s (%d) lacks %s after a request whose read failed once (%s): %s", mode, kk.repo, l.code, tg, failed, trunc(l.body, 120))
			}
		}
	}
	_ = srv.Close()
	if after := treeSnapshotFull(tmp); after != before {
		fail("tree-changed-after-read-error", "%s: the directory changed:\n--- before\n%s--- after\n%s", mode, before, after)
	}
	nt := strings.Contains(failed, "index.json") || strings.Contains(failed, "oci-layout") || strings.HasSuffix(failed, "("+"/"+k0.repo+")")
	st.Case(trace, nt, "mode:"+mode, "first:"+firstKind, "failed:"+strings.SplitN(failed, "(", 2)[0])
}

func TestC14Faults(t *testing.T) {
	st := newStats("TestC14Faults", "C14", c14xRule)
	rapid.Check(t, func(rt *rapid.T) { c14xProperty(rt, st) })
}
