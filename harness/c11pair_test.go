package vh

// The pair property behind TestC11Interleave (file-system calls as pause points, directory store) and
// TestC11InterleaveLocks (lock acquisitions as pause points, both stores); see c11i_test.go for the idea.

import (
	"fmt"
	"os"
	"path/filepath"
	"sort"
	"strings"
	"time"

	"pgregory.net/rapid"

	"github.com/olareg/olareg"
	"github.com/olareg/olareg/config"
)

type c11iUniverse struct {
	cfg, layer                                      []byte
	cd, ld                                          string
	base, x, y, child, art1, art2, usesLayer        []byte
	idxOCI, idxDocker                               []byte
	baseD, xD, yD, childD, art1D, art2D, usesLayerD string
	idxOCID, idxDockerD                             string
	manifests                                       map[string]string // digest -> name
}

func newC11iUniverse() *c11iUniverse {
	u := &c11iUniverse{cfg: []byte("{}"), layer: []byte("a layer that one image uses"), manifests: map[string]string{}}
	u.cd, u.ld = dig("sha256", u.cfg), dig("sha256", u.layer)
	mk := func(name string, raw []byte) string {
		d := dig("sha256", raw)
		u.manifests[d] = name
		return d
	}
	u.base, _ = buildImage(mtImage, mtConfig, u.cd, 2, nil, nil, nil, "", map[string]string{"m": "base"})
	u.baseD = mk("base", u.base)
	u.x, _ = buildImage(mtImage, mtConfig, u.cd, 2, nil, nil, nil, "", map[string]string{"m": "x"})
	u.xD = mk("X", u.x)
	u.y, _ = buildImage(mtImage, mtConfig, u.cd, 2, nil, nil, nil, "", map[string]string{"m": "y"})
	u.yD = mk("Y", u.y)
	u.child, _ = buildImage(mtImage, mtConfig, u.cd, 2, nil, nil, nil, "", map[string]string{"m": "child"})
	u.childD = mk("child", u.child)
	subj := &mdesc{MediaType: mtImage, Digest: u.baseD, Size: int64(len(u.base))}
	u.art1, _ = buildImage(mtImage, mtConfig, u.cd, 2, nil, nil, subj, "application/vnd.x.one", nil)
	u.art1D = mk("artifact1", u.art1)
	u.art2, _ = buildImage(mtImage, mtConfig, u.cd, 2, nil, nil, subj, "application/vnd.x.two", nil)
	u.art2D = mk("artifact2", u.art2)
	u.usesLayer, _ = buildImage(mtImage, mtConfig, u.cd, 2, []string{u.ld}, []int{len(u.layer)}, nil, "", map[string]string{"m": "uses the layer"})
	u.usesLayerD = mk("layered", u.usesLayer)
	u.idxOCI, _ = buildIndex(mtIndex, []mdesc{{MediaType: mtImage, Digest: u.childD, Size: int64(len(u.child))}}, nil, "", nil)
	u.idxOCID = mk("index(child as OCI image)", u.idxOCI)
	u.idxDocker, _ = buildIndex(mtIndex, []mdesc{{MediaType: mtDImage, Digest: u.childD, Size: int64(len(u.child))}}, nil, "", map[string]string{"lists": "the child as a docker manifest"})
	u.idxDockerD = mk("index(child as docker manifest)", u.idxDocker)
	return u
}

type c11iReq struct {
	name string
	run  func(srv *olareg.Server) resp
	del  bool
}

func (u *c11iUniverse) requests() []c11iReq {
	put := func(ref, mt string, raw []byte) func(*olareg.Server) resp {
		return func(s *olareg.Server) resp {
			return doReq(s, "PUT", "/v2/r/manifests/"+ref, raw, hdr("Content-Type", mt))
		}
	}
	del := func(p string) func(*olareg.Server) resp {
		return func(s *olareg.Server) resp { return doReq(s, "DELETE", "/v2/r/"+p, nil, nil) }
	}
	return []c11iReq{
		{"PUT X under tag t", put("t", mtImage, u.x), false},
		{"PUT Y under tag t", put("t", mtImage, u.y), false},
		{"PUT X by digest", put(u.xD, mtImage, u.x), false},
		{"PUT X under tag t2", put("t2", mtImage, u.x), false},
		{"PUT index (child as OCI image) under tag multi", put("multi", mtIndex, u.idxOCI), false},
		{"PUT index (child as docker manifest) under tag multi2", put("multi2", mtIndex, u.idxDocker), false},
		{"PUT child by digest", put(u.childD, mtImage, u.child), false},
		{"PUT child under tag c", put("c", mtImage, u.child), false},
		{"DELETE tag t", del("manifests/t"), true},
		{"DELETE X by digest", del("manifests/" + u.xD), true},
		{"DELETE child by digest", del("manifests/" + u.childD), true},
		{"PUT artifact1 (subject base)", put(u.art1D, mtImage, u.art1), false},
		{"PUT artifact2 (subject base)", put(u.art2D, mtImage, u.art2), false},
		{"PUT artifact1 under tag sig", put("sig", mtImage, u.art1), false},
		{"DELETE artifact1 by digest", del("manifests/" + u.art1D), true},
		{"DELETE base by digest", del("manifests/" + u.baseD), true},
		{"DELETE layer blob", del("blobs/" + u.ld), true},
		{"PUT image that uses the layer under tag l", put("l", mtImage, u.usesLayer), false},
		{"upload the layer", func(s *olareg.Server) resp {
			return doReq(s, "POST", "/v2/r/blobs/uploads/?digest="+u.ld, u.layer, nil)
		}, false},
	}
}

// observe reads everything a client can read of repository r.
func (u *c11iUniverse) observe(srv *olareg.Server) []string {
	out := []string{}
	r := doReq(srv, "GET", "/v2/r/tags/list", nil, nil)
	out = append(out, fmt.Sprintf("tags: %d %s", r.code, strings.TrimSpace(string(r.body))))
	ds := []string{}
	for d := range u.manifests {
		ds = append(ds, d)
	}
	sort.Strings(ds)
	for _, d := range ds {
		r := doReq(srv, "GET", "/v2/r/manifests/"+d, nil, hdr("Accept", acceptAll))
		out = append(out, fmt.Sprintf("manifest %s: %d %s", u.manifests[d], r.code, r.hdr.Get("Content-Type")))
	}
	for _, tg := range []string{"base", "t", "t2", "multi", "multi2", "c", "sig", "l"} {
		r := doReq(srv, "HEAD", "/v2/r/manifests/"+tg, nil, hdr("Accept", acceptAll))
		name := u.manifests[r.hdr.Get("Docker-Content-Digest")]
		out = append(out, fmt.Sprintf("tag %s: %d %s %s", tg, r.code, name, r.hdr.Get("Content-Type")))
	}
	r = doReq(srv, "GET", "/v2/r/referrers/"+u.baseD, nil, nil)
	listed := []string{}
	for d, n := range u.manifests {
		if strings.Contains(string(r.body), d) {
			listed = append(listed, n)
		}
	}
	sort.Strings(listed)
	out = append(out, fmt.Sprintf("referrers of base: %d %v", r.code, listed))
	for _, b := range []struct{ n, d string }{{"config", u.cd}, {"layer", u.ld}} {
		out = append(out, fmt.Sprintf("blob %s: %d", b.n, doReq(srv, "HEAD", "/v2/r/blobs/"+b.d, nil, nil).code))
	}
	return out
}

type c11iOutcome struct {
	r1, r2       int
	state, again []string // readable state, and the same after a restart
	inGap        bool
}

func (o c11iOutcome) key(bothDeletes bool) string {
	a, b := o.r1, o.r2
	if bothDeletes {
		// a second 202 for a delete that raced past the same existence check is accepted (DESIGN.md §3 C11)
		if a == 404 {
			a = 202
		}
		if b == 404 {
			b = 202
		}
	}
	return fmt.Sprintf("R1=%d R2=%d\n%s\n-- after a restart\n%s", a, b, strings.Join(o.state, "\n"), strings.Join(o.again, "\n"))
}

// c11iSched is how an execution owns the schedule of R1: count the steps R1 makes alone, pause it before its k-th step.
type c11iSched struct {
	name    string
	stores  []string                            // "dir", "mem"
	begin   func(root string)                   // start counting the steps of the calling goroutine's request
	steps   func() int                          // steps counted since begin (and stop counting)
	pauseAt func(root string, k int, fn func()) // before the k-th step from now on, fn runs once on the stepping goroutine
	end     func()
	unit    string
}

func c11iProperty(t *rapid.T, st *Stats, sc c11iSched) {
	u := newC11iUniverse()
	reqs := u.requests()
	// requests that touch the same tag, manifest, subject or blob (4 in 5 cases), or any two
	groups := [][]int{{0, 1, 2, 3, 8, 9}, {4, 5, 6, 7, 10}, {11, 12, 13, 14, 15}, {16, 17, 18}}
	pool := []int{}
	if g := rapid.IntRange(0, len(groups)).Draw(t, "conflictGroup"); g < len(groups) {
		pool = groups[g]
	} else {
		for i := range reqs {
			pool = append(pool, i)
		}
	}
	R1, R2 := reqs[rapid.SampledFrom(pool).Draw(t, "R1")], reqs[rapid.SampledFrom(pool).Draw(t, "R2")]
	childState := rapid.SampledFrom([]string{"manifest", "blob only", "blob only", "absent"}).Draw(t, "childInitially")
	withX := rapid.Bool().Draw(t, "XunderTagInitially")
	withArt := rapid.Bool().Draw(t, "artifact1Initially")
	withLayer := rapid.Bool().Draw(t, "layerInitially")
	typePair := func(a, b c11iReq) bool {
		return strings.HasPrefix(a.name, "PUT index (child as docker") && strings.HasPrefix(b.name, "PUT child")
	}
	if (typePair(R1, R2) || typePair(R2, R1)) && avoid("C11/index-child-type-check-not-atomic") {
		st.Exclude("C11/index-child-type-check-not-atomic: an index that lists the child under another media type, concurrent with the push of the child")
		R2 = reqs[0]
	}
	store := rapid.SampledFrom(sc.stores).Draw(t, "store")
	initial := fmt.Sprintf("%s store; initially: base tagged; child %s; X under tag t: %v; artifact1: %v; layer: %v", store, childState, withX, withArt, withLayer)
	tmp := mkTemp("c11i")
	defer os.RemoveAll(tmp)
	conf := func(root string) config.Config {
		if store == "mem" {
			return baseConf(config.StoreMem, "")
		}
		return baseConf(config.StoreDir, root)
	}
	// the initial content is pushed to every fresh server in the same way
	setup := func(ws *olareg.Server) {
		must := func(r resp, want int, what string) {
			if r.code != want {
				t.Fatalf("setup: %s answered %d %s", what, r.code, trunc(r.body, 200))
			}
		}
		must(doReq(ws, "POST", "/v2/r/blobs/uploads/?digest="+u.cd, u.cfg, nil), 201, "config")
		must(doReq(ws, "PUT", "/v2/r/manifests/base", u.base, hdr("Content-Type", mtImage)), 201, "base")
		switch childState {
		case "manifest":
			must(doReq(ws, "PUT", "/v2/r/manifests/"+u.childD, u.child, hdr("Content-Type", mtImage)), 201, "child")
		case "blob only":
			must(doReq(ws, "POST", "/v2/r/blobs/uploads/?digest="+u.childD, u.child, nil), 201, "child as a blob")
		}
		if withX {
			must(doReq(ws, "PUT", "/v2/r/manifests/t", u.x, hdr("Content-Type", mtImage)), 201, "X")
		}
		if withArt {
			must(doReq(ws, "PUT", "/v2/r/manifests/"+u.art1D, u.art1, hdr("Content-Type", mtImage)), 201, "artifact1")
		}
		if withLayer {
			must(doReq(ws, "POST", "/v2/r/blobs/uploads/?digest="+u.ld, u.layer, nil), 201, "layer")
		}
	}
	defer sc.end()
	// one execution on a fresh copy; order: 0 = R1;R2, 1 = R2;R1, 2 = R1 paused before its k-th call, R2 in the gap
	exec := func(order, k int) (c11iOutcome, int) {
		root := filepath.Join(tmp, fmt.Sprintf("run%d", order))
		_ = os.MkdirAll(root, 0o755)
		defer os.RemoveAll(root)
		srv := olareg.New(conf(root))
		setup(srv)
		var o c11iOutcome
		steps := 0
		switch order {
		case 0:
			sc.begin(root)
			o.r1 = R1.run(srv).code
			steps = sc.steps()
			o.r2 = R2.run(srv).code
		case 1:
			o.r2 = R2.run(srv).code
			o.r1 = R1.run(srv).code
		case 2:
			done := make(chan int, 1)
			started := false
			// R1 runs on a goroutine of its own (the pause point is installed there: lock acquisitions are counted per
			// goroutine) under a watchdog: two requests that wait for each other are a failure, not a hung test
			r1done := make(chan int, 1)
			inGap := make(chan bool, 1)
			go func() {
				sc.pauseAt(root, k, func() {
					started = true
					go func() { done <- R2.run(srv).code }()
					select {
					case c := <-done:
						inGap <- true
						done <- c
					case <-time.After(100 * time.Millisecond): // R2 waits for something R1 holds: it finishes after R1
					}
				})
				c := R1.run(srv).code
				sc.steps()
				r1done <- c
			}()
			select {
			case o.r1 = <-r1done:
			case <-time.After(30 * time.Second):
				o.r1 = -1
				return o, steps
			}
			select {
			case o.inGap = <-inGap:
			default:
			}
			if !started {
				go func() { done <- R2.run(srv).code }()
			}
			select {
			case o.r2 = <-done:
			case <-time.After(20 * time.Second):
				o.r2 = -1
			}
		}
		sc.end()
		if o.r1 == -1 || o.r2 == -1 {
			return o, steps // a request that never came back: the server is not observed (it may block), the caller reports it
		}
		o.state = u.observe(srv)
		_ = srv.Close()
		if store == "dir" {
			srv = olareg.New(conf(root))
			o.again = u.observe(srv)
			_ = srv.Close()
		}
		return o, steps
	}
	a, steps := exec(0, 0)
	b, _ := exec(1, 0)
	if steps == 0 {
		steps = 1
	}
	trace := []string{initial, "R1: " + R1.name, "R2: " + R2.name}
	fail := func(key, f string, x ...any) { Fail(t, st, key, fmt.Sprintf(f, x...), trace, nil) }
	both := R1.del && R2.del
	differ := a.key(both) != b.key(both)
	// up to three pause points: where R1 holds the repository, R2 can only wait (that execution is checked all the same)
	var c c11iOutcome
	k := 0
	for attempt := 0; attempt < 3; attempt++ {
		k = rapid.IntRange(1, steps).Draw(t, "pauseBeforeCall")
		c, _ = exec(2, k)
		trace = append(trace, fmt.Sprintf("R1 makes %d %s alone; paused before number %d; R2 ran inside the gap: %v", steps, sc.unit, k, c.inGap))
		c11iJudge(fail, R1, R2, a, b, c, both, k, typePair(R1, R2) || typePair(R2, R1))
		if c.inGap {
			break
		}
	}
	st.Case(trace, c.inGap && differ, "R1:"+R1.name, "R2:"+R2.name, fmt.Sprintf("R2 inside the gap:%v", c.inGap), fmt.Sprintf("sequential orders differ:%v", differ))
}

func c11iJudge(fail func(string, string, ...any), R1, R2 c11iReq, a, b, c c11iOutcome, both bool, k int, isTypePair bool) {
	if c.r1 == -1 {
		fail("request-stuck", "R1, paused before step %d while R2 ran, did not finish within 30 s: the two requests wait for each other", k)
	}
	if c.r2 == -1 {
		fail("request-stuck", "R2 did not finish within 20 s after R1 had returned")
	}
	for _, code := range []int{c.r1, c.r2} {
		if code >= 500 {
			fail("server-error", "interleaved execution answered R1=%d R2=%d", c.r1, c.r2)
		}
	}
	if c.key(both) != a.key(both) && c.key(both) != b.key(both) {
		key := "not-serializable"
		if isTypePair {
			key = "index-child-type-check-not-atomic"
		}
		fail(key, "the interleaved execution agrees with neither sequential order.\n=== interleaved (R1 paused before step %d, R2 in the gap: %v)\n%s\n=== R1;R2\n%s\n=== R2;R1\n%s", k, c.inGap, c.key(both), a.key(both), b.key(both))
	}
}
