package vh

// C15 — any request gets a well-formed answer: no panic, no 5xx for client errors (DESIGN.md §3 C15, engine E7).
// The same generator drives rapid (sequences of requests over prepared states) and, through rapid.MakeFuzz,
// Go's native coverage-guided fuzzer.

import (
	"bytes"
	"encoding/base64"
	"encoding/json"
	"fmt"
	"net/url"
	"os"
	"path"
	"path/filepath"
	"regexp"
	"strings"
	"testing"

	"pgregory.net/rapid"

	"github.com/olareg/olareg"
	"github.com/olareg/olareg/config"
)

const c15Rule = "request generator: method x path assembled from segment pools (valid/invalid/odd repository names, endpoints, valid/malformed digests, live/dead/garbage session ids, dot segments, %2f, //) x boundary query values " +
	"(n, last, digest, mount, from, state, page, cache, artifactType, digest-algorithm) x headers (Content-Range, Content-Type, Range, Accept, wrong/unknown Content-Length) x bodies, in sequences of up to 15 over prepared states " +
	"(empty, populated with paged referrers, open sessions, read-only, dir root with a corrupt and a legacy repository); oracle = no panic, no 5xx on healthy storage, OCI error document with registered codes, " +
	"condition-specific codes where unambiguous, independent router for the name grammar; non-trivial = a request that reached a handler (not the final 404 branch) carrying >=1 boundary/malformed parameter; distinct = hash of the request trace"

var c15Codes = map[string]bool{"BLOB_UNKNOWN": true, "BLOB_UPLOAD_INVALID": true, "BLOB_UPLOAD_UNKNOWN": true, "DIGEST_INVALID": true, "MANIFEST_BLOB_UNKNOWN": true,
	"MANIFEST_INVALID": true, "MANIFEST_UNKNOWN": true, "NAME_INVALID": true, "NAME_UNKNOWN": true, "SIZE_INVALID": true, "UNAUTHORIZED": true, "DENIED": true, "UNSUPPORTED": true, "TOOMANYREQUESTS": true}

var c15NameRE = regexp.MustCompile(`^[a-z0-9]+(?:(?:\.|_|__|-+)[a-z0-9]+)*(?:/[a-z0-9]+(?:(?:\.|_|__|-+)[a-z0-9]+)*)*$`)

type c15Route struct {
	endpoint string // ping, manifests, blobs, uploads, upload-session, tags, referrers, "" (none)
	repo     string
	arg      string
}

// c15Router is an independent reading of the URL: path.Clean on the decoded path, endpoint keyword from the end.
func c15Router(target string) c15Route {
	u, err := url.ParseRequestURI(target) // as a server reads a request line: a leading // is part of the path
	if err != nil {
		return c15Route{}
	}
	el := strings.Split(strings.Trim(path.Clean("/"+u.Path), "/"), "/")
	if len(el) == 0 || el[0] != "v2" {
		return c15Route{}
	}
	if len(el) == 1 {
		return c15Route{endpoint: "ping"}
	}
	n := len(el)
	join := func(a []string) string { return strings.Join(a, "/") }
	switch {
	case n >= 4 && el[n-2] == "manifests":
		return c15Route{"manifests", join(el[1 : n-2]), el[n-1]}
	case n >= 4 && el[n-2] == "blobs":
		// POST /v2/<repo>/blobs/uploads is the session creation
		if el[n-1] == "uploads" {
			return c15Route{"uploads", join(el[1 : n-2]), ""}
		}
		return c15Route{"blobs", join(el[1 : n-2]), el[n-1]}
	case n >= 4 && el[n-2] == "referrers":
		return c15Route{"referrers", join(el[1 : n-2]), el[n-1]}
	case n >= 4 && el[n-2] == "tags" && el[n-1] == "list":
		return c15Route{"tags", join(el[1 : n-2]), ""}
	case n >= 5 && el[n-3] == "blobs" && el[n-2] == "uploads":
		return c15Route{"upload-session", join(el[1 : n-3]), el[n-1]}
	}
	return c15Route{}
}

type c15State struct {
	srv         *olareg.Server
	kind        string
	dirStore    bool
	readOnly    bool
	memOverRoot bool
	root        string
	healthy     map[string]bool // repositories whose storage the generator did not corrupt
	corrupt     map[string]bool
	sessions    []string // live session ids of r1
	dead        []string
	digests     []string
	tags        []string
	present     map[string]bool // blobs present in r1
	manifests   map[string]bool
	img         []byte
	idx         []byte
	dirty       map[string]bool // repositories that received a successful write during the case
	uncertain   map[string]bool // session ids whose liveness this oracle no longer knows
	sessState   map[string]string // session id -> state token of the Location the server handed out last
}

// certainlyAbsent: the digest cannot be in the repository (never pushable from the generator's bodies, or the
// repository is untouched and did not hold it initially).
func (s *c15State) certainlyAbsent(repo, d string) bool {
	pushable := false
	for _, x := range s.digests {
		if x == d && d != dig("sha256", []byte("nope")) {
			pushable = true
		}
	}
	if !pushable {
		return !(repo == "r1" && s.present[d])
	}
	return !s.dirty[repo] && !(repo == "r1" && s.present[d])
}

var c15Cfg = []byte("{}")

// c15Prepare builds one of the prepared states.
func c15Prepare(t *rapid.T) (*c15State, func()) {
	s := &c15State{healthy: map[string]bool{}, corrupt: map[string]bool{}, present: map[string]bool{}, manifests: map[string]bool{}, dirty: map[string]bool{}, uncertain: map[string]bool{}, sessState: map[string]string{}}
	s.kind = rapid.SampledFrom([]string{"empty", "populated", "populated", "populated-sessions", "read-only", "dir-corrupt-legacy", "mem-over-root", "manifest-blobs-deleted"}).Draw(t, "state")
	s.dirStore = rapid.Bool().Draw(t, "dirStore") || s.kind == "dir-corrupt-legacy" || s.kind == "read-only" || s.kind == "mem-over-root"
	store := config.StoreMem
	if s.dirStore {
		store = config.StoreDir
		s.root = mkTemp("c15")
	}
	// the case may end inside this function (a refused setup request, or the byte stream of the fuzzer running dry in
	// the middle of a draw): the directory must not stay behind
	ok := false
	defer func() {
		if !ok && s.root != "" {
			_ = os.RemoveAll(s.root)
		}
	}()
	conf := baseConf(store, s.root)
	conf.Storage.GC.RepoUploadMax = 3
	conf.API.Referrer.Limit = 700
	conf.API.Manifest.Limit = 100000
	srv := olareg.New(conf)
	s.srv = srv
	cleanup := func() {
		_ = s.srv.Close()
		if s.root != "" {
			_ = os.RemoveAll(s.root)
		}
	}
	cd := dig("sha256", c15Cfg)
	s.img, _ = buildImage(mtImage, mtConfig, cd, 2, nil, nil, nil, "", nil)
	id := dig("sha256", s.img)
	s.idx, _ = buildIndex(mtIndex, []mdesc{{MediaType: mtImage, Digest: id, Size: int64(len(s.img))}}, nil, "", nil)
	ixd := dig("sha256", s.idx)
	s.digests = []string{cd, id, ixd, dig("sha256", []byte("nope")), dig("sha512", c15Cfg)}
	s.tags = []string{"v1", "idx", "nope"}
	s.healthy["r1"], s.healthy["r2"], s.healthy["r1/sub"] = true, true, true
	if s.kind == "empty" {
		ok = true
		return s, cleanup
	}
	must := func(r resp, want int, what string) {
		if r.code != want {
			t.Fatalf("state setup: %s answered %d", what, r.code)
		}
	}
	must(doReq(srv, "POST", "/v2/r1/blobs/uploads/?digest="+cd, c15Cfg, nil), 201, "blob")
	must(doReq(srv, "PUT", "/v2/r1/manifests/v1", s.img, hdr("Content-Type", mtImage)), 201, "image")
	must(doReq(srv, "PUT", "/v2/r1/manifests/idx", s.idx, hdr("Content-Type", mtIndex)), 201, "index")
	s.present[cd], s.present[id], s.present[ixd] = true, true, true
	s.manifests[id], s.manifests[ixd] = true, true
	for i := 0; i < 4; i++ {
		a, _ := buildImage(mtImage, mtConfig, cd, 2, nil, nil, &mdesc{MediaType: mtImage, Digest: id, Size: int64(len(s.img))}, "application/vnd.x.a", map[string]string{"i": fmt.Sprint(i), "pad": strings.Repeat("x", 100)})
		must(doReq(srv, "PUT", "/v2/r1/manifests/"+dig("sha256", a), a, hdr("Content-Type", mtImage)), 201, "artifact")
		s.present[dig("sha256", a)] = true
		s.manifests[dig("sha256", a)] = true
	}
	// referrers whose descriptor alone exceeds Referrer.Limit: one is the only referrer of the index, one shares the image
	// subject with the small ones under its own artifactType (so the filtered listing has nothing that fits on a page)
	for i, sub := range []mdesc{{MediaType: mtIndex, Digest: ixd, Size: int64(len(s.idx))}, {MediaType: mtImage, Digest: id, Size: int64(len(s.img))}} {
		sub := sub
		a, _ := buildImage(mtImage, mtConfig, cd, 2, nil, nil, &sub, "application/vnd.x.big", map[string]string{"i": fmt.Sprint(i), "pad": strings.Repeat("y", 900)})
		must(doReq(srv, "PUT", "/v2/r1/manifests/"+dig("sha256", a), a, hdr("Content-Type", mtImage)), 201, "oversized artifact")
		s.present[dig("sha256", a)] = true
		s.manifests[dig("sha256", a)] = true
	}
	if s.kind == "populated-sessions" {
		for i := 0; i < 2; i++ {
			r := doReq(srv, "POST", "/v2/r1/blobs/uploads/", nil, nil)
			must(r, 202, "session")
			lu, _ := url.Parse(r.hdr.Get("Location"))
			s.sessions = append(s.sessions, path.Base(lu.Path))
			s.sessState[path.Base(lu.Path)] = lu.Query().Get("state")
		}
		r := doReq(srv, "POST", "/v2/r1/blobs/uploads/", nil, nil)
		lu, _ := url.Parse(r.hdr.Get("Location"))
		_ = doReq(srv, "DELETE", lu.Path, nil, nil)
		s.dead = append(s.dead, path.Base(lu.Path))
		// a session that a mount fell back to (the source does not hold the blob): it is bound to the digest asked for
		if r := doReq(srv, "POST", "/v2/r1/blobs/uploads/?mount="+dig("sha256", []byte("mounted from nowhere"))+"&from=r2", nil, nil); r.code == 202 {
			if lu, err := url.Parse(r.hdr.Get("Location")); err == nil {
				s.sessions = append(s.sessions, path.Base(lu.Path))
				s.sessState[path.Base(lu.Path)] = lu.Query().Get("state")
			}
		}
	}
	switch s.kind {
	case "manifest-blobs-deleted":
		// a client deleted the blobs of the tagged index and of the image through the blob API: the index entries stay
		for _, d := range []string{ixd, id} {
			must(doReq(srv, "DELETE", "/v2/r1/blobs/"+d, nil, nil), 202, "blob delete")
			delete(s.present, d)
			delete(s.manifests, d)
		}
		s.dirty["r1"] = true
	case "mem-over-root":
		// the content was written by a directory store; a memory store is now layered over that directory
		_ = srv.Close()
		conf.Storage.StoreType = config.StoreMem
		s.srv = olareg.New(conf)
		s.dirStore = false
		s.memOverRoot = true
	case "read-only":
		_ = srv.Close()
		conf.Storage.ReadOnly = bp(true)
		s.srv = olareg.New(conf)
		s.readOnly = true
	case "dir-corrupt-legacy":
		// a repository whose index.json does not parse and a legacy fallback-tag layout next to the healthy one
		_ = srv.Close()
		_ = os.MkdirAll(filepath.Join(s.root, "corrupt"), 0o755)
		_ = os.WriteFile(filepath.Join(s.root, "corrupt", "oci-layout"), []byte(`{"imageLayoutVersion":"1.0.0"}`), 0o644)
		_ = os.WriteFile(filepath.Join(s.root, "corrupt", "index.json"), []byte(`{"schemaVersion":2,"manifests":[{"mediaType":`), 0o644)
		s.corrupt["corrupt"] = true
		genLegacyLayout(t, s.root, "legacy", false)
		s.healthy["legacy"] = true
		s.srv = olareg.New(conf)
	}
	ok = true
	return s, cleanup
}

type c15Req struct {
	method, target string
	body           []byte
	opt            *reqOpt
	odd            bool // carries a boundary or malformed parameter
}

func c15Gen(t *rapid.T, s *c15State) c15Req {
	q := c15Req{opt: &reqOpt{hdr: map[string]string{}}}
	q.method = rapid.SampledFrom([]string{"GET", "GET", "HEAD", "PUT", "POST", "PATCH", "DELETE", "OPTIONS", "TRACE", "FOO"}).Draw(t, "method")
	repos := []string{"r1", "r1", "r1", "r2", "r1/sub", "R1", "r1/../r2", "index.json", "blobs", "oci-layout/x", "a//b", ".", "r1/blobs/uploads", "corrupt", "legacy", "r_1", "r1-", "-r1", "r1..x", strings.Repeat("a", 256), strings.Repeat("a", 255) + "/b", "r1%2fsub", "r1%00"}
	if len(s.digests) > 0 {
		// a name that is, on disk, a path inside the layout of r1 (a blob file, the blobs directory)
		repos = append(repos, "r1/blobs/sha256/"+s.digests[0][7:], "r1/blobs/sha256", "r1/blobs")
	}
	repo := rapid.SampledFrom(repos).Draw(t, "repo")
	if !c15NameRE.MatchString(repo) || len(repo) > 100 {
		q.odd = true
	}
	digs := append(append([]string{}, s.digests...), "sha256:abc", "sha256:"+strings.Repeat("A", 64), "md5:d41d8cd98f00b204e9800998ecf8427e", "sha256", "sha256:../../x", "sha256:"+strings.Repeat("0", 64), "sha384:"+strings.Repeat("0", 96), "sha256:%00", "a:b:c")
	tags := append(append([]string{}, s.tags...), ".bad", strings.Repeat("t", 129), "a:b", "sha256-"+strings.Repeat("a", 64), "_", "%20")
	sids := append(append(append(append([]string{}, s.sessions...), s.sessions...), s.dead...), "nosuch", "..", "a/b", "", "%2e%2e", strings.Repeat("s", 300))
	var p, sid string
	switch rapid.IntRange(0, 8).Draw(t, "endpoint") {
	case 0:
		p = "/v2/" + repo + "/manifests/" + rapid.SampledFrom(append(tags, digs...)).Draw(t, "ref")
	case 1:
		p = "/v2/" + repo + "/blobs/" + rapid.SampledFrom(digs).Draw(t, "digest")
	case 2:
		p = "/v2/" + repo + "/blobs/uploads/"
	case 3, 4:
		sid = rapid.SampledFrom(sids).Draw(t, "session")
		p = "/v2/" + repo + "/blobs/uploads/" + sid
	case 5:
		p = "/v2/" + repo + "/tags/list"
	case 6:
		p = "/v2/" + repo + "/referrers/" + rapid.SampledFrom(digs).Draw(t, "subject")
	case 7:
		p = rapid.SampledFrom([]string{"/v2/", "/v2", "/", "/v1/", "/v2/_catalog", "//v2//", "/v2/./r1/tags/list", "/v2/r1/tags/list/", "/v2/r1/tags/list/x", "/v2/r1/../../v2/r1/tags/list", "/V2/", "/v2/r1/blobs/uploads/x/y"}).Draw(t, "misc")
		q.odd = true
	case 8:
		p = "/v2/" + repo + "/" + rapid.SampledFrom([]string{"manifests", "blobs", "tags", "referrers", "tags/list/extra", "manifests/"}).Draw(t, "partial")
		q.odd = true
	}
	nums := []string{"", "0", "1", "-1", "2", "9223372036854775807", "9223372036854775808", "-9223372036854775809", "abc", "1e3", " 1", "00", "+1"}
	states := []string{"", "eyJvZmZzZXQiOjB9", base64.RawURLEncoding.EncodeToString([]byte(`{"offset":-1}`)), base64.RawURLEncoding.EncodeToString([]byte(`{"offset":1e99}`)), base64.RawURLEncoding.EncodeToString([]byte(`[`)), "!!",
		base64.RawURLEncoding.EncodeToString([]byte(`{"offset":"x"}`)), base64.RawURLEncoding.EncodeToString([]byte(`{"offset":9223372036854775807}`)), base64.RawURLEncoding.EncodeToString([]byte(`null`))}
	qs := url.Values{}
	for _, name := range []string{"n", "last", "digest", "mount", "from", "state", "page", "cache", "artifactType", "digest-algorithm"} {
		if rapid.IntRange(0, 3).Draw(t, "use:"+name) != 0 {
			continue
		}
		var v string
		switch name {
		case "n", "page":
			v = rapid.SampledFrom(nums).Draw(t, "num")
			if v != "1" && v != "2" {
				q.odd = true
			}
		case "digest", "mount", "cache":
			v = rapid.SampledFrom(digs).Draw(t, "qDigest")
		case "from":
			v = rapid.SampledFrom(repos).Draw(t, "qFrom")
		case "state":
			v = rapid.SampledFrom(states).Draw(t, "qState")
			q.odd = true
		case "digest-algorithm":
			v = rapid.SampledFrom([]string{"sha256", "sha512", "sha384", "md5", "", "SHA256", "sha256:x"}).Draw(t, "qAlg")
		default:
			v = rapid.SampledFrom([]string{"", "application/vnd.x.a", "application/vnd.x.big", "v1", "zzz", strings.Repeat("y", 300)}).Draw(t, "qVal")
		}
		qs.Add(name, v)
		if rapid.IntRange(0, 9).Draw(t, "dup:"+name) == 0 {
			qs.Add(name, "second")
		}
	}
	if tok, ok := s.sessState[sid]; ok && rapid.Bool().Draw(t, "currentStateToken") {
		qs.Set("state", tok) // the token of the Location the server handed out last: only the rest of the request can be wrong
	}
	q.target = p
	if len(qs) > 0 {
		q.target += "?" + qs.Encode()
	}
	big := bytes.Repeat([]byte("z"), 70000)
	over := append(append([]byte{}, s.img...), bytes.Repeat([]byte(" "), 110000)...)
	q.body = rapid.SampledFrom([][]byte{nil, nil, {}, []byte("{}"), s.img, s.idx, []byte(`{"schemaVersion":2,"config":{"digest":"x"}}`), []byte("[1"), []byte("null"), big, over,
		[]byte(`{"schemaVersion":2,"mediaType":"application/vnd.oci.image.manifest.v1+json","config":{"mediaType":"x","digest":"sha256:` + strings.Repeat("0", 64) + `","size":1},"layers":[{"digest":"nope"}]}`)}).Draw(t, "body")
	if rapid.Bool().Draw(t, "withContentType") {
		q.opt.hdr["Content-Type"] = rapid.SampledFrom([]string{mtImage, mtIndex, mtDImage, "application/json", "", "text/plain; charset=utf-8", "application/octet-stream"}).Draw(t, "contentType")
	}
	if rapid.IntRange(0, 2).Draw(t, "withContentRange") == 0 {
		q.opt.hdr["Content-Range"] = rapid.SampledFrom([]string{"0-1", "5-9", "-1", "a-b", "0", "", "9223372036854775808-1", "0--1", "0-0"}).Draw(t, "contentRange")
		q.odd = true
	}
	if rapid.IntRange(0, 2).Draw(t, "withRange") == 0 {
		q.opt.hdr["Range"] = rapid.SampledFrom([]string{"bytes=0-1", "bytes=5-", "bytes=-1", "bytes=9-1", "x", "bytes=0-0,2-3", "bytes=99999-", "bytes=-0", "bytes=0-18446744073709551616"}).Draw(t, "range")
		q.odd = true
	}
	if rapid.Bool().Draw(t, "withAccept") {
		q.opt.hdr["Accept"] = rapid.SampledFrom([]string{mtImage, mtIndex, mtImage + ", " + mtIndex, "*/*", "", acceptAll}).Draw(t, "accept")
	}
	if rapid.IntRange(0, 4).Draw(t, "unknownLength") == 0 {
		q.opt.unknownCL = true
	}
	if len(q.body) > 0 && rapid.IntRange(0, 7).Draw(t, "truncatedTransfer") == 0 {
		q.opt.truncate = true // the client stops sending half way: its mistake, not the server's
		q.odd = true
	}
	if tok, ok := s.sessState[sid]; ok && rapid.IntRange(0, 2).Draw(t, "completionWithCurrentToken") == 0 {
		q.method = "PUT"
		// a completing PUT that is right in everything but, possibly, the digest
		qs.Set("state", tok)
		qs.Set("digest", rapid.SampledFrom(append(append([]string{}, s.digests...), "sha256:"+strings.Repeat("0", 64), "sha512:"+strings.Repeat("0", 128), dig("sha256", q.body), dig("sha512", q.body), dig("sha256", q.body), dig("sha256", q.body), dig("sha256", q.body))).Draw(t, "completionDigest"))
		delete(q.opt.hdr, "Content-Range")
		q.target = p + "?" + qs.Encode()
	}
	if rapid.IntRange(0, 9).Draw(t, "forwarded") == 0 {
		q.opt.hdr["X-Forwarded-For"] = rapid.SampledFrom([]string{"10.0.0.1", "", ", ", "::1, 10.0.0.2"}).Draw(t, "xff")
	}
	return q
}

// c15Query reads the query of a request target.
func c15Query(target string) url.Values {
	u, err := url.ParseRequestURI(target)
	if err != nil {
		return url.Values{}
	}
	return u.Query()
}

type c15ErrDoc struct {
	Errors []struct {
		Code    string          `json:"code"`
		Message string          `json:"message"`
		Detail  json.RawMessage `json:"detail"`
	} `json:"errors"`
}

func c15Property(t *rapid.T, st *Stats) {
	s, cleanup := c15Prepare(t)
	defer cleanup()
	trace := []string{"state=" + s.kind + fmt.Sprintf(" dir=%v", s.dirStore)}
	nontrivial := false
	classes := map[string]bool{"state:" + s.kind: true}
	fail := func(key, f string, a ...any) { Fail(t, st, key, fmt.Sprintf(f, a...), trace, nil) }
	defer func() {
		cl := []string{}
		for c := range classes {
			cl = append(cl, c)
		}
		st.Case(trace, nontrivial, cl...)
	}()
	n := rapid.IntRange(1, 15).Draw(t, "nRequests")
	var prev c15Req
	for i := 0; i < n; i++ {
		var q c15Req
		if i > 0 && rapid.IntRange(0, 4).Draw(t, "repeatPrevious") == 0 {
			q = prev // the same request again: answered from whatever the first one cached or left behind
			classes["repeated-request"] = true
		} else {
			q = c15Gen(t, s)
		}
		prev = q
		r := doReq(s.srv, q.method, q.target, q.body, q.opt)
		line := fmt.Sprintf("%s %s hdr=%v bodyLen=%d unknownLen=%v truncated=%v -> %d", q.method, trunc([]byte(q.target), 300), q.opt.hdr, len(q.body), q.opt.unknownCL, q.opt.truncate, r.code)
		trace = append(trace, line)
		if r.code == -1 && r.stack == "" {
			continue // not a request that can be sent at all (unparsable target)
		}
		// (1) no panic
		if r.panicV != nil {
			fail("panic", "handler panicked: %v\n%s", r.panicV, trunc([]byte(r.stack), 1500))
		}
		rt := c15Router(q.target)
		classes["endpoint:"+rt.endpoint] = true
		corruptTarget := s.corrupt[rt.repo]
		if m := q.opt.hdr["X-Forwarded-For"]; m != "" {
			_ = m
		}
		for _, f := range strings.Split(q.target, "from=") {
			_ = f
		}
		// a mount may read another repository: its health counts too
		if u, err := url.Parse(q.target); err == nil && s.corrupt[u.Query().Get("from")] {
			corruptTarget = true
		}
		// (2) no 5xx while storage is healthy
		if r.code >= 500 && !corruptTarget {
			long := false
			for _, c := range strings.Split(rt.repo, "/") {
				if len(c) > 255 {
					long = true
				}
			}
			key := "5xx"
			if long && (s.dirStore || s.memOverRoot) {
				key = "5xx-name-too-long" // finding 28
			}
			fail(key, "status %d for %s %s (state %s, repository %q healthy)", r.code, q.method, trunc([]byte(q.target), 300), s.kind, rt.repo)
		}
		// (3) error documents
		stdlibRange := r.code == 416 && strings.HasPrefix(r.hdr.Get("Content-Type"), "text/plain") && (q.method == "GET" || q.method == "HEAD")
		if stdlibRange && len(bytes.TrimSpace(r.body)) > 0 {
			// listed finding: the 416 of http.ServeContent carries a text/plain body
			if avoid("C15/range-error-body-not-oci") {
				st.Exclude("C15/range-error-body-not-oci: 416 with the text/plain body of http.ServeContent")
			} else {
				fail("range-error-body-not-oci", "status 416 for %s %s with Range %q carries the body %q (Content-Type %s), not an OCI error document", q.method, trunc([]byte(q.target), 200), q.opt.hdr["Range"], trunc(r.body, 100), r.hdr.Get("Content-Type"))
			}
		}
		var doc c15ErrDoc
		if r.code >= 400 && len(bytes.TrimSpace(r.body)) > 0 && !stdlibRange {
			if err := json.Unmarshal(r.body, &doc); err != nil || len(doc.Errors) == 0 {
				fail("error-body-not-oci", "status %d with a body that is not an OCI error document: %q", r.code, trunc(r.body, 200))
			}
			for _, x := range doc.Errors {
				if !c15Codes[x.Code] {
					fail("unregistered-error-code", "status %d error code %q (message %q) is not a registered OCI code", r.code, x.Code, x.Message)
				}
			}
		}
		hasCode := func(c string) bool {
			for _, x := range doc.Errors {
				if x.Code == c {
					return true
				}
			}
			return false
		}
		// (4) routing: only repository names of the grammar are routed
		validRepo := c15NameRE.MatchString(rt.repo)
		if rt.endpoint == "" || (rt.endpoint != "ping" && !validRepo) {
			if r.code != 404 && r.code != 405 && r.code != 400 {
				fail("routed-outside-grammar", "%s %s is not a registry endpoint with a grammatical repository name (router: %+v) but answered %d", q.method, trunc([]byte(q.target), 200), rt, r.code)
			}
			if rt.endpoint != "" && !validRepo && r.code != 404 {
				fail("routed-outside-grammar", "repository part %q is outside the OCI name grammar but the request was answered %d, not 404", trunc([]byte(rt.repo), 80), r.code)
			}
			continue
		}
		if rt.endpoint != "ping" && q.odd {
			nontrivial = true
		}
		reserved := false
		for _, c := range strings.Split(rt.repo, "/") {
			if c == "index.json" || c == "oci-layout" || c == "blobs" {
				reserved = true
			}
		}
		onDisk := s.dirStore || s.memOverRoot // a memory store over a directory refuses the same names as the directory store
		if onDisk && len(rt.repo) > 255 {
			reserved = true // names the directory store cannot hold are refused like reserved ones
		}
		get := q.method == "GET" || q.method == "HEAD"
		digOK := c04DigRE.MatchString(rt.arg)
		// condition-specific codes, only where the condition is unambiguous
		switch {
		case rt.endpoint == "ping" && get:
			if r.code != 200 {
				fail("ping-status", "GET /v2/ answered %d", r.code)
			}
		case reserved && onDisk && rt.endpoint == "tags" && get:
			if r.code != 400 || !hasCode("NAME_INVALID") {
				fail("code-name-invalid", "reserved repository name %q: status %d body %q, want 400 NAME_INVALID", rt.repo, r.code, trunc(r.body, 120))
			}
			classes["cond:reserved-name"] = true
		case corruptTarget && (rt.endpoint == "tags" || rt.endpoint == "manifests") && get && r.code == 404 && q.method == "GET":
			// (inside the store's one-second re-check window the default empty index answers: MANIFEST_UNKNOWN)
			if !hasCode("NAME_UNKNOWN") && !hasCode("MANIFEST_UNKNOWN") {
				fail("code-name-unknown", "repository-level failure (corrupt index.json): body %q, want code NAME_UNKNOWN", trunc(r.body, 160))
			}
			classes["cond:corrupt-repo"] = true
		case rt.endpoint == "referrers" && q.method == "GET" && !reserved && !corruptTarget && r.code == 400:
			// the only refusal of a referrers listing: a page of a cached listing was asked for by an unparsable digest
			if !hasCode("DIGEST_INVALID") {
				fail("code-digest-invalid", "referrers request refused with 400 and body %q, want code DIGEST_INVALID (cache parameter is not a digest)", trunc(r.body, 160))
			}
			classes["cond:cache-digest-invalid"] = true
		case rt.endpoint == "blobs" && get && !reserved && !corruptTarget:
			switch {
			case !digOK && !strings.Contains(rt.arg, ":"):
				// not even digest shaped; 400 or 404 both describe it
			case !digOK:
				if r.code != 400 || (q.method == "GET" && !hasCode("DIGEST_INVALID")) {
					fail("code-digest-invalid", "blob GET with unparsable digest %q: status %d body %q, want 400 DIGEST_INVALID", trunc([]byte(rt.arg), 80), r.code, trunc(r.body, 120))
				}
				classes["cond:digest-invalid"] = true
			case rt.repo != "legacy" && s.certainlyAbsent(rt.repo, rt.arg):
				if r.code != 404 || (q.method == "GET" && !hasCode("BLOB_UNKNOWN") && !(rt.repo != "r1" && hasCode("NAME_UNKNOWN"))) {
					fail("code-blob-unknown", "GET of unknown blob %s/%s: status %d body %q, want 404 BLOB_UNKNOWN", rt.repo, short(rt.arg), r.code, trunc(r.body, 120))
				}
				classes["cond:blob-unknown"] = true
			}
		case rt.endpoint == "manifests" && get && !reserved && !corruptTarget && rt.repo != "legacy":
			isTag := c04TagRE.MatchString(rt.arg)
			absent := (digOK && s.certainlyAbsent(rt.repo, rt.arg)) || (isTag && !s.dirty[rt.repo] && !(rt.repo == "r1" && (rt.arg == "v1" || rt.arg == "idx") && s.kind != "empty"))
			if absent {
				// for a repository that does not exist NAME_UNKNOWN describes the condition just as well
				if r.code != 404 || (q.method == "GET" && !hasCode("MANIFEST_UNKNOWN") && !(rt.repo != "r1" && hasCode("NAME_UNKNOWN"))) {
					fail("code-manifest-unknown", "GET of unknown manifest %s/%s: status %d body %q, want 404 MANIFEST_UNKNOWN", rt.repo, trunc([]byte(rt.arg), 40), r.code, trunc(r.body, 120))
				}
				classes["cond:manifest-unknown"] = true
			}
		case rt.endpoint == "upload-session" && !reserved && !corruptTarget && !s.readOnly && (q.method == "PATCH" || q.method == "PUT" || q.method == "GET" || q.method == "DELETE"):
			live := false
			for _, id := range s.sessions {
				if id == rt.arg && rt.repo == "r1" {
					live = true
				}
			}
			if s.uncertain[rt.arg] {
				break // an earlier refused PUT may or may not have ended this session
			}
			if !live {
				if r.code < 400 || r.code >= 500 || !hasCode("BLOB_UPLOAD_UNKNOWN") {
					fail("code-upload-unknown", "%s on unknown session %s/%q: status %d body %q, want 4xx BLOB_UPLOAD_UNKNOWN", q.method, rt.repo, trunc([]byte(rt.arg), 40), r.code, trunc(r.body, 120))
				}
				classes["cond:upload-unknown"] = true
			} else if q.method == "PATCH" || q.method == "PUT" {
				cr, has := q.opt.hdr["Content-Range"]
				if has && cr != "" && !strings.HasPrefix(cr, "0-") {
					if r.code != 416 || !hasCode("SIZE_INVALID") {
						fail("code-size-invalid", "%s on a fresh session with Content-Range %q: status %d body %q, want 416 SIZE_INVALID", q.method, cr, r.code, trunc(r.body, 120))
					}
					classes["cond:range-invalid"] = true
				}
				// with the current state token, a range the session accepts (else 416) and a well-formed digest, the one
				// thing left that a complete PUT can be refused for with 400 is that the content does not hash to the digest
				qv := c15Query(q.target)
				if q.method == "PUT" && r.code == 400 && !q.opt.truncate && len(qv["state"]) == 1 && qv["state"][0] == s.sessState[rt.arg] && len(qv["digest"]) == 1 && c04DigRE.MatchString(qv["digest"][0]) {
					if !hasCode("DIGEST_INVALID") {
						fail("code-digest-mismatch", "PUT completing session %s with its current state token and digest %s, which the content does not hash to: status %d body %q, want 400 DIGEST_INVALID (\"provided digest did not match uploaded content\")", trunc([]byte(rt.arg), 40), short(qv["digest"][0]), r.code, trunc(r.body, 160))
					}
					classes["cond:digest-mismatch-session"] = true
				}
				if r.code == 202 {
					if lu, err := url.Parse(r.hdr.Get("Location")); err == nil {
						s.sessState[rt.arg] = lu.Query().Get("state")
					}
				}
				// the session may be consumed by this request
				if r.code >= 400 && q.method == "PUT" {
					s.uncertain[rt.arg] = true // refused before or after the data was taken: unknown to this oracle (C08 decides)
				}
				if r.code == 201 {
					s.dead = append(s.dead, rt.arg)
					for j, id := range s.sessions {
						if id == rt.arg {
							s.sessions = append(s.sessions[:j], s.sessions[j+1:]...)
							break
						}
					}
				}
			} else if q.method == "DELETE" && r.code == 202 {
				s.dead = append(s.dead, rt.arg)
				for j, id := range s.sessions {
					if id == rt.arg {
						s.sessions = append(s.sessions[:j], s.sessions[j+1:]...)
						break
					}
				}
			}
		case rt.endpoint == "uploads" && q.method == "POST" && r.code == 400 && !reserved && !corruptTarget && !s.readOnly && c15NameRE.MatchString(rt.repo) && !q.opt.truncate:
			// a monolithic upload (or a digest announced for a session): every 400 left is about the digest - it is
			// malformed, of an unsupported algorithm, or the content does not hash to it
			qv := c15Query(q.target)
			if len(qv["digest"]) == 1 && len(qv["mount"]) == 0 {
				if !hasCode("DIGEST_INVALID") {
					fail("code-digest-mismatch", "POST upload with digest %q and a %d byte body: status %d body %q, want 400 DIGEST_INVALID", trunc([]byte(qv["digest"][0]), 80), len(q.body), r.code, trunc(r.body, 160))
				}
				if c04DigRE.MatchString(qv["digest"][0]) {
					classes["cond:digest-mismatch"] = true
				}
			}
		case s.readOnly && !get && (q.method == "PUT" || q.method == "POST" || q.method == "DELETE" || q.method == "PATCH") && r.code == 403:
			if !hasCode("DENIED") {
				fail("code-denied", "read-only refusal without code DENIED: %q", trunc(r.body, 120))
			}
			classes["cond:read-only"] = true
		}
		if s.readOnly && r.code >= 200 && r.code < 300 && !get && q.method != "OPTIONS" && q.method != "TRACE" && q.method != "FOO" {
			fail("read-only-write-accepted", "%s %s answered %d on a read-only store", q.method, trunc([]byte(q.target), 200), r.code)
		}
		// uploads POST may create sessions and blobs; keep the bookkeeping in step
		if rt.endpoint == "uploads" && q.method == "POST" && r.code == 202 && rt.repo == "r1" {
			if lu, err := url.Parse(r.hdr.Get("Location")); err == nil {
				s.sessions = append(s.sessions, path.Base(lu.Path))
				s.sessState[path.Base(lu.Path)] = lu.Query().Get("state")
				// RepoUploadMax is 3: one session more and the repository cancels its least recently used ones - which
				// of the older sessions are still there is not this oracle's business (C08, C20)
				if len(s.sessions) > 3 {
					for _, id := range s.sessions[:len(s.sessions)-1] {
						s.uncertain[id] = true
					}
					classes["sessions-beyond-upload-max"] = true
				}
			}
		}
		if (r.code == 201 || r.code == 202) && (q.method == "PUT" || q.method == "POST" || q.method == "DELETE" || q.method == "PATCH") {
			// something may have been written: "unknown" is no longer certain for pushable digests and tags of that repository
			s.dirty[rt.repo] = true
			if u, err := url.Parse(q.target); err == nil && u.Query().Get("from") != "" {
				s.dirty[u.Query().Get("from")] = true
			}
		}
	}
}

func TestC15(t *testing.T) {
	st := newStats("TestC15", "C15", c15Rule)
	rapid.Check(t, func(t *rapid.T) { c15Property(t, st) })
}

// FuzzC15 drives the same generator with Go's coverage-guided fuzzer (thorough tier only).
func FuzzC15(f *testing.F) {
	st := newStats("FuzzC15", "C15", c15Rule)
	f.Fuzz(rapid.MakeFuzz(func(t *rapid.T) { c15Property(t, st) }))
}
