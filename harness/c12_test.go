//go:build verifvsync

package vh

// C12 — no schedule of requests and background work can hang the registry (DESIGN.md §3 C12).
// Runs on the vsync-instrumented tree: sync.Mutex/WaitGroup of olareg record a wait-for graph and allow delays to
// be injected right after lock acquisitions. A materialised deadlock (cycle in the wait-for graph that persists) or a
// stall (requests outstanding, no instrumented event for a long time) is a violation; a lock-order cycle alone is not.

import (
	"bytes"
	"context"
	"fmt"
	"hash/fnv"
	"io"
	"net"
	"net/http"
	"net/http/httptest"
	"runtime"
	"sort"
	"strings"
	"sync"
	"sync/atomic"
	"testing"
	"time"

	"pgregory.net/rapid"

	"github.com/olareg/olareg"
	"github.com/olareg/olareg/config"
	"github.com/olareg/olareg/internal/vsync"
)

const c12Rule = "generated concurrent programs on the vsync-instrumented build: chunked uploads with many PATCHes while other clients open and abandon sessions beyond RepoUploadMax 1-4, grace period 5-50 ms (session expiry and repository " +
	"cache pruning during traffic), GC ticker 1-5 ms, pipe-fed slow manifest bodies that keep a repository held while collections wait, requests whose context is cancelled while they wait, delays of 0-300 us injected after a drawn " +
	"subset of lock acquisitions; then Close. Second scenario: Server.Run on loopback, keep-alive clients still sending, Shutdown with and without rate limit. Oracle = wait-for-cycle / stall monitor, cancellation bound 2 s, " +
	"Close/Shutdown bound 20 s; non-trivial = >=2 clients ran upload operations concurrently while eviction or expiry was possible (sessions opened > RepoUploadMax or grace <= 50 ms), or a Shutdown with requests in flight; distinct = hash of the program + settings"

var c12Kinds = []string{"uploadChunked", "uploadChunked", "uploadChunked", "sessionAbandon", "sessionAbandon", "upload", "putArt", "putTag", "delDigest", "getRefs", "collect", "slowPut", "cancelGet", "newRepoPush", "listTags", "mount", "mount"}

type c12Monitor struct {
	mu       sync.Mutex
	deadlock string
	stop     chan struct{}
	done     chan struct{}
	ticks    int
}

func startMonitor() *c12Monitor {
	m := &c12Monitor{stop: make(chan struct{}), done: make(chan struct{})}
	go func() {
		defer close(m.done)
		prev := ""
		for {
			select {
			case <-m.stop:
				return
			case <-time.After(50 * time.Millisecond):
			}
			cur := vsync.FindCycle()
			m.mu.Lock()
			m.ticks++
			if cur != "" && prev != "" && m.deadlock == "" {
				m.deadlock = cur
			}
			m.mu.Unlock()
			prev = cur
		}
	}()
	return m
}

func (m *c12Monitor) state() (string, int) {
	m.mu.Lock()
	defer m.mu.Unlock()
	return m.deadlock, m.ticks
}

func (m *c12Monitor) halt() { close(m.stop); <-m.done }

func olaregStacks() string {
	buf := make([]byte, 4<<20)
	n := runtime.Stack(buf, true)
	out := []string{}
	for _, g := range strings.Split(string(buf[:n]), "\n\n") {
		if (strings.Contains(g, "olareg/internal/") || strings.Contains(g, "olareg.(*Server)")) && !strings.Contains(g, "c12Monitor") {
			if len(g) > 1800 {
				g = g[:1800] + "\n\t..."
			}
			out = append(out, g)
		}
	}
	if len(out) > 12 {
		out = out[:12]
	}
	return strings.Join(out, "\n\n")
}

// c12Exec adds the operations that need a harness-owned body or context to engine E6's executor.
func c12Exec(srv *olareg.Server, u *cUniverse, o cOp, cancelLate *int64) (int, string, string) {
	switch o.Kind {
	case "slowPut":
		// the handler keeps the repository held (wait group) while it reads the body: feed it slowly
		body := u.body(o.Man % nCMans)
		pr, pw := io.Pipe()
		go func() {
			half := len(body) / 2
			_, _ = pw.Write(body[:half])
			time.Sleep(time.Duration(2+o.N) * time.Millisecond)
			_, _ = pw.Write(body[half:])
			_ = pw.Close()
		}()
		req := httptest.NewRequest("PUT", "/v2/"+u.repo+"/manifests/slow", pr)
		req.Header.Set("Content-Type", mtImage)
		req.ContentLength = -1
		w := httptest.NewRecorder()
		srv.ServeHTTP(w, req)
		return w.Code, "", ""
	case "cancelGet":
		// a request that may have to wait for a collection gives up after a moment
		ctx, cancel := context.WithCancel(context.Background())
		req := httptest.NewRequest("GET", "/v2/"+u.repo+"/tags/list", nil).WithContext(ctx)
		w := httptest.NewRecorder()
		done := make(chan struct{})
		go func() { srv.ServeHTTP(w, req); close(done) }()
		time.Sleep(time.Duration(200+o.N*300) * time.Microsecond)
		cancel()
		t0 := time.Now()
		select {
		case <-done:
		case <-time.After(2 * time.Second):
			*cancelLate++
			<-done
		}
		_ = t0
		return w.Code, "", ""
	}
	return u.execOp(srv, o)
}

func c12Property(t *rapid.T, st *Stats) {
	dirStore := rapid.IntRange(0, 3).Draw(t, "dirStore") > 0
	upMax := rapid.IntRange(1, 4).Draw(t, "repoUploadMax")
	grace := time.Duration(rapid.SampledFrom([]int{5, 10, 20, 50}).Draw(t, "graceMs")) * time.Millisecond
	freq := time.Duration(rapid.IntRange(1, 5).Draw(t, "gcFrequencyMs")) * time.Millisecond
	pct := rapid.SampledFrom([]int{0, 5, 10, 30}).Draw(t, "delayPercent")
	dmax := time.Duration(rapid.SampledFrom([]int{50, 100, 200, 300}).Draw(t, "delayMaxUs")) * time.Microsecond
	salt := rapid.IntRange(0, 1<<20).Draw(t, "delaySalt")
	prog := genCProgram(t, c12Kinds, 6, 6)
	settings := fmt.Sprintf("dir=%v repoUploadMax=%d grace=%v gcFrequency=%v delay=%d%% of lock sites up to %v (salt %d)", dirStore, upMax, grace, freq, pct, dmax, salt)
	trace := append([]string{settings}, prog.lines()...)
	fail := func(key, f string, a ...any) { Fail(t, st, key, fmt.Sprintf(f, a...), trace, nil) }
	// delay injection: a site is slowed down iff its hash falls into the drawn percentage
	vsync.DelayAfterLock.Store(func(site string) {
		if pct == 0 {
			return
		}
		h := fnv.New32a()
		_, _ = h.Write([]byte(fmt.Sprintf("%s|%d", site, salt)))
		v := h.Sum32()
		if int(v%100) < pct {
			time.Sleep(time.Duration(v>>8) % dmax)
		}
	})
	defer vsync.DelayAfterLock.Store(func(string) {})
	e, _ := newEnv(t, st, dirStore, func(c *config.Config) {
		c.Storage.GC.Frequency = freq
		c.Storage.GC.GracePeriod = grace
		c.Storage.GC.RepoUploadMax = upMax
	})
	defer func() {
		if e.root != "" {
			go func(r string) { time.Sleep(time.Second); removeAll(r) }(e.root)
		}
	}()
	u, err := newCUniverse(e.srv, "shared")
	if err != nil {
		t.Skip("setup failed")
	}
	mon := startMonitor()
	defer mon.halt()
	// ---- run the program
	var cancelLate int64
	var mu sync.Mutex
	uploadsConcurrent, sessionsOpened := 0, 0
	inUpload := 0
	var wg sync.WaitGroup
	gate := make(chan struct{})
	for _, ops := range prog.Clients {
		wg.Add(1)
		go func(ops []cOp) {
			defer wg.Done()
			<-gate
			for _, o := range ops {
				isUp := o.Kind == "uploadChunked" || o.Kind == "sessionAbandon" || o.Kind == "upload"
				if isUp {
					mu.Lock()
					inUpload++
					sessionsOpened++
					if inUpload >= 2 {
						uploadsConcurrent++
					}
					mu.Unlock()
				}
				_, _, _ = c12Exec(e.srv, u, o, &cancelLate)
				if isUp {
					mu.Lock()
					inUpload--
					mu.Unlock()
				}
			}
		}(ops)
	}
	start := time.Now()
	close(gate)
	finished := make(chan struct{})
	go func() { wg.Wait(); close(finished) }()
	lastEvents, lastChange := vsync.Events.Load(), time.Now()
	running := true
	for running {
		select {
		case <-finished:
			running = false
		case <-time.After(100 * time.Millisecond):
			if dl, _ := mon.state(); dl != "" {
				fail("deadlock", "wait-for cycle among olareg mutexes (persisted over two monitor snapshots): %s\nblocked: %s\n\ngoroutines inside olareg:\n%s", dl, strings.Join(vsync.Waiting(), " | "), olaregStacks())
			}
			if ev := vsync.Events.Load(); ev != lastEvents {
				lastEvents, lastChange = ev, time.Now()
			}
			_, ticks := mon.state()
			if time.Since(start) > 20*time.Second && time.Since(lastChange) > 10*time.Second && ticks > 100 {
				fail("stall", "requests outstanding for %v, no lock or wait-group activity for %v while the monitor kept running\nblocked on mutexes: %s\n\ngoroutines inside olareg:\n%s",
					time.Since(start).Round(time.Second), time.Since(lastChange).Round(time.Second), strings.Join(vsync.Waiting(), " | "), olaregStacks())
			}
		}
	}
	if cancelLate > 0 {
		fail("cancel-not-honoured", "%d request(s) whose context was cancelled while waiting did not return within 2 s", cancelLate)
	}
	// ---- Close must return
	closed := make(chan struct{})
	go func() { _ = e.srv.Close(); close(closed) }()
	select {
	case <-closed:
	case <-time.After(20 * time.Second):
		dl, _ := mon.state()
		fail("close-hangs", "Close did not return within 20 s after the last client finished; wait-for cycle: %q\nblocked on mutexes: %s\n\ngoroutines inside olareg:\n%s", dl, strings.Join(vsync.Waiting(), " | "), olaregStacks())
	}
	nt := uploadsConcurrent > 0 && (sessionsOpened > upMax || grace <= 50*time.Millisecond)
	cl := []string{}
	if dirStore {
		cl = append(cl, "dir")
	} else {
		cl = append(cl, "mem")
	}
	if pct > 0 {
		cl = append(cl, "delays-injected")
	}
	st.CaseSample(trace, trace, nt, cl...)
}

func removeAll(p string) { _ = rmTree(p) }

// ---- Shutdown under load (Server.Run on loopback)

func freePort() int {
	l, err := net.Listen("tcp", "127.0.0.1:0")
	if err != nil {
		return 0
	}
	defer l.Close()
	return l.Addr().(*net.TCPAddr).Port
}

func c12ShutdownProperty(t *rapid.T, st *Stats) {
	dirStore := rapid.Bool().Draw(t, "dirStore")
	rate := rapid.SampledFrom([]int{0, 0, 50, 100000}).Draw(t, "rateLimit")
	nClients := rapid.IntRange(1, 6).Draw(t, "nClients")
	afterMs := rapid.IntRange(1, 30).Draw(t, "shutdownAfterMs")
	port := freePort()
	settings := fmt.Sprintf("Server.Run on 127.0.0.1:%d dir=%v rateLimit=%d clients=%d shutdown after %d ms", port, dirStore, rate, nClients, afterMs)
	trace := []string{settings}
	fail := func(key, f string, a ...any) { Fail(t, st, key, fmt.Sprintf(f, a...), trace, nil) }
	root := ""
	store := config.StoreMem
	if dirStore {
		root = mkTemp("c12s")
		store = config.StoreDir
		defer func() { go func() { time.Sleep(time.Second); removeAll(root) }() }()
	}
	conf := baseConf(store, root)
	conf.HTTP.Addr = fmt.Sprintf("127.0.0.1:%d", port)
	conf.API.RateLimit = rate
	srv := olareg.New(conf)
	runErr := make(chan error, 1)
	go func() { runErr <- srv.Run(context.Background()) }()
	base := "http://" + conf.HTTP.Addr
	// wait for the listener
	up := false
	for i := 0; i < 200 && !up; i++ {
		if r, err := http.Get(base + "/v2/"); err == nil {
			_ = r.Body.Close()
			up = true
		} else {
			time.Sleep(5 * time.Millisecond)
		}
	}
	if !up {
		t.Skip("listener did not come up")
	}
	select {
	case err := <-runErr:
		// Run has already returned: the port was taken between choosing and binding it (shards run side by side),
		// whoever answered the probe is somebody else
		st.Add("port-collision-skipped", 1)
		_ = srv.Close()
		t.Skip(fmt.Sprintf("Run returned at once: %v", err))
	case <-time.After(20 * time.Millisecond):
	}
	stop := make(chan struct{})
	var wg sync.WaitGroup
	var mu sync.Mutex
	sent := 0
	for c := 0; c < nClients; c++ {
		wg.Add(1)
		go func(c int) {
			defer wg.Done()
			client := &http.Client{Timeout: 30 * time.Second}
			for i := 0; ; i++ {
				select {
				case <-stop:
					return
				default:
				}
				b := []byte(fmt.Sprintf("c%d-%d", c, i))
				req, _ := http.NewRequest("POST", fmt.Sprintf("%s/v2/load%d/blobs/uploads/?digest=%s", base, c, dig("sha256", b)), bytes.NewReader(b))
				resp, err := client.Do(req)
				if err != nil {
					return // the server went away: expected once Shutdown started
				}
				_, _ = io.Copy(io.Discard, resp.Body)
				_ = resp.Body.Close()
				mu.Lock()
				sent++
				mu.Unlock()
			}
		}(c)
	}
	time.Sleep(time.Duration(afterMs) * time.Millisecond)
	mon := startMonitor()
	defer mon.halt()
	shut := make(chan error, 1)
	go func() { shut <- srv.Shutdown(context.Background()) }()
	select {
	case <-shut:
	case <-time.After(20 * time.Second):
		close(stop)
		dl, _ := mon.state()
		fail("shutdown-hangs", "Shutdown did not return within 20 s while %d keep-alive clients were sending (rate limit %d); wait-for cycle: %q\nblocked on mutexes: %s\n\ngoroutines inside olareg:\n%s",
			nClients, rate, dl, strings.Join(vsync.Waiting(), " | "), olaregStacks())
	}
	close(stop)
	select {
	case <-runErr:
	case <-time.After(20 * time.Second):
		fail("run-does-not-return", "Server.Run did not return within 20 s after Shutdown returned")
	}
	wg.Wait()
	mu.Lock()
	n := sent
	mu.Unlock()
	cl := []string{fmt.Sprintf("rate:%v", rate > 0)}
	st.CaseSample([]string{settings}, trace, n > 0, cl...)
}

func TestC12(t *testing.T) {
	st := newStats("TestC12", "C12", c12Rule)
	rapid.Check(t, func(t *rapid.T) { c12Property(t, st) })
}

func TestC12Shutdown(t *testing.T) {
	st := newStats("TestC12Shutdown", "C12", c12Rule)
	rapid.Check(t, func(t *rapid.T) { c12ShutdownProperty(t, st) })
}

var _ = sort.Strings

// ---- a request that keeps a repository held for long (finding 29)

const c12hRule = "TestC12Holder: one client keeps a repository held (manifest PUT whose body stalls for 1.2 s) with grace 5-50 ms so that cache pruning and collections of that repository start while it is held; 2-5 other requests " +
	"(tag lists, blob HEAD, upload POST; same and other repositories) are sent with contexts cancelled after 1-30 ms; oracle = each returns within 700 ms of its cancellation, the holder completes, Close returns; " +
	"non-trivial = a bystander on another repository ran while the holder had been held for more than 1.1 x grace"

func c12HolderProperty(t *rapid.T, st *Stats) {
	dirStore := rapid.Bool().Draw(t, "dirStore")
	if dirStore && avoid("C12/held-repository-blocks-store") {
		st.Exclude("C12/held-repository-blocks-store")
		dirStore = false
	}
	grace := time.Duration(rapid.SampledFrom([]int{5, 20, 50}).Draw(t, "graceMs")) * time.Millisecond
	freq := time.Duration(rapid.SampledFrom([]int{2, 10, 1000}).Draw(t, "gcFrequencyMs")) * time.Millisecond
	type by struct {
		kind, repo string
		startMs    int
		cancelMs   int
	}
	bys := []by{}
	for i, n := 0, rapid.IntRange(2, 5).Draw(t, "nBystanders"); i < n; i++ {
		bys = append(bys, by{
			kind:     rapid.SampledFrom([]string{"tags", "head-blob", "post-upload"}).Draw(t, "request"),
			repo:     rapid.SampledFrom([]string{"held", "other", "other", "third/n"}).Draw(t, "repo"),
			startMs:  rapid.SampledFrom([]int{0, 30, 80, 150, 300, 600}).Draw(t, "startMs"),
			cancelMs: rapid.SampledFrom([]int{1, 5, 30}).Draw(t, "cancelAfterMs"),
		})
	}
	trace := []string{fmt.Sprintf("dir=%v grace=%v gcFrequency=%v; holder: PUT /v2/held/manifests/slow, body stalls 1.2 s", dirStore, grace, freq)}
	for _, b := range bys {
		trace = append(trace, fmt.Sprintf("bystander at +%d ms: %s on %s, cancelled after %d ms", b.startMs, b.kind, b.repo, b.cancelMs))
	}
	fail := func(key, f string, a ...any) { Fail(t, st, key, fmt.Sprintf(f, a...), trace, nil) }
	e, _ := newEnv(t, st, dirStore, func(c *config.Config) {
		c.Storage.GC.Frequency = freq
		c.Storage.GC.GracePeriod = grace
	})
	defer func() {
		if e.root != "" {
			go func(r string) { time.Sleep(time.Second); removeAll(r) }(e.root)
		}
	}()
	u, err := newCUniverse(e.srv, "held")
	if err != nil {
		t.Skip("setup failed")
	}
	for _, rn := range []string{"other", "third/n"} {
		if _, err := newCUniverse(e.srv, rn); err != nil {
			t.Skip("setup failed")
		}
	}
	// the holder
	body := u.body(0)
	pr, pw := io.Pipe()
	holderDone := make(chan int, 1)
	t0 := time.Now()
	go func() {
		_, _ = pw.Write(body[:len(body)/2])
		time.Sleep(1200 * time.Millisecond)
		_, _ = pw.Write(body[len(body)/2:])
		_ = pw.Close()
	}()
	go func() {
		req := httptest.NewRequest("PUT", "/v2/held/manifests/slow", pr)
		req.Header.Set("Content-Type", mtImage)
		req.ContentLength = -1
		w := httptest.NewRecorder()
		e.srv.ServeHTTP(w, req)
		holderDone <- w.Code
	}()
	var mu sync.Mutex
	late := []string{}
	nontrivial := false
	var wg sync.WaitGroup
	for _, b := range bys {
		wg.Add(1)
		go func(b by) {
			defer wg.Done()
			time.Sleep(time.Duration(b.startMs) * time.Millisecond)
			ctx, cancel := context.WithCancel(context.Background())
			var req *http.Request
			switch b.kind {
			case "tags":
				req = httptest.NewRequest("GET", "/v2/"+b.repo+"/tags/list", nil)
			case "head-blob":
				req = httptest.NewRequest("HEAD", "/v2/"+b.repo+"/blobs/"+u.cfg, nil)
			default:
				req = httptest.NewRequest("POST", "/v2/"+b.repo+"/blobs/uploads/", nil)
			}
			req = req.WithContext(ctx)
			w := httptest.NewRecorder()
			done := make(chan struct{})
			go func() { e.srv.ServeHTTP(w, req); close(done) }()
			time.Sleep(time.Duration(b.cancelMs) * time.Millisecond)
			cancel()
			tc := time.Now()
			<-done
			took := time.Since(tc)
			mu.Lock()
			if b.repo != "held" && time.Duration(b.startMs)*time.Millisecond > grace*11/10 {
				nontrivial = true
			}
			if took > 700*time.Millisecond {
				late = append(late, fmt.Sprintf("%s on %s (sent %d ms after the holder started) returned %v after its context was cancelled (status %d)", b.kind, b.repo, b.startMs, took.Round(time.Millisecond), w.Code))
			}
			mu.Unlock()
		}(b)
	}
	wg.Wait()
	var code int
	select {
	case code = <-holderDone:
	case <-time.After(20 * time.Second):
		fail("stall", "the stalled PUT did not complete within 20 s of its body being delivered\n%s", olaregStacks())
	}
	trace = append(trace, fmt.Sprintf("holder answered %d after %v", code, time.Since(t0).Round(time.Millisecond)))
	closed := make(chan struct{})
	go func() { _ = e.srv.Close(); close(closed) }()
	select {
	case <-closed:
	case <-time.After(20 * time.Second):
		fail("close-hangs", "Close did not return within 20 s\n%s", olaregStacks())
	}
	cl := []string{"mem"}
	if dirStore {
		cl[0] = "dir"
	}
	st.CaseSample(trace, trace, nontrivial, cl...)
	if len(late) > 0 {
		key := "cancel-not-honoured"
		if dirStore {
			key = "held-repository-blocks-store"
		}
		fail(key, "while one request kept repository \"held\" open: %s", strings.Join(late, "; "))
	}
}

func TestC12Holder(t *testing.T) {
	st := newStats("TestC12Holder", "C12", c12hRule)
	rapid.Check(t, func(rt *rapid.T) { c12HolderProperty(rt, st) })
}

// TestKF_C12_HeldRepositoryBlocksStore reproduces finding 29 on the directory store.
func TestKF_C12_HeldRepositoryBlocksStore(t *testing.T) {
	st := newStats("TestKF_C12_HeldRepositoryBlocksStore", "C12", "reproducer")
	root := mkTemp("kf12")
	defer func() { go func() { time.Sleep(time.Second); removeAll(root) }() }()
	conf := baseConf(config.StoreDir, root)
	conf.Storage.GC.GracePeriod = 20 * time.Millisecond
	conf.Storage.GC.Frequency = time.Second
	srv := olareg.New(conf)
	defer srv.Close()
	u, err := newCUniverse(srv, "held")
	if err != nil {
		t.Fatalf("setup: %v", err)
	}
	if _, err := newCUniverse(srv, "other"); err != nil {
		t.Fatalf("setup: %v", err)
	}
	body := u.body(0)
	pr, pw := io.Pipe()
	go func() {
		_, _ = pw.Write(body[:len(body)/2])
		time.Sleep(1200 * time.Millisecond)
		_, _ = pw.Write(body[len(body)/2:])
		_ = pw.Close()
	}()
	holder := make(chan struct{})
	go func() {
		req := httptest.NewRequest("PUT", "/v2/held/manifests/slow", pr)
		req.Header.Set("Content-Type", mtImage)
		req.ContentLength = -1
		srv.ServeHTTP(httptest.NewRecorder(), req)
		close(holder)
	}()
	time.Sleep(150 * time.Millisecond)
	ctx, cancel := context.WithTimeout(context.Background(), 20*time.Millisecond)
	defer cancel()
	t0 := time.Now()
	w := httptest.NewRecorder()
	srv.ServeHTTP(w, httptest.NewRequest("GET", "/v2/other/tags/list", nil).WithContext(ctx))
	took := time.Since(t0)
	<-holder
	if took > 700*time.Millisecond {
		Fail(kfT{t}, st, "held-repository-blocks-store", fmt.Sprintf("GET /v2/other/tags/list with a 20 ms deadline returned after %v (status %d) while a stalled PUT kept repository \"held\" open", took.Round(time.Millisecond), w.Code),
			[]string{"dir store, grace 20 ms", "PUT /v2/held/manifests/slow: body stalls for 1.2 s (the handler holds the repository)", "+150 ms: GET /v2/other/tags/list with a context that expires after 20 ms", "the GET returns only when the PUT has finished"}, nil)
	}
}

// ---- Close while requests are running

const c12cRule = "TestC12CloseUnderLoad: 2-5 clients send requests (slow manifest PUTs that keep the repository held, tag lists, uploads, blob HEADs; one or two repositories) with a 1 ms GC ticker; Server.Close is called after 0-8 ms while " +
	"they are still running, as a program does whose handler outlives the registry (the README example closes the registry before the test server); oracle = Close returns within 20 s and does not panic, every client request " +
	"returns within 20 s (whatever its status; a handler that finds the store gone counts as returned); non-trivial = Close was called while >=1 request was in flight; distinct = hash of the program + delay"

func c12CloseProperty(t *rapid.T, st *Stats) {
	dirStore := rapid.Bool().Draw(t, "dirStore")
	nClients := rapid.IntRange(2, 5).Draw(t, "nClients")
	delay := time.Duration(rapid.IntRange(0, 8000).Draw(t, "closeAfterUs")) * time.Microsecond
	type step struct{ kind, repo string }
	progs := make([][]step, nClients)
	for c := range progs {
		for i, n := 0, rapid.IntRange(2, 8).Draw(t, "nRequests"); i < n; i++ {
			progs[c] = append(progs[c], step{rapid.SampledFrom([]string{"slowPut", "slowPut", "tags", "upload", "head"}).Draw(t, "request"), rapid.SampledFrom([]string{"x", "x", "y"}).Draw(t, "repo")})
		}
	}
	trace := []string{fmt.Sprintf("dir=%v gcFrequency=1ms Close after %v", dirStore, delay)}
	for c, p := range progs {
		trace = append(trace, fmt.Sprintf("client %d: %v", c, p))
	}
	fail := func(key, f string, a ...any) { Fail(t, st, key, fmt.Sprintf(f, a...), trace, nil) }
	e, _ := newEnv(t, st, dirStore, func(c *config.Config) {
		c.Storage.GC.Frequency = time.Millisecond
		c.Storage.GC.GracePeriod = 20 * time.Millisecond
	})
	defer func() {
		if e.root != "" {
			go func(r string) { time.Sleep(time.Second); removeAll(r) }(e.root)
		}
	}()
	us := map[string]*cUniverse{}
	for _, rn := range []string{"x", "y"} {
		u, err := newCUniverse(e.srv, rn)
		if err != nil {
			t.Skip("setup failed")
		}
		us[rn] = u
	}
	var inFlight, handlerPanics atomic.Int64
	var wg sync.WaitGroup
	for c := range progs {
		wg.Add(1)
		go func(c int) {
			defer wg.Done()
			for i, s := range progs[c] {
				u := us[s.repo]
				inFlight.Add(1)
				func() {
					defer inFlight.Add(-1)
					defer func() {
						if recover() != nil {
							handlerPanics.Add(1) // the handler found the store gone: it returned, which is all that counts here
						}
					}()
					switch s.kind {
					case "slowPut":
						_, _, _ = c12Exec(e.srv, u, cOp{Kind: "slowPut", Man: i % nCMans, N: 1}, new(int64))
					case "tags":
						_ = doReq(e.srv, "GET", "/v2/"+s.repo+"/tags/list", nil, nil)
					case "upload":
						b := []byte(fmt.Sprintf("blob-%d-%d", c, i))
						_ = doReq(e.srv, "POST", "/v2/"+s.repo+"/blobs/uploads/?digest="+dig("sha256", b), b, nil)
					case "head":
						_ = doReq(e.srv, "HEAD", "/v2/"+s.repo+"/blobs/"+u.cfg, nil, nil)
					}
				}()
			}
		}(c)
	}
	time.Sleep(delay)
	under := inFlight.Load() > 0
	closed := make(chan any, 1)
	go func() {
		defer func() { closed <- recover() }()
		_ = e.srv.Close()
	}()
	select {
	case p := <-closed:
		if p != nil {
			fail("close-panics", "Server.Close panicked while requests were running: %v\n%s", p, olaregStacks())
		}
	case <-time.After(20 * time.Second):
		fail("close-hangs", "Close did not return within 20 s while requests were running\nblocked on mutexes: %s\n\n%s", strings.Join(vsync.Waiting(), " | "), olaregStacks())
	}
	done := make(chan struct{})
	go func() { wg.Wait(); close(done) }()
	select {
	case <-done:
	case <-time.After(20 * time.Second):
		fail("stall", "%d client request(s) had not returned 20 s after Close\nblocked on mutexes: %s\n\n%s", inFlight.Load(), strings.Join(vsync.Waiting(), " | "), olaregStacks())
	}
	cl := []string{"mem"}
	if dirStore {
		cl[0] = "dir"
	}
	if handlerPanics.Load() > 0 {
		cl = append(cl, "handler-found-store-gone")
	}
	st.CaseSample(trace, trace, under, cl...)
}

func TestC12CloseUnderLoad(t *testing.T) {
	st := newStats("TestC12CloseUnderLoad", "C12", c12cRule)
	rapid.Check(t, func(rt *rapid.T) { c12CloseProperty(rt, st) })
}
