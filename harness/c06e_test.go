//go:build verifbubble

package vh

// C06, the part that depends on the schedule of the store's own timers: "removes repositories left empty when so
// configured" and "is not starved", for repositories whose only content ever were upload sessions. Whether the ticker
// visits such a repository once its last session has expired depends on when the session was created, for how long the
// client kept it alive, when it expired and where the ticks fall - minutes of timer arithmetic that TestC06 cannot
// reach with real time. Here the whole server runs in a virtual-time bubble (ticker, session expiry and cache pruning
// included). The directory store dates things by file modification times, which stay real inside a bubble; the bubble's
// clock is therefore first advanced to the real time of day, so that both clocks agree at the start of the case, and
// the case only uses operations whose ageing is driven by the store's own clock (sessions; no completed blobs).

import (
	"fmt"
	"os"
	"path/filepath"
	"testing"
	"testing/synctest"
	"time"

	"pgregory.net/rapid"

	"github.com/olareg/olareg"
	"github.com/olareg/olareg/config"
)

const c06eRule = "TestC06Expiry: directory store inside a virtual-time bubble aligned with the real clock; ticker period F in {20 s, 1 min}, grace period (= session lifetime) G in {2 min, 10 min}, empty-repository removal on; " +
	"2 repositories (one nested), 3-14 operations from {start an upload session, append a chunk to a live session (keeps it alive), a slow client sending a chunk every G/2 for up to G+F+3G/2, cancel a session, let F/2 | F | G/2 | G-1s | G+F pass}; then nothing for 3G+3F; " +
	"oracle = every repository that was only ever used for upload sessions is gone from the directory (index.json, oci-layout, _uploads and the directory itself), no upload file is left; " +
	"non-trivial = some session was kept alive beyond creation + G + F and then left to expire; distinct = hash of the op trace"

type c06eSess struct {
	repo    string
	loc     string
	size    int
	created time.Time
	last    time.Time
	dead    bool
}

func c06eProperty(t *rapid.T, st *Stats) {
	root := mkTemp("c06e")
	defer os.RemoveAll(root)
	F := rapid.SampledFrom([]time.Duration{20 * time.Second, time.Minute}).Draw(t, "tick")
	G := rapid.SampledFrom([]time.Duration{2 * time.Minute, 10 * time.Minute}).Draw(t, "grace")
	conf := baseConf(config.StoreDir, root)
	conf.Storage.GC.Frequency = F
	conf.Storage.GC.GracePeriod = G
	conf.Storage.GC.Untagged, conf.Storage.GC.EmptyRepo, conf.Storage.GC.ReferrersDangling, conf.Storage.GC.ReferrersWithSubj = bp(true), bp(true), bp(true), bp(true)
	srv := olareg.New(conf)
	defer func() { _ = srv.Close() }() // also on the failure path: a bubble only ends when its ticker has stopped
	trace := []string{fmt.Sprintf("tick=%v grace=%v", F, G)}
	fail := func(key, f string, a ...any) { Fail(t, st, key, fmt.Sprintf(f, a...), trace, nil) }
	repos := []string{"x", "y/z"}
	used := map[string]bool{}
	sess := []*c06eSess{}
	keptLong := false
	live := func() []*c06eSess {
		out := []*c06eSess{}
		for _, s := range sess {
			if !s.dead {
				out = append(out, s)
			}
		}
		return out
	}
	t.Repeat(map[string]func(*rapid.T){
		"start": func(t *rapid.T) {
			rn := rapid.SampledFrom(repos).Draw(t, "repo")
			r := doReq(srv, "POST", "/v2/"+rn+"/blobs/uploads/", nil, nil)
			trace = append(trace, fmt.Sprintf("start %s -> %d", rn, r.code))
			if r.code != 202 {
				fail("session-refused", "POST of an upload session answered %d", r.code)
			}
			used[rn] = true
			sess = append(sess, &c06eSess{repo: rn, loc: r.hdr.Get("Location"), created: time.Now(), last: time.Now()})
		},
		"append": func(t *rapid.T) {
			l := live()
			if len(l) == 0 {
				t.Skip("no live session")
			}
			s := l[rapid.IntRange(0, len(l)-1).Draw(t, "session")]
			chunk := []byte("keep-alive")
			r := doReq(srv, "PATCH", s.loc, chunk, hdr("Content-Range", fmt.Sprintf("%d-%d", s.size, s.size+len(chunk)-1)))
			trace = append(trace, fmt.Sprintf("append %s (created %v ago, idle %v) -> %d", s.repo, time.Since(s.created), time.Since(s.last), r.code))
			if r.code != 202 {
				s.dead = true // expired or evicted: C08 judges that
				return
			}
			s.loc, s.size, s.last = r.hdr.Get("Location"), s.size+len(chunk), time.Now()
			if time.Since(s.created) > G+F+time.Second {
				keptLong = true
			}
		},
		"keepAlive": func(t *rapid.T) {
			// a slow client: one chunk every G/2 for a while
			l := live()
			if len(l) == 0 {
				t.Skip("no live session")
			}
			s := l[rapid.IntRange(0, len(l)-1).Draw(t, "session")]
			n := rapid.IntRange(1, int((G+F)/(G/2))+3).Draw(t, "chunks")
			for i := 0; i < n && !s.dead; i++ {
				time.Sleep(G / 2)
				synctest.Wait()
				chunk := []byte("slow")
				r := doReq(srv, "PATCH", s.loc, chunk, hdr("Content-Range", fmt.Sprintf("%d-%d", s.size, s.size+len(chunk)-1)))
				if r.code != 202 {
					s.dead = true
					break
				}
				s.loc, s.size, s.last = r.hdr.Get("Location"), s.size+len(chunk), time.Now()
			}
			trace = append(trace, fmt.Sprintf("keepAlive %s: %d chunks, one every %v (created %v ago) dead=%v", s.repo, n, G/2, time.Since(s.created), s.dead))
			if !s.dead && time.Since(s.created) > G+F+time.Second {
				keptLong = true
			}
		},
		"cancel": func(t *rapid.T) {
			l := live()
			if len(l) == 0 {
				t.Skip("no live session")
			}
			s := l[rapid.IntRange(0, len(l)-1).Draw(t, "session")]
			r := doReq(srv, "DELETE", sessionPath(s.loc), nil, nil)
			trace = append(trace, fmt.Sprintf("cancel %s -> %d", s.repo, r.code))
			s.dead = true
		},
		"pass": func(t *rapid.T) {
			d := rapid.SampledFrom([]time.Duration{F / 2, F, G / 2, G - time.Second, G + F}).Draw(t, "time")
			time.Sleep(d)
			synctest.Wait()
			trace = append(trace, fmt.Sprintf("%v pass", d))
		},
	})
	expiring := len(live()) > 0
	time.Sleep(3*G + 3*F)
	synctest.Wait()
	trace = append(trace, fmt.Sprintf("%v pass without any request", 3*G+3*F))
	for rn := range used {
		p := filepath.Join(root, rn)
		if ents, err := os.ReadDir(filepath.Join(p, "_uploads")); err == nil && len(ents) > 0 {
			fail("upload-file-left", "repository %s: %d file(s) left in _uploads after every session was cancelled or has expired", rn, len(ents))
		}
		if _, err := os.Stat(p); err == nil {
			ents, _ := os.ReadDir(p)
			names := []string{}
			for _, e := range ents {
				names = append(names, e.Name())
			}
			fail("empty-repository-left", "repository %s never held anything but upload sessions, all cancelled or expired more than %v ago, and empty-repository removal is on; its directory still holds %v", rn, 3*G, names)
		}
	}
	st.Case(trace, keptLong && expiring)
}

func TestC06Expiry(t *testing.T) {
	st := newStats("TestC06Expiry", "C06", c06eRule)
	rapid.Check(t, func(rt *rapid.T) {
		real := time.Now() // the real clock, read outside the bubble
		var out any
		synctest.Test(t, func(*testing.T) {
			defer func() { out = recover() }()
			time.Sleep(real.Sub(time.Now())) // the bubble's clock starts in the year 2000: advance it to the time file stamps carry
			c06eProperty(rt, st)
		})
		if out != nil {
			panic(out)
		}
	})
}
