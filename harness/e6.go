package vh

// Engine E6: concurrent history runner. A generated program is a set of clients, each with a short list of
// operations over a small shared universe; clients run on real goroutines against one server and every call is
// recorded with its call/return times and result. Used by C11 (invariants + linearizability), C13 (race detector)
// and C12 (hang monitor).

import (
	"encoding/json"
	"fmt"
	"net/url"
	"sort"
	"strings"
	"sync"
	"time"

	"pgregory.net/rapid"

	"github.com/olareg/olareg"
)

type cOp struct {
	Kind string // putTag putDigest putArt delTag delDigest getTag getMan getRefs listTags upload uploadChunked collect
	Tag  string
	Man  int // index into bodies (manifests first, then artifacts)
	Subj int
	N    int
}

func (o cOp) String() string {
	switch o.Kind {
	case "putTag":
		return fmt.Sprintf("putTag(%s,M%d)", o.Tag, o.Man)
	case "putDigest":
		return fmt.Sprintf("putDigest(M%d)", o.Man)
	case "putArt":
		if o.Tag != "" {
			return fmt.Sprintf("putArt(A%d,tag=%s)", o.Man, o.Tag)
		}
		return fmt.Sprintf("putArt(A%d)", o.Man)
	case "delTag", "getTag":
		return fmt.Sprintf("%s(%s)", o.Kind, o.Tag)
	case "delDigest", "getMan":
		return fmt.Sprintf("%s(#%d)", o.Kind, o.Man)
	case "getRefs":
		return fmt.Sprintf("getRefs(S%d)", o.Subj)
	case "upload", "uploadChunked":
		return fmt.Sprintf("%s(%d)", o.Kind, o.N)
	case "mount":
		return fmt.Sprintf("mount(blob %d from %s)", o.N, o.Tag)
	case "freshPut":
		return fmt.Sprintf("freshPut(fresh%d,%s,F%d)", o.N, o.Tag, o.Man)
	case "freshBurst":
		return fmt.Sprintf("freshBurst(%d)", o.N)
	}
	return o.Kind
}

type cResult struct {
	Client    int
	Op        cOp
	Call, Ret int64
	Code      int
	Out       string
	Panic     string
}

type cUniverse struct {
	repo    string
	mans    [][]byte // M0..M3: plain images
	arts    [][]byte // A0..A5: artifacts, subject of Aj is M(j%2)
	digests []string // digests of mans then arts
	subj    []string // S0, S1
	cfg     string
}

const nCMans, nCArts = 4, 6

var cTags = []string{"t1", "t2"}

// newCUniverse builds the shared bodies and pushes the config blob.
func newCUniverse(srv *olareg.Server, repo string) (*cUniverse, error) {
	u := &cUniverse{repo: repo}
	cfg := []byte("{}")
	u.cfg = dig("sha256", cfg)
	if r := doReq(srv, "POST", "/v2/"+repo+"/blobs/uploads/?digest="+u.cfg, cfg, nil); r.code != 201 {
		return nil, fmt.Errorf("config push answered %d", r.code)
	}
	for i := 0; i < nCMans; i++ {
		raw, _ := buildImage(mtImage, mtConfig, u.cfg, 2, nil, nil, nil, "", map[string]string{"m": fmt.Sprint(i)})
		u.mans = append(u.mans, raw)
		u.digests = append(u.digests, dig("sha256", raw))
	}
	u.subj = []string{u.digests[0], u.digests[1]}
	for j := 0; j < nCArts; j++ {
		raw, _ := buildImage(mtImage, mtConfig, u.cfg, 2, nil, nil, &mdesc{MediaType: mtImage, Digest: u.subj[j%2], Size: int64(len(u.mans[j%2]))}, "application/vnd.x.c11", map[string]string{"a": fmt.Sprint(j)})
		u.arts = append(u.arts, raw)
		u.digests = append(u.digests, dig("sha256", raw))
	}
	return u, nil
}

func (u *cUniverse) body(i int) []byte {
	if i < nCMans {
		return u.mans[i]
	}
	return u.arts[i-nCMans]
}

// subjectOf returns the subject index of body i, or -1.
func (u *cUniverse) subjectOf(i int) int {
	if i < nCMans {
		return -1
	}
	return (i - nCMans) % 2
}

// execOp performs one operation and renders its observable result.
func (u *cUniverse) execOp(srv *olareg.Server, o cOp) (int, string, string) {
	base := "/v2/" + u.repo
	var r resp
	out := ""
	switch o.Kind {
	case "putTag":
		r = doReq(srv, "PUT", base+"/manifests/"+o.Tag, u.body(o.Man), hdr("Content-Type", mtImage))
	case "putDigest":
		r = doReq(srv, "PUT", base+"/manifests/"+u.digests[o.Man], u.body(o.Man), hdr("Content-Type", mtImage))
	case "putArt":
		ref := u.digests[o.Man]
		if o.Tag != "" {
			ref = o.Tag
		}
		r = doReq(srv, "PUT", base+"/manifests/"+ref, u.body(o.Man), hdr("Content-Type", mtImage))
	case "delTag":
		r = doReq(srv, "DELETE", base+"/manifests/"+o.Tag, nil, nil)
	case "delDigest":
		r = doReq(srv, "DELETE", base+"/manifests/"+u.digests[o.Man], nil, nil)
	case "getTag":
		r = doReq(srv, "HEAD", base+"/manifests/"+o.Tag, nil, hdr("Accept", acceptAll))
		if r.code == 200 {
			out = r.hdr.Get("Docker-Content-Digest")
		}
	case "getMan":
		r = doReq(srv, "HEAD", base+"/manifests/"+u.digests[o.Man], nil, hdr("Accept", acceptAll))
	case "getRefs":
		r = doReq(srv, "GET", base+"/referrers/"+u.subj[o.Subj], nil, nil)
		var idx mbody
		_ = json.Unmarshal(r.body, &idx)
		ds := []string{}
		for _, x := range idx.Manifests {
			ds = append(ds, x.Digest)
		}
		sort.Strings(ds)
		out = strings.Join(ds, ",")
	case "listTags":
		r = doReq(srv, "GET", base+"/tags/list", nil, nil)
		var tl struct{ Tags []string }
		_ = json.Unmarshal(r.body, &tl)
		out = strings.Join(tl.Tags, ",")
	case "upload":
		b := []byte(fmt.Sprintf("blob-%d", o.N))
		r = doReq(srv, "POST", base+"/blobs/uploads/?digest="+dig("sha256", b), b, nil)
	case "uploadChunked":
		b := []byte(fmt.Sprintf("chunked-blob-%d-%s", o.N, strings.Repeat("x", 64)))
		r = doReq(srv, "POST", base+"/blobs/uploads/", nil, nil)
		loc := r.hdr.Get("Location")
		off := 0
		for r.code == 202 && off < len(b) {
			end := off + 16
			if end > len(b) {
				end = len(b)
			}
			r = doReq(srv, "PATCH", loc, b[off:end], hdr("Content-Range", fmt.Sprintf("%d-%d", off, end-1)))
			loc = r.hdr.Get("Location")
			off = end
		}
		if r.code == 202 {
			r = doReq(srv, "PUT", loc+"&digest="+url.QueryEscape(dig("sha256", b)), nil, nil)
		}
	case "mount":
		// cross-repository mount; the source is the target itself, a repository that exists, or one that does not;
		// blob 0-5 = what "upload" pushes (may or may not be there yet), 6-7 = never pushed anywhere
		b := []byte(fmt.Sprintf("blob-%d", o.N))
		from := o.Tag
		if from == "self" {
			from = u.repo
		}
		if strings.HasPrefix(from, "fresh") && o.N%2 == 0 {
			b = []byte("first-" + from[5:]) // what newRepoPush puts there: a mount that can succeed
		}
		r = doReq(srv, "POST", base+"/blobs/uploads/?mount="+dig("sha256", b)+"&from="+url.QueryEscape(from), nil, nil)
		if r.code == 202 {
			// fell back to an upload session: finish it
			r = doReq(srv, "PUT", r.hdr.Get("Location")+"&digest="+url.QueryEscape(dig("sha256", b)), b, nil)
		}
	case "freshBurst":
		// first touches of twelve repositories nobody has used: each one creates and publishes a repository object
		for i := 0; i < 12; i++ {
			r = doReq(srv, "GET", fmt.Sprintf("/v2/fb%dx%d/tags/list", o.N, i), nil, nil)
		}
	case "freshPut":
		// first index write to a repository nobody has touched yet: a manifest that needs no blobs, by tag
		body := freshBody(o.Man)
		r = doReq(srv, "PUT", fmt.Sprintf("/v2/fresh%d/manifests/%s", o.N, o.Tag), body, hdr("Content-Type", mtIndex))
		out = dig("sha256", body)
	case "collect":
		_ = srv.VerifGC(u.repo)
		r.code = 200
	case "newRepoPush":
		// first write to a repository nobody has touched yet (several clients race on its initialisation)
		b := []byte(fmt.Sprintf("first-%d", o.N))
		r = doReq(srv, "POST", fmt.Sprintf("/v2/fresh%d/blobs/uploads/?digest=%s", o.N, dig("sha256", b)), b, &reqOpt{remote: fmt.Sprintf("10.0.0.%d:1234", o.N)})
	case "newRepoRead":
		b := []byte(fmt.Sprintf("first-%d", o.N))
		r = doReq(srv, "GET", fmt.Sprintf("/v2/fresh%d/blobs/%s", o.N, dig("sha256", b)), nil, &reqOpt{hdr: map[string]string{"X-Forwarded-For": fmt.Sprintf("10.0.1.%d", o.N)}})
	case "newRepoTags":
		r = doReq(srv, "GET", fmt.Sprintf("/v2/fresh%d/tags/list", o.N), nil, nil)
	case "sessionAbandon":
		// open a session, write a little, never finish: left to eviction / expiry
		r = doReq(srv, "POST", base+"/blobs/uploads/", nil, nil)
		if r.code == 202 {
			_ = doReq(srv, "PATCH", r.hdr.Get("Location"), []byte("partial"), hdr("Content-Range", "0-6"))
		}
	case "getRefsFiltered":
		r = doReq(srv, "GET", base+"/referrers/"+u.subj[o.Subj]+"?artifactType=application/vnd.x.c11", nil, nil)
		if l := r.hdr.Get("Link"); l != "" && strings.Contains(l, "<") {
			_ = doReq(srv, "GET", l[strings.Index(l, "<")+1:strings.Index(l, ">")], nil, nil)
		}
	}
	p := ""
	if r.panicV != nil {
		p = fmt.Sprint(r.panicV)
	}
	return r.code, out, p
}

var freshTags = []string{"f1", "f2", "f3"}

// freshBody: child-less OCI indexes that differ in one annotation (pushable into an empty repository).
func freshBody(i int) []byte {
	raw, _ := buildIndex(mtIndex, nil, nil, "", map[string]string{"fresh": fmt.Sprint(i)})
	return raw
}

type cProgram struct {
	Clients [][]cOp
}

func (p cProgram) lines() []string {
	out := []string{}
	for i, c := range p.Clients {
		s := []string{}
		for _, o := range c {
			s = append(s, o.String())
		}
		out = append(out, fmt.Sprintf("client %d: %s", i, strings.Join(s, " ; ")))
	}
	return out
}

// genCProgram draws a concurrent program. kinds = operation kinds to choose from.
func genCProgram(t *rapid.T, kinds []string, maxClients, maxOps int) cProgram {
	p := cProgram{}
	k := rapid.IntRange(2, maxClients).Draw(t, "nClients")
	for c := 0; c < k; c++ {
		ops := []cOp{}
		n := rapid.IntRange(1, maxOps).Draw(t, "nOps")
		for i := 0; i < n; i++ {
			o := cOp{Kind: rapid.SampledFrom(kinds).Draw(t, "op")}
			switch o.Kind {
			case "putTag":
				o.Tag = rapid.SampledFrom(cTags).Draw(t, "tag")
				o.Man = rapid.IntRange(0, nCMans-1).Draw(t, "man")
			case "putDigest":
				o.Man = rapid.IntRange(0, nCMans-1).Draw(t, "man")
			case "putArt":
				o.Man = nCMans + rapid.IntRange(0, nCArts-1).Draw(t, "art")
				if rapid.IntRange(0, 3).Draw(t, "artByTag") == 0 {
					o.Tag = rapid.SampledFrom(cTags).Draw(t, "tag")
				}
			case "delTag", "getTag":
				o.Tag = rapid.SampledFrom(cTags).Draw(t, "tag")
			case "delDigest", "getMan":
				o.Man = rapid.IntRange(0, nCMans+nCArts-1).Draw(t, "target")
			case "getRefs":
				o.Subj = rapid.IntRange(0, 1).Draw(t, "subject")
			case "upload", "uploadChunked":
				o.N = rapid.IntRange(0, 5).Draw(t, "blob")
			case "mount":
				o.N = rapid.IntRange(0, 7).Draw(t, "blob")
				o.Tag = rapid.SampledFrom([]string{"self", "self", "fresh0", "fresh1", "nosuchrepo"}).Draw(t, "from")
			case "freshBurst":
				o.N = rapid.IntRange(0, 3).Draw(t, "burst")
			case "freshPut":
				o.N = rapid.IntRange(0, 1).Draw(t, "freshRepo")
				o.Tag = rapid.SampledFrom(freshTags).Draw(t, "tag")
				o.Man = rapid.IntRange(0, 3).Draw(t, "freshBody")
			case "newRepoPush", "newRepoRead", "newRepoTags":
				o.N = rapid.IntRange(0, 2).Draw(t, "freshRepo")
			case "getRefsFiltered":
				o.Subj = rapid.IntRange(0, 1).Draw(t, "subject")
			}
			ops = append(ops, o)
		}
		p.Clients = append(p.Clients, ops)
	}
	return p
}

// lastProgramDone is closed when the clients of the most recent program have all returned (a caller that gave up
// waiting must not close the server under them: Close racing with requests is the embedding program's business).
var lastProgramDone chan struct{}

// runCProgram executes all clients concurrently (released together) and returns the recorded history.
func runCProgram(srv *olareg.Server, u *cUniverse, p cProgram, timeout time.Duration) ([]cResult, bool) {
	var mu sync.Mutex
	res := []cResult{}
	start := time.Now()
	gate := make(chan struct{})
	var wg sync.WaitGroup
	for ci, ops := range p.Clients {
		wg.Add(1)
		go func(ci int, ops []cOp) {
			defer wg.Done()
			<-gate
			for _, o := range ops {
				call := time.Since(start).Nanoseconds()
				code, out, pv := u.execOp(srv, o)
				ret := time.Since(start).Nanoseconds()
				mu.Lock()
				res = append(res, cResult{Client: ci, Op: o, Call: call, Ret: ret, Code: code, Out: out, Panic: pv})
				mu.Unlock()
			}
		}(ci, ops)
	}
	close(gate)
	done := make(chan struct{})
	go func() { wg.Wait(); close(done) }()
	select {
	case <-done:
	case <-time.After(timeout):
		lastProgramDone = done
		mu.Lock()
		defer mu.Unlock()
		return append([]cResult{}, res...), false
	}
	lastProgramDone = done
	sort.Slice(res, func(i, j int) bool { return res[i].Call < res[j].Call })
	return res, true
}

func historyLines(res []cResult) []string {
	out := []string{}
	for _, r := range res {
		o := r.Out
		if len(o) > 0 {
			parts := strings.Split(o, ",")
			for i := range parts {
				parts[i] = short(parts[i])
			}
			o = " [" + strings.Join(parts, ",") + "]"
		}
		out = append(out, fmt.Sprintf("[%7.3f..%7.3f ms] c%d %s -> %d%s%s", float64(r.Call)/1e6, float64(r.Ret)/1e6, r.Client, r.Op, r.Code, o, r.Panic))
	}
	return out
}

// overlapping reports whether two operations of different clients on the same tag or subject overlapped in time.
func overlapping(u *cUniverse, res []cResult) bool {
	key := func(r cResult) string {
		switch r.Op.Kind {
		case "putTag", "delTag", "getTag":
			return "tag:" + r.Op.Tag
		case "putArt":
			return fmt.Sprintf("subj:%d", u.subjectOf(r.Op.Man))
		case "getRefs":
			return fmt.Sprintf("subj:%d", r.Op.Subj)
		case "delDigest":
			if s := u.subjectOf(r.Op.Man); s >= 0 {
				return fmt.Sprintf("subj:%d", s)
			}
		}
		return ""
	}
	for i := range res {
		for j := i + 1; j < len(res); j++ {
			a, b := res[i], res[j]
			if a.Client != b.Client && key(a) != "" && key(a) == key(b) && a.Call <= b.Ret && b.Call <= a.Ret {
				return true
			}
		}
	}
	return false
}
