package vh

// C05, schedules: complete image pushes by several clients while collections run continuously (DESIGN.md §3 C05,
// "Schedules"). Grace period 1 h: everything the clients upload is recent, so no collection may remove any of it,
// whatever moment it runs at - in particular between the blob uploads and the manifest push of one image.

import (
	"fmt"
	"sync"
	"testing"
	"time"

	"github.com/opencontainers/go-digest"
	"pgregory.net/rapid"

	"github.com/olareg/olareg/config"
)

const c05cRule = "generated concurrent programs: 2-5 clients each push a complete image (config + 1-3 layers, some shared between clients, by three upload protocols, then the manifest by a shared or own tag) while a 1 ms GC ticker and a " +
	"synchronous collection loop run with Untagged/ReferrersDangling/ReferrersWithSubj on and GracePeriod 1 h, both stores, optionally with the layers already present as old unreferenced blobs; oracle = every upload and manifest PUT is acknowledged (a collected blob shows as 400 MANIFEST_BLOB_UNKNOWN), " +
	"every acknowledged image pulls completely at quiescence; non-trivial = >=1 collection finished while some client was between its first blob and its manifest (measured); distinct = hash of the program"

func c05cProperty(t *rapid.T, st *Stats) {
	dirStore := rapid.Bool().Draw(t, "dirStore")
	nClients := rapid.IntRange(2, 5).Draw(t, "nClients")
	type plan struct {
		layers []int
		tag    string
		proto  []int
	}
	plans := []plan{}
	for c := 0; c < nClients; c++ {
		p := plan{tag: rapid.SampledFrom([]string{"shared", fmt.Sprintf("own%d", c)}).Draw(t, "tag")}
		for i, n := 0, rapid.IntRange(1, 3).Draw(t, "nLayers"); i < n; i++ {
			p.layers = append(p.layers, rapid.IntRange(0, 5).Draw(t, "layer"))
			p.proto = append(p.proto, rapid.IntRange(0, 2).Draw(t, "proto"))
		}
		plans = append(plans, p)
	}
	e, cleanup := newEnv(t, st, dirStore, func(c *config.Config) {
		c.Storage.GC.Frequency = time.Millisecond
		c.Storage.GC.GracePeriod = time.Hour
		c.Storage.GC.Untagged, c.Storage.GC.ReferrersDangling, c.Storage.GC.ReferrersWithSubj = bp(true), bp(true), bp(true)
	})
	defer cleanup()
	trace := []string{fmt.Sprintf("dir=%v", dirStore)}
	for c, p := range plans {
		trace = append(trace, fmt.Sprintf("client %d: layers %v protocols %v tag %s", c, p.layers, p.proto, p.tag))
	}
	// some of the layers may already sit in the repository, unreferenced and long past the grace period (left behind
	// by an abandoned push): uploading one of them again is a new upload, whatever a collection decides meanwhile
	stale := rapid.IntRange(0, 3).Draw(t, "staleLayersPresent") > 0
	if stale {
		for l := 0; l <= 5; l++ {
			b := []byte(fmt.Sprintf("layer-%d-%s", l, "0123456789abcdef0123456789abcdef"))
			if r := doReq(e.srv, "POST", "/v2/img/blobs/uploads/?digest="+dig("sha256", b), b, nil); r.code != 201 {
				t.Skip("setup failed")
			}
		}
		_ = e.srv.VerifAgeBlobs("img", 3*time.Hour)
		trace = append(trace, "layers 0-5 are present, unreferenced and 3 h old when the clients start")
	}
	var mu sync.Mutex
	problems := []string{}
	note := func(f string, a ...any) { mu.Lock(); problems = append(problems, fmt.Sprintf(f, a...)); mu.Unlock() }
	inFlight, midCollections := 0, 0
	stop := make(chan struct{})
	bg := make(chan struct{})
	go func() {
		defer close(bg)
		for {
			select {
			case <-stop:
				return
			default:
			}
			_ = e.srv.VerifGC("img")
			mu.Lock()
			if inFlight > 0 {
				midCollections++
			}
			mu.Unlock()
			time.Sleep(100 * time.Microsecond)
		}
	}()
	type done struct {
		digest string
		raw    []byte
		refs   map[string][]byte
	}
	results := make([]*done, nClients)
	var wg sync.WaitGroup
	for c, p := range plans {
		wg.Add(1)
		go func(c int, p plan) {
			defer wg.Done()
			refs := map[string][]byte{}
			upload := func(b []byte, proto int) bool {
				pl := uploadPlan{repo: "img", content: b, proto: proto, finalAlg: "sha256", declared: dig("sha256", b)}
				if proto == 2 {
					pl.cuts = []int{len(b) / 2}
				}
				ur := e.runUpload(pl)
				if ur.final.code != 201 {
					note("client %d: upload of %s answered %d at %s", c, short(pl.declared), ur.final.code, ur.step)
					return false
				}
				refs[pl.declared] = b
				return true
			}
			cfg := []byte(fmt.Sprintf(`{"client":%d}`, c))
			if !upload(cfg, 0) {
				return
			}
			mu.Lock()
			inFlight++
			mu.Unlock()
			defer func() { mu.Lock(); inFlight--; mu.Unlock() }()
			layers, sizes := []string{}, []int{}
			for i, l := range p.layers {
				b := []byte(fmt.Sprintf("layer-%d-%s", l, "0123456789abcdef0123456789abcdef"))
				if !upload(b, p.proto[i]) {
					return
				}
				layers = append(layers, dig("sha256", b))
				sizes = append(sizes, len(b))
			}
			raw, _ := buildImage(mtImage, mtConfig, dig("sha256", cfg), len(cfg), layers, sizes, nil, "", nil)
			r := doReq(e.srv, "PUT", "/v2/img/manifests/"+p.tag, raw, hdr("Content-Type", mtImage))
			if r.code != 201 {
				note("client %d: manifest PUT by tag %s answered %d %s - a blob uploaded moments ago is gone although the grace period is 1 h", c, p.tag, r.code, trunc(r.body, 200))
				return
			}
			results[c] = &done{dig("sha256", raw), raw, refs}
			if !stale {
				return
			}
			// an abandoned blob of this client, long past the grace period, is uploaded again - over and over, while
			// collections run: each acknowledged upload must find its blob there afterwards
			b := []byte(fmt.Sprintf("abandoned-by-client-%d", c))
			d := dig("sha256", b)
			for i := 0; i < 25; i++ {
				// (a session upload: its completion runs after the handler has released the repository, so it can
				// overlap a collection; the monolithic form cannot)
				r := doReq(e.srv, "POST", "/v2/img/blobs/uploads/", nil, nil)
				if r.code == 202 {
					r = doReq(e.srv, "PUT", r.hdr.Get("Location")+"&digest="+d, b, nil)
				}
				if r.code != 201 {
					note("client %d: upload of %s answered %d", c, short(d), r.code)
					return
				}
				if r := doReq(e.srv, "HEAD", "/v2/img/blobs/"+d, nil, nil); r.code != 200 {
					note("client %d: blob %s was uploaded again (201) and is gone right afterwards (HEAD %d), iteration %d; it had been made 3 h old before that upload, the grace period is 1 h", c, short(d), r.code, i)
					return
				}
				_ = e.srv.VerifSetBlobTime("img", digest.Digest(d), time.Now().Add(-3*time.Hour))
			}
		}(c, p)
	}
	wg.Wait()
	// a few more collections over the quiescent store
	for i := 0; i < 3; i++ {
		_ = e.srv.VerifGC("img")
	}
	close(stop)
	<-bg
	fail := func(key, f string, a ...any) { Fail(t, st, key, fmt.Sprintf(f, a...), trace, nil) }
	if len(problems) > 0 {
		fail("recent-content-collected", "%v", problems)
	}
	for c, d := range results {
		if d == nil {
			continue
		}
		g := doReq(e.srv, "GET", "/v2/img/manifests/"+d.digest, nil, hdr("Accept", acceptAll))
		// an untagged image (its shared tag was moved by another client) is still younger than the grace period
		if g.code != 200 || !sameBytes(g.body, d.raw) {
			fail("acknowledged-image-not-pullable", "client %d: manifest %s acknowledged with 201 answers %d at quiescence (grace period 1 h)", c, short(d.digest), g.code)
		}
		for rd, b := range d.refs {
			br := doReq(e.srv, "GET", "/v2/img/blobs/"+rd, nil, nil)
			if br.code != 200 || !sameBytes(br.body, b) {
				fail("acknowledged-image-not-pullable", "client %d: config/layer %s of the acknowledged image %s answers %d at quiescence", c, short(rd), short(d.digest), br.code)
			}
		}
	}
	cl := []string{"mem"}
	if dirStore {
		cl = []string{"dir"}
	}
	if stale {
		cl = append(cl, "stale-layers-uploaded-again")
	}
	st.CaseSample(trace, append(trace, fmt.Sprintf("collections finished while a client was mid-push: %d", midCollections)), midCollections > 0, cl...)
}

func TestC05Concurrent(t *testing.T) {
	st := newStats("TestC05Concurrent", "C05", c05cRule)
	rapid.Check(t, func(t *rapid.T) { c05cProperty(t, st) })
}
