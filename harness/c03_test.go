package vh

// C03 — tags form a last-writer-wins map; listing and paging are exact (DESIGN.md §3 C03).

import (
	"encoding/json"
	"fmt"
	"net/url"
	"sort"
	"strings"
	"testing"

	"pgregory.net/rapid"
)

const c03Rule = "rapid state machine: tag pushes, overwrites, multi-tagging, tag deletes, digest deletes, restarts; listings with n in {absent, 1..len+2, 0, -1, -2^31, 2^63, junk} and last in " +
	"{absent, existing, between, before all, after all}, Link chains followed; oracle = model map tag->digest; " +
	"non-trivial = (>=1 overwrite or multi-tag) and >=1 paged listing of >=2 pages; distinct = hash of the op trace"

var c03Tags = []string{
	"a", "b", "latest", "_x", "123", "Tag", "tag", "a..b", "a--b", "a.-_b", "v1.0",
	"sha256-" + strings.Repeat("a", 64),
	strings.Repeat("z", 128),
	"Z" + strings.Repeat("9", 127),
}
var c03Repos = []string{"r1", "r2/n"}
var c03RepoDraw = []string{"r1", "r1", "r1", "r2/n"} // most traffic on one repository so that listings get long

type c03State struct {
	*env
	bodies map[string][]manifestPlan // repo -> pushable manifests (built lazily)
}

// manifests returns six distinct image manifests of the repository (config blob pushed on first use).
func (s *c03State) manifests(rn string) []manifestPlan {
	if ps, ok := s.bodies[rn]; ok {
		return ps
	}
	cfg := []byte("{}")
	cd := dig("sha256", cfg)
	r := s.do("POST", "/v2/"+rn+"/blobs/uploads/?digest="+cd, cfg, nil)
	if r.code != 201 {
		s.abandon("config blob upload refused")
	}
	s.repo(rn).blobs[cd] = cfg
	ps := []manifestPlan{}
	for i := 0; i < 6; i++ {
		raw, mm := buildImage(mtImage, mtConfig, cd, len(cfg), nil, nil, nil, "", map[string]string{"i": fmt.Sprint(i)})
		d := dig("sha256", raw)
		ps = append(ps, manifestPlan{repo: rn, raw: raw, mm: mm, ct: mtImage, alg: "sha256", digest: d})
		s.universe[d] = true
	}
	s.bodies[rn] = ps
	return ps
}

func (s *c03State) wantTags(rn string) []string {
	t := sortedKeys(s.repo(rn).tags)
	sort.Strings(t)
	return t
}

type tagListBody struct {
	Name string    `json:"name"`
	Tags *[]string `json:"tags"`
}

// list performs one listing request and returns the tags and the next link ("" if none).
func (s *c03State) list(u string, method string) (int, []string, string, resp) {
	r := s.do(method, u, nil, nil)
	if r.panicV != nil {
		s.fail("list-panic", "%s %s panicked: %v", method, u, r.panicV)
	}
	if r.code != 200 {
		return r.code, nil, "", r
	}
	if method == "HEAD" {
		return r.code, nil, "", r
	}
	var tl tagListBody
	if err := json.Unmarshal(r.body, &tl); err != nil {
		s.fail("list-body", "%s: body is not a tag list: %v (%q)", u, err, trunc(r.body, 100))
	}
	tags := []string{}
	if tl.Tags != nil {
		tags = *tl.Tags
	}
	next := ""
	if l := r.hdr.Get("Link"); l != "" {
		i, j := strings.Index(l, "<"), strings.Index(l, ">")
		if i != 0 || j < 0 || !strings.Contains(l[j:], `rel=next`) && !strings.Contains(l[j:], `rel="next"`) {
			s.fail("list-link-format", "%s: malformed Link header %q", u, l)
		}
		next = l[i+1 : j]
	}
	return r.code, tags, next, r
}

func (s *c03State) sweep() {
	for _, rn := range c03Repos {
		mr := s.repo(rn)
		if _, ok := s.bodies[rn]; !ok {
			continue
		}
		want := s.wantTags(rn)
		code, got, next, r := s.list("/v2/"+rn+"/tags/list", "GET")
		if code != 200 {
			s.fail("list-status", "tags/list of %s: status %d (%s)", rn, code, trunc(r.body, 100))
		}
		if fmt.Sprint(got) != fmt.Sprint(want) || next != "" {
			s.fail("list-exact", "tags/list of %s: got %v (next %q) want %v", rn, shortTags(got), next, shortTags(want))
		}
		for _, tg := range c03Tags {
			g := s.do("HEAD", "/v2/"+rn+"/manifests/"+tg, nil, hdr("Accept", acceptAll))
			if g.panicV != nil {
				s.fail("get-panic", "HEAD manifests/%s panicked: %v", tg, g.panicV)
			}
			if d, ok := mr.tags[tg]; ok {
				if g.code != 200 || g.hdr.Get("Docker-Content-Digest") != d {
					s.fail("tag-resolve", "tag %s/%s resolves to %d %s, last pushed under it: %s", rn, shortTag(tg), g.code, short(g.hdr.Get("Docker-Content-Digest")), short(d))
				}
			} else if g.code != 404 {
				s.fail("tag-absent", "tag %s/%s is not in the model but answers %d %s", rn, shortTag(tg), g.code, short(g.hdr.Get("Docker-Content-Digest")))
			}
		}
		for _, p := range s.bodies[rn] {
			g := s.do("GET", "/v2/"+rn+"/manifests/"+p.digest, nil, hdr("Accept", acceptAll))
			if _, ok := mr.mans[p.digest]; ok {
				if g.code != 200 || !sameBytes(g.body, p.raw) {
					s.fail("digest-present", "manifest %s/%s: status %d, must stay addressable by digest", rn, short(p.digest), g.code)
				}
			} else if g.code != 404 {
				s.fail("digest-absent", "manifest %s/%s was deleted/never pushed but answers %d", rn, short(p.digest), g.code)
			}
		}
	}
}

func shortTag(t string) string {
	if len(t) > 20 {
		return t[:8] + fmt.Sprintf("..(%d)", len(t))
	}
	return t
}

func shortTags(ts []string) []string {
	out := make([]string, len(ts))
	for i, t := range ts {
		out[i] = shortTag(t)
	}
	return out
}

func c03Property(t *rapid.T, st *Stats) {
	dirStore := rapid.Bool().Draw(t, "dirStore")
	e, cleanup := newEnv(t, st, dirStore, nil)
	defer cleanup()
	e.repoPool = c03Repos
	s := &c03State{env: e, bodies: map[string][]manifestPlan{}}
	defer func() {
		if e.abandoned {
			return
		}
		nt := (e.classes["overwrite"] || e.classes["multi-tag"]) && e.classes["paged>=2"]
		st.Case(e.trace, nt, e.classList()...)
	}()
	t.Repeat(e.actions(map[string]func(*rapid.T){
		"pushTag": func(t *rapid.T) {
			rn := rapid.SampledFrom(c03RepoDraw).Draw(t, "repo")
			p := s.manifests(rn)[rapid.IntRange(0, 5).Draw(t, "manifest")]
			p.tag = rapid.SampledFrom(c03Tags).Draw(t, "tag")
			p.ref = p.tag
			mr := e.repo(rn)
			r := e.putManifest(p, nil)
			e.logf("pushTag %s %s -> %s : %d", rn, shortTag(p.tag), short(p.digest), r.code)
			if r.panicV != nil || r.code != 201 {
				s.fail("push-tag-refused", "valid tag push %s answered %d %v", shortTag(p.tag), r.code, r.panicV)
			}
			if old, ok := mr.tags[p.tag]; ok && old != p.digest {
				e.class("overwrite")
			}
			for tg, d := range mr.tags {
				if d == p.digest && tg != p.tag {
					e.class("multi-tag")
				}
			}
			e.acceptManifest(p)
		},
		"pushTagAgain": func(t *rapid.T) {
			rn := rapid.SampledFrom(c03RepoDraw).Draw(t, "repo")
			p := s.manifests(rn)[rapid.IntRange(0, 5).Draw(t, "manifest")]
			p.tag = rapid.SampledFrom(c03Tags).Draw(t, "tag")
			p.ref = p.tag
			mr := e.repo(rn)
			r := e.putManifest(p, nil)
			e.logf("pushTag %s %s -> %s : %d", rn, shortTag(p.tag), short(p.digest), r.code)
			if r.panicV != nil || r.code != 201 {
				s.fail("push-tag-refused", "valid tag push %s answered %d %v", shortTag(p.tag), r.code, r.panicV)
			}
			if old, ok := mr.tags[p.tag]; ok && old != p.digest {
				e.class("overwrite")
			}
			for tg, d := range mr.tags {
				if d == p.digest && tg != p.tag {
					e.class("multi-tag")
				}
			}
			e.acceptManifest(p)
		},
		"pushDigest": func(t *rapid.T) {
			rn := rapid.SampledFrom(c03RepoDraw).Draw(t, "repo")
			p := s.manifests(rn)[rapid.IntRange(0, 5).Draw(t, "manifest")]
			p.ref = p.digest
			r := e.putManifest(p, nil)
			e.logf("pushDigest %s %s : %d", rn, short(p.digest), r.code)
			if r.panicV != nil || r.code != 201 {
				s.fail("push-digest-refused", "valid digest push answered %d %v", r.code, r.panicV)
			}
			e.acceptManifest(p)
		},
		"deleteTag": func(t *rapid.T) {
			rn := rapid.SampledFrom(c03RepoDraw).Draw(t, "repo")
			mr := e.repo(rn)
			tg := rapid.SampledFrom(c03Tags).Draw(t, "tag")
			if len(mr.tags) > 0 && rapid.Bool().Draw(t, "existing") {
				tg = rapid.SampledFrom(sortedKeys(mr.tags)).Draw(t, "existingTag")
			}
			r := e.do("DELETE", "/v2/"+rn+"/manifests/"+tg, nil, nil)
			e.logf("deleteTag %s %s : %d", rn, shortTag(tg), r.code)
			if r.panicV != nil {
				s.fail("delete-panic", "DELETE tag panicked: %v", r.panicV)
			}
			if _, ok := mr.tags[tg]; ok {
				if r.code != 202 {
					s.fail("delete-tag-status", "DELETE of existing tag %s answered %d", shortTag(tg), r.code)
				}
				delete(mr.tags, tg)
				e.class("delete-tag")
			} else if r.code != 404 {
				s.fail("delete-missing-tag-status", "DELETE of missing tag %s answered %d", shortTag(tg), r.code)
			}
		},
		"deleteDigest": func(t *rapid.T) {
			rn := rapid.SampledFrom(c03RepoDraw).Draw(t, "repo")
			mr := e.repo(rn)
			p := s.manifests(rn)[rapid.IntRange(0, 5).Draw(t, "manifest")]
			r := e.do("DELETE", "/v2/"+rn+"/manifests/"+p.digest, nil, nil)
			e.logf("deleteDigest %s %s : %d", rn, short(p.digest), r.code)
			if r.panicV != nil {
				s.fail("delete-panic", "DELETE digest panicked: %v", r.panicV)
			}
			if _, ok := mr.mans[p.digest]; ok {
				if r.code != 202 {
					s.fail("delete-digest-status", "DELETE of existing manifest answered %d", r.code)
				}
				n := 0
				for _, d := range mr.tags {
					if d == p.digest {
						n++
					}
				}
				if n >= 2 {
					e.class("delete-digest-multi-tag")
				}
				e.modelDeleteDigest(rn, p.digest)
				e.class("delete-digest")
			} else if r.code != 404 {
				s.fail("delete-missing-digest-status", "DELETE of missing manifest answered %d", r.code)
			}
		},
		"restart": func(t *rapid.T) {
			if !e.isDir() {
				t.Skip("mem")
			}
			e.logf("restart")
			e.restart()
			e.class("restart")
		},
		"list": func(t *rapid.T) {
			rn := rapid.SampledFrom(c03RepoDraw).Draw(t, "repo")
			_ = s.manifests(rn)
			all := s.wantTags(rn)
			q := url.Values{}
			nKind := rapid.SampledFrom([]string{"absent", "pos", "pos", "pos", "zero", "neg", "minint", "huge", "junk", "empty"}).Draw(t, "nKind")
			n := 0
			switch nKind {
			case "pos":
				n = rapid.SampledFrom([]int{1, 1, 2, 3, max(1, len(all)/2), max(1, len(all)-1), len(all) + 1, len(all) + 2}).Draw(t, "n")
				q.Set("n", fmt.Sprint(n))
			case "zero":
				q.Set("n", "0")
			case "neg":
				q.Set("n", fmt.Sprint(-rapid.IntRange(1, 5).Draw(t, "negN")))
			case "minint":
				q.Set("n", "-2147483648")
			case "huge":
				q.Set("n", rapid.SampledFrom([]string{"9223372036854775807", "9223372036854775808", "99999999999999999999999"}).Draw(t, "hugeN"))
			case "junk":
				q.Set("n", rapid.SampledFrom([]string{"abc", "1e3", "0x10", " 1", "1.5"}).Draw(t, "junkN"))
			case "empty":
				q.Set("n", "")
			}
			last, hasLast := "", false
			switch rapid.SampledFrom([]string{"absent", "absent", "existing", "between", "before", "after"}).Draw(t, "lastKind") {
			case "existing":
				if len(all) > 0 {
					last, hasLast = rapid.SampledFrom(all).Draw(t, "last"), true
				}
			case "between":
				last, hasLast = rapid.SampledFrom([]string{"aa", "B", "m", "0", "sha256-", "zzzz"}).Draw(t, "lastBetween"), true
			case "before":
				last, hasLast = "-", true
			case "after":
				last, hasLast = strings.Repeat("z", 129), true
			}
			if hasLast {
				q.Set("last", last)
			}
			u := "/v2/" + rn + "/tags/list"
			if len(q) > 0 {
				u += "?" + q.Encode()
			}
			e.logf("list %s n=%s(%q) last=%q", rn, nKind, q.Get("n"), shortTag(last))
			rest := []string{}
			for _, tg := range all {
				if !hasLast || tg > last {
					rest = append(rest, tg)
				}
			}
			if nKind != "pos" && nKind != "absent" {
				e.class("n<=0-or-junk")
			}
			code, got, next, r := s.list(u, "GET")
			if code != 200 {
				s.fail("list-status", "GET %s: status %d (%s)", u, code, trunc(r.body, 100))
			}
			var tl tagListBody
			_ = json.Unmarshal(r.body, &tl)
			if tl.Name != rn {
				s.fail("list-name", "GET %s: name %q", u, tl.Name)
			}
			switch nKind {
			case "absent", "empty":
				if fmt.Sprint(got) != fmt.Sprint(rest) || next != "" {
					s.fail("list-exact", "GET %s: got %v next=%q want %v", u, shortTags(got), next, shortTags(rest))
				}
			case "pos":
				// follow the chain
				seen := []string{}
				pages := 0
				cur, curTags, curNext := u, got, next
				for {
					pages++
					wantLen := min(n, len(rest)-len(seen))
					if len(curTags) != wantLen {
						s.fail("page-size", "GET %s: page of %d tags, want %d (n=%d, %d remain)", cur, len(curTags), wantLen, n, len(rest)-len(seen))
					}
					seen = append(seen, curTags...)
					if (curNext != "") != (len(seen) < len(rest)) {
						s.fail("page-link", "GET %s: Link present=%v but %d of %d tags listed", cur, curNext != "", len(seen), len(rest))
					}
					if curNext == "" {
						break
					}
					if pages > len(rest)/n+2 {
						s.fail("page-termination", "chain from %s did not end after %d pages", u, pages)
					}
					cur = curNext
					code, curTags, curNext, r = s.list(cur, "GET")
					if code != 200 {
						s.fail("list-status", "GET %s (followed link): status %d", cur, code)
					}
				}
				if fmt.Sprint(seen) != fmt.Sprint(rest) {
					s.fail("page-union", "chain from %s visited %v want %v", u, shortTags(seen), shortTags(rest))
				}
				if pages >= 2 {
					e.class("paged>=2")
				}
			default:
				// n = 0, negative, oversized, junk: a valid, possibly empty listing: an ordered subset of the tags
				i := 0
				for _, g := range got {
					for i < len(rest) && rest[i] != g {
						i++
					}
					if i == len(rest) {
						s.fail("list-subset", "GET %s: %v is not an ordered subset of %v", u, shortTags(got), shortTags(rest))
					}
					i++
				}
			}
			// HEAD must agree on status
			hc, _, _, _ := s.list(u, "HEAD")
			if hc != 200 {
				s.fail("list-head-status", "HEAD %s: status %d", u, hc)
			}
		},
		"": func(*rapid.T) { s.sweep() },
	}))
}

func TestC03(t *testing.T) {
	st := newStats("TestC03", "C03", c03Rule)
	rapid.Check(t, func(t *rapid.T) { c03Property(t, st) })
}
