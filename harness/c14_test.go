package vh

// C14 — read-only stores and disabled APIs never change anything (DESIGN.md §3 C14).

import (
	"fmt"
	"os"
	"path/filepath"
	"sort"
	"strings"
	"testing"
	"time"

	"pgregory.net/rapid"

	"github.com/olareg/olareg"
	"github.com/olareg/olareg/config"
)

const c14Rule = "pre-built roots (healthy from a writable history, legacy fallback-tag layouts that are adoptable or need regeneration, corrupt: garbage index.json / missing oci-layout / wrong blob bytes / stray files / index.json as directory) " +
	"x {dir+ReadOnly, mem+RootDir, mem+RootDir+ReadOnly, writable dir} x PushEnabled x DeleteEnabled x Blob.DeleteEnabled x Referrer.Enabled, GC ticker 1 or 15 ms (first tick before or after the repositories were loaded) with the most aggressive policy on read-only configurations; request mix with every method on every endpoint, then Close; " +
	"oracle = byte/mtime-exact tree snapshot (and of the parent directory), status class per switch, pre-existing content served, read sweep unchanged by refused requests; " +
	"non-trivial = >=1 mutating request of each of {upload, manifest PUT, delete} was sent and the root held >=1 repository; distinct = hash of root kind + switches + request trace"

func c14Property(t *rapid.T, st *Stats) {
	tmp := mkTemp("c14")
	defer os.RemoveAll(tmp)
	root := filepath.Join(tmp, "root")
	_ = os.MkdirAll(root, 0o755)
	trace := []string{}
	classes := map[string]bool{}
	convertedOff := false // the directory was written with the referrers API on and is served with it off (listed finding)
	fail := func(key, f string, a ...any) {
		if convertedOff && key != "tree-changed" && key != "panic" {
			key = "referrers-off-on-converted-layout"
		}
		Fail(t, st, key, fmt.Sprintf(f, a...), trace, nil)
	}
	sent := map[string]bool{}
	defer func() {
		cl := []string{}
		for c := range classes {
			cl = append(cl, c)
		}
		sort.Strings(cl)
		st.Case(trace, sent["upload"] && sent["manifest"] && sent["delete"], cl...)
	}()
	mode := rapid.SampledFrom([]string{"dir+ro", "dir+ro", "mem+root", "mem+root+ro", "dir-writable-switches-off"}).Draw(t, "mode")
	tick := rapid.SampledFrom([]time.Duration{time.Millisecond, 15 * time.Millisecond}).Draw(t, "gcFrequency")
	push, del, blobDel, ref := rapid.Bool().Draw(t, "push"), rapid.Bool().Draw(t, "delete"), rapid.Bool().Draw(t, "blobDelete"), rapid.IntRange(0, 3).Draw(t, "referrer") > 0
	// ---- build the root
	rootKind := rapid.SampledFrom([]string{"healthy", "healthy", "legacy-adoptable", "legacy-any", "corrupt"}).Draw(t, "rootKind")
	// a healthy root was written by a server with the referrers API on (the default) or off, whatever this server's switch says
	writerRef := ref
	if !ref && rootKind == "healthy" && rapid.Bool().Draw(t, "directoryWrittenWithReferrersAPI") {
		if avoid("C14/referrers-off-on-converted-layout") {
			st.Exclude("C14/referrers-off-on-converted-layout: a directory written with the referrers API on is served with it off")
		} else {
			writerRef, convertedOff = true, true
			trace = append(trace, "the directory was written with the referrers API on")
		}
	}
	classes["root:"+rootKind] = true
	type known struct {
		repo string
		tags map[string]string
		mans map[string]string // digest -> media type
		blob map[string][]byte
	}
	kn := []known{}
	cfg := []byte("{}")
	cd := dig("sha256", cfg)
	buildHealthy := func(rn string) {
		wc := baseConf(config.StoreDir, root)
		wc.API.Referrer.Enabled = bp(writerRef) // a layout written with the referrers API off is not marked converted
		w := olareg.New(wc)
		k := known{repo: rn, tags: map[string]string{}, mans: map[string]string{}, blob: map[string][]byte{}}
		push := func(b []byte) string {
			d := dig("sha256", b)
			r := doReq(w, "POST", "/v2/"+rn+"/blobs/uploads/?digest="+d, b, nil)
			if r.code != 201 {
				t.Fatalf("setup: blob push %d", r.code)
			}
			k.blob[d] = b
			return d
		}
		push(cfg)
		layer := push([]byte("layer of " + rn))
		var firstImg string
		for i, n := 0, rapid.IntRange(1, 3).Draw(t, "nImages"); i < n; i++ {
			raw, _ := buildImage(mtImage, mtConfig, cd, 2, []string{layer}, []int{len(k.blob[layer])}, nil, "", map[string]string{"i": fmt.Sprint(i)})
			d := dig("sha256", raw)
			ref := d
			if rapid.Bool().Draw(t, "tagged") {
				ref = fmt.Sprintf("v%d", i)
				k.tags[ref] = d
			}
			if r := doReq(w, "PUT", "/v2/"+rn+"/manifests/"+ref, raw, hdr("Content-Type", mtImage)); r.code != 201 {
				t.Fatalf("setup: manifest push %d", r.code)
			}
			k.mans[d], k.blob[d] = mtImage, raw
			if firstImg == "" {
				firstImg = d
			}
		}
		if rapid.Bool().Draw(t, "withArtifact") {
			raw, _ := buildImage(mtImage, mtEmpty, cd, 2, nil, nil, &mdesc{MediaType: mtImage, Digest: firstImg, Size: int64(len(k.blob[firstImg]))}, "application/vnd.x.sig", nil)
			d := dig("sha256", raw)
			if r := doReq(w, "PUT", "/v2/"+rn+"/manifests/"+d, raw, hdr("Content-Type", mtImage)); r.code != 201 {
				t.Fatalf("setup: artifact push %d", r.code)
			}
			k.mans[d], k.blob[d] = mtImage, raw
		}
		_ = w.Close()
		kn = append(kn, k)
	}
	expectServe := true
	legacyRegen := false
	legacyConverted := false
	switch rootKind {
	case "healthy":
		buildHealthy("r1")
		if rapid.Bool().Draw(t, "second") {
			buildHealthy("r2/n")
		}
	case "legacy-adoptable", "legacy-any":
		l := genLegacyLayout(t, root, "r1", rootKind == "legacy-adoptable")
		k := known{repo: "r1", tags: l.tags, mans: l.manifests, blob: l.blobs}
		kn = append(kn, k)
		trace = append(trace, l.desc...)
		legacyConverted = l.converted
		// does the conversion of this layout have to write a new response blob? The generator's own estimate misses
		// combinations (two adoptable indexes that end up at the same subject, ...): ask a writable store on a scratch
		// copy. This only scopes the listed finding 22 (a read-only store cannot convert such a layout), it is not
		// the oracle of the property.
		legacyRegen = l.regenerate > 0 || c14ConversionWrites(root)
		// a read-only dir store cannot serve a layout whose conversion needs a new blob (open question, finding 22):
		// read expectations only for healthy and adoptable roots
		expectServe = rootKind == "legacy-adoptable"
	case "corrupt":
		buildHealthy("r1")
		rp := filepath.Join(root, "r1")
		how := rapid.SampledFrom([]string{"garbage-index", "no-layout-file", "wrong-blob-bytes", "stray-files", "index-is-dir", "truncated-index"}).Draw(t, "corruption")
		classes["corrupt:"+how] = true
		trace = append(trace, "corruption="+how)
		switch how {
		case "garbage-index":
			_ = os.WriteFile(filepath.Join(rp, "index.json"), []byte("{not json"), 0o644)
		case "truncated-index":
			b, _ := os.ReadFile(filepath.Join(rp, "index.json"))
			_ = os.WriteFile(filepath.Join(rp, "index.json"), b[:len(b)/2], 0o644)
		case "no-layout-file":
			_ = os.Remove(filepath.Join(rp, "oci-layout"))
		case "wrong-blob-bytes":
			for d := range kn[0].mans {
				_ = os.WriteFile(filepath.Join(rp, "blobs", "sha256", d[7:]), []byte("tampered"), 0o644)
				break
			}
		case "stray-files":
			_ = os.WriteFile(filepath.Join(rp, "stray.txt"), []byte("x"), 0o644)
			_ = os.MkdirAll(filepath.Join(rp, "_uploads"), 0o755)
			_ = os.WriteFile(filepath.Join(rp, "_uploads", "upload.123"), []byte("left over"), 0o644)
			_ = os.WriteFile(filepath.Join(rp, "index.json.tmp1"), []byte("{}"), 0o644)
		case "index-is-dir":
			_ = os.Remove(filepath.Join(rp, "index.json"))
			_ = os.MkdirAll(filepath.Join(rp, "index.json"), 0o755)
		}
		expectServe = false
	}
	// directories a collection would consider empty: an empty directory, a layout that never received a manifest (an
	// upload that was started and cancelled leaves index.json, oci-layout and an empty _uploads), an empty _uploads
	// next to content. A read-only store that runs its collection (at Close, at cache eviction) removes them.
	sparse := []string{}
	if rapid.Bool().Draw(t, "sparseRepos") {
		_ = os.MkdirAll(filepath.Join(root, "e1"), 0o755)
		wc := baseConf(config.StoreDir, root)
		wc.API.Referrer.Enabled = bp(writerRef)
		w := olareg.New(wc)
		if r := doReq(w, "POST", "/v2/e2/blobs/uploads/", nil, nil); r.code == 202 {
			_ = doReq(w, "DELETE", sessionPath(r.hdr.Get("Location")), nil, nil)
		}
		_ = w.Close()
		_ = os.MkdirAll(filepath.Join(root, "e2", "_uploads"), 0o755)
		if rootKind == "healthy" {
			_ = os.MkdirAll(filepath.Join(root, "r1", "_uploads"), 0o755)
		}
		sparse = []string{"e1", "e2"}
		classes["sparse-repos"] = true
		trace = append(trace, "sparse repositories e1 (empty directory), e2 (layout without manifests, empty _uploads)")
	}
	// age everything a little so that an mtime change is visible
	old := time.Now().Add(-2 * time.Hour)
	_ = filepath.Walk(root, func(p string, fi os.FileInfo, err error) error {
		if err == nil {
			_ = os.Chtimes(p, old, old)
		}
		return nil
	})
	// ---- the server under test
	conf := baseConf(config.StoreDir, root)
	conf.Storage.GC.GracePeriod = -1 // nothing is "recent": a collection that runs would remove whatever it may
	conf.Storage.GC.Untagged, conf.Storage.GC.EmptyRepo, conf.Storage.GC.ReferrersDangling, conf.Storage.GC.ReferrersWithSubj = bp(true), bp(true), bp(true), bp(true)
	switch mode {
	case "dir+ro":
		conf.Storage.ReadOnly = bp(true)
		conf.Storage.GC.Frequency = tick
	case "mem+root+ro":
		// a read-only memory store over the directory: nothing on disk changes, and nothing readable either
		// (a ticker that runs would prune the in-memory index under this policy)
		conf.Storage.StoreType = config.StoreMem
		conf.Storage.ReadOnly = bp(true)
		conf.Storage.GC.Frequency = tick
	case "mem+root":
		conf.Storage.StoreType = config.StoreMem
		conf.Storage.GC.Frequency = time.Millisecond
		// collections in memory are legitimate; keep them from removing what the read checks expect
		conf.Storage.GC.Untagged, conf.Storage.GC.EmptyRepo, conf.Storage.GC.ReferrersDangling, conf.Storage.GC.ReferrersWithSubj = bp(false), bp(false), bp(false), bp(false)
		conf.Storage.GC.GracePeriod = 1000 * time.Hour
	case "dir-writable-switches-off":
		// only the second sentence of the property applies: disabled requests are refused and change nothing
		push, del = false, false
		conf.Storage.GC.Frequency = -1
		conf.Storage.GC.Untagged, conf.Storage.GC.EmptyRepo, conf.Storage.GC.ReferrersDangling, conf.Storage.GC.ReferrersWithSubj = bp(false), bp(false), bp(false), bp(false)
		conf.Storage.GC.GracePeriod = time.Hour
		if rootKind != "healthy" {
			mode = "dir+ro"
			conf.Storage.ReadOnly = bp(true)
		}
	}
	ro := mode == "dir+ro" || mode == "mem+root+ro"
	if ro {
		trace = append(trace, fmt.Sprintf("gcFrequency=%v", conf.Storage.GC.Frequency))
	}
	conf.API.PushEnabled, conf.API.DeleteEnabled, conf.API.Blob.DeleteEnabled, conf.API.Referrer.Enabled = bp(push), bp(del), bp(blobDel), bp(ref)
	if !ref && legacyConverted {
		// a layout that is marked converted, served with the referrers API off: the listed finding
		if avoid("C14/referrers-off-on-converted-layout") {
			st.Exclude("C14/referrers-off-on-converted-layout: a directory written with the referrers API on is served with it off")
			ref = true
			conf.API.Referrer.Enabled = bp(true)
		} else {
			convertedOff = true
		}
	}
	trace = append(trace, fmt.Sprintf("root=%s mode=%s push=%v delete=%v blobDelete=%v referrer=%v", rootKind, mode, push, del, blobDel, ref))
	classes["mode:"+mode] = true
	before := treeSnapshotFull(tmp)
	srv := olareg.New(conf)
	readSweep := func() string {
		var sb strings.Builder
		for _, k := range kn {
			r := doReq(srv, "GET", "/v2/"+k.repo+"/tags/list", nil, nil)
			fmt.Fprintf(&sb, "%s tags %d %s|", k.repo, r.code, strings.TrimSpace(string(r.body)))
			for _, d := range sortedKeys(k.blob) {
				g := doReq(srv, "GET", "/v2/"+k.repo+"/blobs/"+d, nil, nil)
				m := doReq(srv, "GET", "/v2/"+k.repo+"/manifests/"+d, nil, hdr("Accept", acceptAll))
				fmt.Fprintf(&sb, "%s=%d/%d ", short(d), g.code, m.code)
			}
		}
		return sb.String()
	}
	started := time.Now()
	if tick == time.Millisecond {
		time.Sleep(3 * time.Millisecond) // let a wrongly started ticker tick before anything is loaded
	}
	sweep0 := ""
	if mode != "mem+root" {
		sweep0 = readSweep()
	}
	// pre-existing content is served
	if expectServe {
		for _, k := range kn {
			for tg, d := range k.tags {
				r := doReq(srv, "GET", "/v2/"+k.repo+"/manifests/"+tg, nil, hdr("Accept", acceptAll))
				if r.code != 200 || r.hdr.Get("Docker-Content-Digest") != d || !sameBytes(r.body, k.blob[d]) {
					fail("content-not-served", "%s: pre-existing tag %s/%s answers %d digest=%s (%s)", mode, k.repo, tg, r.code, short(r.hdr.Get("Docker-Content-Digest")), trunc(r.body, 100))
				}
			}
			for d := range k.mans {
				r := doReq(srv, "GET", "/v2/"+k.repo+"/manifests/"+d, nil, hdr("Accept", acceptAll))
				if r.code != 200 || !sameBytes(r.body, k.blob[d]) {
					fail("content-not-served", "%s: pre-existing manifest %s/%s answers %d", mode, k.repo, short(d), r.code)
				}
			}
			for d, b := range k.blob {
				r := doReq(srv, "GET", "/v2/"+k.repo+"/blobs/"+d, nil, nil)
				if r.code != 200 || !sameBytes(r.body, b) {
					fail("content-not-served", "%s: pre-existing blob %s/%s answers %d", mode, k.repo, short(d), r.code)
				}
			}
		}
		classes["content-served-checked"] = true
	}
	// ---- request mix
	memWrites := mode == "mem+root"
	repos := append([]string{"r1", "r2/n", "new/repo"}, sparse...)
	someDigest := func() string {
		for _, k := range kn {
			for d := range k.blob {
				return d
			}
		}
		return cd
	}
	someTag := func() (string, string) {
		for _, k := range kn {
			for tg := range k.tags {
				return k.repo, tg
			}
		}
		return "r1", "v0"
	}
	class := func(what string, r resp, mutating bool, enabled bool) {
		if r.panicV != nil {
			fail("panic", "%s panicked: %v", what, r.panicV)
		}
		if !mutating {
			return
		}
		if !enabled || ro {
			if r.code < 400 || r.code >= 500 {
				if rootKind == "corrupt" && r.code >= 500 {
					return // storage is not healthy: 5xx is not a client error here (C15)
				}
				if ro && legacyRegen && r.code >= 500 && avoid("C14/ro-legacy-regeneration") {
					// finding 22: the repository cannot be opened at all by a read-only store, every request to it fails
					st.Exclude("C14/ro-legacy-regeneration")
					return
				}
				fail("not-refused", "%s on %s (push=%v delete=%v blobDelete=%v) answered %d, want 4xx", what, mode, push, del, blobDel, r.code)
			}
		}
	}
	nReq := rapid.IntRange(4, 14).Draw(t, "nRequests")
	for i := 0; i < nReq; i++ {
		rn := rapid.SampledFrom(repos).Draw(t, "repo")
		kind := rapid.SampledFrom([]string{"upload-mono", "upload-session", "mount", "manifest-put", "manifest-delete-tag", "manifest-delete-digest", "blob-delete", "tags", "referrers", "get", "patch-unknown", "put-by-existing-tag"}).Draw(t, "request")
		switch kind {
		case "upload-mono":
			b := []byte("new blob " + rn)
			r := doReq(srv, "POST", "/v2/"+rn+"/blobs/uploads/?digest="+dig("sha256", b), b, nil)
			trace = append(trace, fmt.Sprintf("POST monolithic %s -> %d", rn, r.code))
			class("monolithic upload", r, true, push)
			sent["upload"] = true
		case "upload-session":
			r := doReq(srv, "POST", "/v2/"+rn+"/blobs/uploads/", nil, nil)
			trace = append(trace, fmt.Sprintf("POST session %s -> %d", rn, r.code))
			class("session POST", r, true, push)
			sent["upload"] = true
			if r.code == 202 {
				loc := r.hdr.Get("Location")
				b := []byte("chunked " + rn)
				r2 := doReq(srv, "PATCH", loc, b, hdr("Content-Range", fmt.Sprintf("0-%d", len(b)-1)))
				class("PATCH", r2, true, push)
				if r2.code == 202 {
					r3 := doReq(srv, "PUT", r2.hdr.Get("Location")+"&digest="+dig("sha256", b), nil, nil)
					class("PUT", r3, true, push)
					trace = append(trace, fmt.Sprintf("  PATCH+PUT -> %d", r3.code))
				}
			}
		case "mount":
			src, _ := someTag()
			r := doReq(srv, "POST", "/v2/"+rn+"/blobs/uploads/?mount="+someDigest()+"&from="+src, nil, nil)
			trace = append(trace, fmt.Sprintf("POST mount into %s from %s -> %d", rn, src, r.code))
			class("mount", r, true, push)
			sent["upload"] = true
		case "manifest-put", "put-by-existing-tag":
			raw, _ := buildImage(mtImage, mtConfig, cd, 2, nil, nil, nil, "", map[string]string{"new": fmt.Sprint(i)})
			ref := "newtag"
			if kind == "put-by-existing-tag" {
				rn, ref = someTag()
			}
			r := doReq(srv, "PUT", "/v2/"+rn+"/manifests/"+ref, raw, hdr("Content-Type", mtImage))
			trace = append(trace, fmt.Sprintf("PUT manifest %s/%s -> %d", rn, ref, r.code))
			class("manifest PUT", r, true, push)
			sent["manifest"] = true
		case "manifest-delete-tag":
			drn, tg := someTag()
			r := doReq(srv, "DELETE", "/v2/"+drn+"/manifests/"+tg, nil, nil)
			trace = append(trace, fmt.Sprintf("DELETE %s/%s -> %d", drn, tg, r.code))
			class("manifest DELETE by tag", r, true, del)
			sent["delete"] = true
		case "manifest-delete-digest":
			d := someDigest()
			r := doReq(srv, "DELETE", "/v2/"+rn+"/manifests/"+d, nil, nil)
			trace = append(trace, fmt.Sprintf("DELETE manifest %s/%s -> %d", rn, short(d), r.code))
			class("manifest DELETE by digest", r, true, del)
			sent["delete"] = true
		case "blob-delete":
			d := someDigest()
			r := doReq(srv, "DELETE", "/v2/"+rn+"/blobs/"+d, nil, nil)
			trace = append(trace, fmt.Sprintf("DELETE blob %s/%s -> %d", rn, short(d), r.code))
			class("blob DELETE", r, true, del && blobDel)
			sent["delete"] = true
		case "tags":
			r := doReq(srv, "GET", "/v2/"+rn+"/tags/list?n=1", nil, nil)
			class("tags", r, false, true)
		case "referrers":
			r := doReq(srv, "GET", "/v2/"+rn+"/referrers/"+someDigest()+"?artifactType=application/vnd.x.sig", nil, nil)
			class("referrers", r, false, true)
		case "get":
			r := doReq(srv, "GET", "/v2/"+rn+"/manifests/"+someDigest(), nil, hdr("Accept", acceptAll))
			class("get", r, false, true)
		case "patch-unknown":
			r := doReq(srv, "PATCH", "/v2/"+rn+"/blobs/uploads/nosuchsession?state=e30", []byte("x"), nil)
			class("PATCH unknown session", r, true, false)
		}
	}
	time.Sleep(3 * time.Millisecond)
	if ro && time.Since(started) < tick+5*time.Millisecond {
		time.Sleep(tick + 5*time.Millisecond - time.Since(started)) // ... and after the repositories were loaded
	}
	// refused requests leave all readable state unchanged (not for mem+root, whose in-memory writes are legitimate)
	// open finding 22: a read-only dir store over a legacy layout that needs a regenerated response answers
	// depending on the one-second index re-check window; the comparison is skipped there while the finding is open
	roLegacy := ro && legacyRegen
	if roLegacy && avoid("C14/ro-legacy-regeneration") {
		st.Exclude("C14/ro-legacy-regeneration")
	} else if !memWrites && (expectServe || roLegacy) {
		// (corrupt roots answer depending on the store's one-second re-check window: only the tree is compared there)
		if sweep1 := readSweep(); sweep1 != sweep0 {
			key := "reads-changed"
			if roLegacy {
				key = "ro-legacy-regeneration"
			}
			fail(key, "%s: the read sweep changed although every mutating request had to be refused:\n--- before\n%s\n--- after\n%s", mode, sweep0, sweep1)
		}
	}
	done := make(chan struct{})
	go func() { _ = srv.Close(); close(done) }()
	select {
	case <-done:
	case <-time.After(30 * time.Second):
		fail("close-hangs", "Close did not return within 30 s")
	}
	after := treeSnapshotFull(tmp)
	if after != before {
		fail("tree-changed", "%s (push=%v delete=%v blobDelete=%v): the directory tree changed:\n%s", mode, push, del, blobDel, diffLines(before, after))
	}
}

// c14ConversionWrites converts a scratch copy of the root with a writable directory store and reports whether that
// created blob files.
func c14ConversionWrites(root string) bool {
	scratch := mkTemp("c14conv")
	defer os.RemoveAll(scratch)
	copyTree(root, scratch)
	count := func() int {
		n := 0
		_ = filepath.Walk(scratch, func(p string, fi os.FileInfo, err error) error {
			if err == nil && !fi.IsDir() && strings.Contains(p, string(filepath.Separator)+"blobs"+string(filepath.Separator)) {
				n++
			}
			return nil
		})
		return n
	}
	before := count()
	srv := olareg.New(baseConf(config.StoreDir, scratch))
	ents, _ := os.ReadDir(scratch)
	for _, e := range ents {
		if e.IsDir() {
			_ = doReq(srv, "GET", "/v2/"+e.Name()+"/tags/list", nil, nil)
		}
	}
	_ = srv.Close()
	return count() != before
}

// treeSnapshotFull lists everything below root: type, mode, size, hash and mtime of files and directories.
func treeSnapshotFull(root string) string {
	var sb strings.Builder
	_ = filepath.Walk(root, func(p string, fi os.FileInfo, err error) error {
		if err != nil {
			return nil
		}
		rel, _ := filepath.Rel(root, p)
		if fi.IsDir() {
			fmt.Fprintf(&sb, "D %s %o %d\n", rel, fi.Mode(), fi.ModTime().UnixNano())
			return nil
		}
		b, _ := os.ReadFile(p)
		fmt.Fprintf(&sb, "F %s %d %s %o %d\n", rel, fi.Size(), bodySum(b), fi.Mode(), fi.ModTime().UnixNano())
		return nil
	})
	return sb.String()
}

func diffLines(a, b string) string {
	am, bm := map[string]bool{}, map[string]bool{}
	for _, l := range strings.Split(a, "\n") {
		am[l] = true
	}
	for _, l := range strings.Split(b, "\n") {
		bm[l] = true
	}
	out := []string{}
	for l := range am {
		if !bm[l] {
			out = append(out, "- "+l)
		}
	}
	for l := range bm {
		if !am[l] {
			out = append(out, "+ "+l)
		}
	}
	sort.Strings(out)
	if len(out) > 30 {
		out = out[:30]
	}
	return strings.Join(out, "\n")
}

func TestC14(t *testing.T) {
	st := newStats("TestC14", "C14", c14Rule)
	rapid.Check(t, func(t *rapid.T) { c14Property(t, st) })
}
