//go:build verifvfs

package vh

// C11, owned schedules for pairs of requests: "behave as if executed one at a time". TestC11 samples the schedules
// the Go scheduler happens to produce; windows of a few instructions between a handler's check and its update are
// hit rarely or never. Here the harness owns the schedule: request R1 is paused before its k-th file-system call
// (directory store; k runs over all of them), request R2 runs completely in that gap (or, when it needs something R1
// holds, right after R1), then R1 continues. No model is needed for the oracle: the same two requests are executed
// one after the other, in both orders, on two more copies of the same directory, and the interleaved execution must
// agree with one of them - in the answers both clients got and in everything that can be read afterwards, also after
// a restart.

import (
	"fmt"
	"os"
	"path/filepath"
	"sort"
	"strings"
	"testing"
	"time"

	"pgregory.net/rapid"

	"github.com/olareg/olareg"
	"github.com/olareg/olareg/config"
	"github.com/olareg/olareg/internal/vfs"
)

const c11iRule = "TestC11Interleave: directory store with a generated initial content (image under a tag, child manifest present as manifest / as a blob only / absent, artifact present or not); two write requests R1, R2 from " +
	"{push image by tag, push another image under the same tag, push by digest, push index over the child (OCI or docker media type), push the child, delete tag, delete manifest by digest, push artifact 1/2 of one subject, " +
	"delete artifact, delete a layer blob, push image using that layer, upload the layer}; R1 is paused before its k-th file-system call (k uniform over the calls R1 makes alone), R2 runs in the gap; oracle = (answers, readable state, " +
	"readable state after restart) equal those of R1;R2 or of R2;R1 executed sequentially on copies of the same directory; readable state = tag listing, every manifest of the universe by digest (status, Content-Type), " +
	"every tag (status, digest), referrers of the subject (set), blobs (status); non-trivial = R2 ran inside the gap (not after R1) and the two sequential orders differ in answers or state; distinct = (initial content, R1, R2, k)"

type c11iUniverse struct {
	cfg, layer                                      []byte
	cd, ld                                          string
	base, x, y, child, art1, art2, usesLayer        []byte
	idxOCI, idxDocker                               []byte
	baseD, xD, yD, childD, art1D, art2D, usesLayerD string
	idxOCID, idxDockerD                             string
	manifests                                       map[string]string // digest -> name
}

func newC11iUniverse() *c11iUniverse {
	u := &c11iUniverse{cfg: []byte("{}"), layer: []byte("a layer that one image uses"), manifests: map[string]string{}}
	u.cd, u.ld = dig("sha256", u.cfg), dig("sha256", u.layer)
	mk := func(name string, raw []byte) string {
		d := dig("sha256", raw)
		u.manifests[d] = name
		return d
	}
	u.base, _ = buildImage(mtImage, mtConfig, u.cd, 2, nil, nil, nil, "", map[string]string{"m": "base"})
	u.baseD = mk("base", u.base)
	u.x, _ = buildImage(mtImage, mtConfig, u.cd, 2, nil, nil, nil, "", map[string]string{"m": "x"})
	u.xD = mk("X", u.x)
	u.y, _ = buildImage(mtImage, mtConfig, u.cd, 2, nil, nil, nil, "", map[string]string{"m": "y"})
	u.yD = mk("Y", u.y)
	u.child, _ = buildImage(mtImage, mtConfig, u.cd, 2, nil, nil, nil, "", map[string]string{"m": "child"})
	u.childD = mk("child", u.child)
	subj := &mdesc{MediaType: mtImage, Digest: u.baseD, Size: int64(len(u.base))}
	u.art1, _ = buildImage(mtImage, mtConfig, u.cd, 2, nil, nil, subj, "application/vnd.x.one", nil)
	u.art1D = mk("artifact1", u.art1)
	u.art2, _ = buildImage(mtImage, mtConfig, u.cd, 2, nil, nil, subj, "application/vnd.x.two", nil)
	u.art2D = mk("artifact2", u.art2)
	u.usesLayer, _ = buildImage(mtImage, mtConfig, u.cd, 2, []string{u.ld}, []int{len(u.layer)}, nil, "", map[string]string{"m": "uses the layer"})
	u.usesLayerD = mk("layered", u.usesLayer)
	u.idxOCI, _ = buildIndex(mtIndex, []mdesc{{MediaType: mtImage, Digest: u.childD, Size: int64(len(u.child))}}, nil, "", nil)
	u.idxOCID = mk("index(child as OCI image)", u.idxOCI)
	u.idxDocker, _ = buildIndex(mtIndex, []mdesc{{MediaType: mtDImage, Digest: u.childD, Size: int64(len(u.child))}}, nil, "", map[string]string{"lists": "the child as a docker manifest"})
	u.idxDockerD = mk("index(child as docker manifest)", u.idxDocker)
	return u
}

type c11iReq struct {
	name string
	run  func(srv *olareg.Server) resp
	del  bool
}

func (u *c11iUniverse) requests() []c11iReq {
	put := func(ref, mt string, raw []byte) func(*olareg.Server) resp {
		return func(s *olareg.Server) resp {
			return doReq(s, "PUT", "/v2/r/manifests/"+ref, raw, hdr("Content-Type", mt))
		}
	}
	del := func(p string) func(*olareg.Server) resp {
		return func(s *olareg.Server) resp { return doReq(s, "DELETE", "/v2/r/"+p, nil, nil) }
	}
	return []c11iReq{
		{"PUT X under tag t", put("t", mtImage, u.x), false},
		{"PUT Y under tag t", put("t", mtImage, u.y), false},
		{"PUT X by digest", put(u.xD, mtImage, u.x), false},
		{"PUT X under tag t2", put("t2", mtImage, u.x), false},
		{"PUT index (child as OCI image) under tag multi", put("multi", mtIndex, u.idxOCI), false},
		{"PUT index (child as docker manifest) under tag multi2", put("multi2", mtIndex, u.idxDocker), false},
		{"PUT child by digest", put(u.childD, mtImage, u.child), false},
		{"PUT child under tag c", put("c", mtImage, u.child), false},
		{"DELETE tag t", del("manifests/t"), true},
		{"DELETE X by digest", del("manifests/" + u.xD), true},
		{"DELETE child by digest", del("manifests/" + u.childD), true},
		{"PUT artifact1 (subject base)", put(u.art1D, mtImage, u.art1), false},
		{"PUT artifact2 (subject base)", put(u.art2D, mtImage, u.art2), false},
		{"PUT artifact1 under tag sig", put("sig", mtImage, u.art1), false},
		{"DELETE artifact1 by digest", del("manifests/" + u.art1D), true},
		{"DELETE base by digest", del("manifests/" + u.baseD), true},
		{"DELETE layer blob", del("blobs/" + u.ld), true},
		{"PUT image that uses the layer under tag l", put("l", mtImage, u.usesLayer), false},
		{"upload the layer", func(s *olareg.Server) resp {
			return doReq(s, "POST", "/v2/r/blobs/uploads/?digest="+u.ld, u.layer, nil)
		}, false},
	}
}

// observe reads everything a client can read of repository r.
func (u *c11iUniverse) observe(srv *olareg.Server) []string {
	out := []string{}
	r := doReq(srv, "GET", "/v2/r/tags/list", nil, nil)
	out = append(out, fmt.Sprintf("tags: %d %s", r.code, strings.TrimSpace(string(r.body))))
	ds := []string{}
	for d := range u.manifests {
		ds = append(ds, d)
	}
	sort.Strings(ds)
	for _, d := range ds {
		r := doReq(srv, "GET", "/v2/r/manifests/"+d, nil, hdr("Accept", acceptAll))
		out = append(out, fmt.Sprintf("manifest %s: %d %s", u.manifests[d], r.code, r.hdr.Get("Content-Type")))
	}
	for _, tg := range []string{"base", "t", "t2", "multi", "multi2", "c", "sig", "l"} {
		r := doReq(srv, "HEAD", "/v2/r/manifests/"+tg, nil, hdr("Accept", acceptAll))
		name := u.manifests[r.hdr.Get("Docker-Content-Digest")]
		out = append(out, fmt.Sprintf("tag %s: %d %s %s", tg, r.code, name, r.hdr.Get("Content-Type")))
	}
	r = doReq(srv, "GET", "/v2/r/referrers/"+u.baseD, nil, nil)
	listed := []string{}
	for d, n := range u.manifests {
		if strings.Contains(string(r.body), d) {
			listed = append(listed, n)
		}
	}
	sort.Strings(listed)
	out = append(out, fmt.Sprintf("referrers of base: %d %v", r.code, listed))
	for _, b := range []struct{ n, d string }{{"config", u.cd}, {"layer", u.ld}} {
		out = append(out, fmt.Sprintf("blob %s: %d", b.n, doReq(srv, "HEAD", "/v2/r/blobs/"+b.d, nil, nil).code))
	}
	return out
}

type c11iOutcome struct {
	r1, r2       int
	state, again []string // readable state, and the same after a restart
	inGap        bool
}

func (o c11iOutcome) key(bothDeletes bool) string {
	a, b := o.r1, o.r2
	if bothDeletes {
		// a second 202 for a delete that raced past the same existence check is accepted (DESIGN.md §3 C11)
		if a == 404 {
			a = 202
		}
		if b == 404 {
			b = 202
		}
	}
	return fmt.Sprintf("R1=%d R2=%d\n%s\n-- after a restart\n%s", a, b, strings.Join(o.state, "\n"), strings.Join(o.again, "\n"))
}

func c11iProperty(t *rapid.T, st *Stats) {
	u := newC11iUniverse()
	reqs := u.requests()
	// requests that touch the same tag, manifest, subject or blob (4 in 5 cases), or any two
	groups := [][]int{{0, 1, 2, 3, 8, 9}, {4, 5, 6, 7, 10}, {11, 12, 13, 14, 15}, {16, 17, 18}}
	pool := []int{}
	if g := rapid.IntRange(0, len(groups)).Draw(t, "conflictGroup"); g < len(groups) {
		pool = groups[g]
	} else {
		for i := range reqs {
			pool = append(pool, i)
		}
	}
	R1, R2 := reqs[rapid.SampledFrom(pool).Draw(t, "R1")], reqs[rapid.SampledFrom(pool).Draw(t, "R2")]
	childState := rapid.SampledFrom([]string{"manifest", "blob only", "blob only", "absent"}).Draw(t, "childInitially")
	withX := rapid.Bool().Draw(t, "XunderTagInitially")
	withArt := rapid.Bool().Draw(t, "artifact1Initially")
	withLayer := rapid.Bool().Draw(t, "layerInitially")
	typePair := func(a, b c11iReq) bool {
		return strings.HasPrefix(a.name, "PUT index (child as docker") && strings.HasPrefix(b.name, "PUT child")
	}
	if (typePair(R1, R2) || typePair(R2, R1)) && avoid("C11/index-child-type-check-not-atomic") {
		st.Exclude("C11/index-child-type-check-not-atomic: an index that lists the child under another media type, concurrent with the push of the child")
		R2 = reqs[0]
	}
	initial := fmt.Sprintf("initially: base tagged; child %s; X under tag t: %v; artifact1: %v; layer: %v", childState, withX, withArt, withLayer)
	// ---- the directory
	tmp := mkTemp("c11i")
	defer os.RemoveAll(tmp)
	src := filepath.Join(tmp, "src")
	conf := func(root string) config.Config {
		c := baseConf(config.StoreDir, root)
		return c
	}
	{
		ws := olareg.New(conf(src))
		must := func(r resp, want int, what string) {
			if r.code != want {
				t.Fatalf("setup: %s answered %d %s", what, r.code, trunc(r.body, 200))
			}
		}
		must(doReq(ws, "POST", "/v2/r/blobs/uploads/?digest="+u.cd, u.cfg, nil), 201, "config")
		must(doReq(ws, "PUT", "/v2/r/manifests/base", u.base, hdr("Content-Type", mtImage)), 201, "base")
		switch childState {
		case "manifest":
			must(doReq(ws, "PUT", "/v2/r/manifests/"+u.childD, u.child, hdr("Content-Type", mtImage)), 201, "child")
		case "blob only":
			must(doReq(ws, "POST", "/v2/r/blobs/uploads/?digest="+u.childD, u.child, nil), 201, "child as a blob")
		}
		if withX {
			must(doReq(ws, "PUT", "/v2/r/manifests/t", u.x, hdr("Content-Type", mtImage)), 201, "X")
		}
		if withArt {
			must(doReq(ws, "PUT", "/v2/r/manifests/"+u.art1D, u.art1, hdr("Content-Type", mtImage)), 201, "artifact1")
		}
		if withLayer {
			must(doReq(ws, "POST", "/v2/r/blobs/uploads/?digest="+u.ld, u.layer, nil), 201, "layer")
		}
		_ = ws.Close()
	}
	vfs.Reset("", false)
	defer vfs.Reset("", false)
	// one execution on a fresh copy; order: 0 = R1;R2, 1 = R2;R1, 2 = R1 paused before its k-th call, R2 in the gap
	exec := func(order, k int) (c11iOutcome, int) {
		root := filepath.Join(tmp, fmt.Sprintf("run%d", order))
		copyTree(src, root)
		defer os.RemoveAll(root)
		srv := olareg.New(conf(root))
		var o c11iOutcome
		steps := 0
		switch order {
		case 0:
			// the repository is loaded by a first read, as it is in the other executions, so that k counts R1's own calls
			_ = doReq(srv, "GET", "/v2/r/tags/list", nil, nil)
			vfs.Reset(root, false)
			o.r1 = R1.run(srv).code
			steps = vfs.Steps()
			o.r2 = R2.run(srv).code
		case 1:
			_ = doReq(srv, "GET", "/v2/r/tags/list", nil, nil)
			o.r2 = R2.run(srv).code
			o.r1 = R1.run(srv).code
		case 2:
			_ = doReq(srv, "GET", "/v2/r/tags/list", nil, nil)
			vfs.Reset(root, false)
			done := make(chan int, 1)
			started := false
			vfs.PauseAtStep(k, func() {
				started = true
				go func() { done <- R2.run(srv).code }()
				select {
				case c := <-done:
					o.inGap = true
					done <- c
				case <-time.After(100 * time.Millisecond): // R2 waits for something R1 holds: it finishes after R1
				}
			})
			o.r1 = R1.run(srv).code
			vfs.PauseAtStep(0, nil)
			if !started {
				go func() { done <- R2.run(srv).code }()
			}
			select {
			case o.r2 = <-done:
			case <-time.After(20 * time.Second):
				o.r2 = -1
			}
		}
		vfs.Reset("", false)
		o.state = u.observe(srv)
		_ = srv.Close()
		srv = olareg.New(conf(root))
		o.again = u.observe(srv)
		_ = srv.Close()
		return o, steps
	}
	a, steps := exec(0, 0)
	b, _ := exec(1, 0)
	if steps == 0 {
		steps = 1
	}
	trace := []string{initial, "R1: " + R1.name, "R2: " + R2.name}
	fail := func(key, f string, x ...any) { Fail(t, st, key, fmt.Sprintf(f, x...), trace, nil) }
	both := R1.del && R2.del
	differ := a.key(both) != b.key(both)
	// up to three pause points: where R1 holds the repository, R2 can only wait (that execution is checked all the same)
	var c c11iOutcome
	k := 0
	for attempt := 0; attempt < 3; attempt++ {
		k = rapid.IntRange(1, steps).Draw(t, "pauseBeforeCall")
		c, _ = exec(2, k)
		trace = append(trace, fmt.Sprintf("R1 makes %d file-system calls alone; paused before call %d; R2 ran inside the gap: %v", steps, k, c.inGap))
		c11iJudge(fail, R1, R2, a, b, c, both, k, typePair(R1, R2) || typePair(R2, R1))
		if c.inGap {
			break
		}
	}
	st.Case(trace, c.inGap && differ, "R1:"+R1.name, "R2:"+R2.name, fmt.Sprintf("R2 inside the gap:%v", c.inGap), fmt.Sprintf("sequential orders differ:%v", differ))
}

func c11iJudge(fail func(string, string, ...any), R1, R2 c11iReq, a, b, c c11iOutcome, both bool, k int, isTypePair bool) {
	if c.r2 == -1 {
		fail("request-stuck", "R2 did not finish within 20 s after R1 had returned")
	}
	for _, code := range []int{c.r1, c.r2} {
		if code >= 500 {
			fail("server-error", "interleaved execution answered R1=%d R2=%d", c.r1, c.r2)
		}
	}
	if c.key(both) != a.key(both) && c.key(both) != b.key(both) {
		key := "not-serializable"
		if isTypePair {
			key = "index-child-type-check-not-atomic"
		}
		fail(key, "the interleaved execution agrees with neither sequential order.\n=== interleaved (R1 paused before call %d, R2 in the gap: %v)\n%s\n=== R1;R2\n%s\n=== R2;R1\n%s", k, c.inGap, c.key(both), a.key(both), b.key(both))
	}
}

func TestC11Interleave(t *testing.T) {
	st := newStats("TestC11Interleave", "C11", c11iRule)
	rapid.Check(t, func(rt *rapid.T) { c11iProperty(rt, st) })
}

// TestKF_C11_IndexChildTypeCheck reproduces the listed finding with an owned schedule: the push of an index that lists
// the child under another media type is paused where it opens the child's blob (it has taken its copy of the repository
// index, against which the child's media type is checked, by then), the child is pushed in that gap.
func TestKF_C11_IndexChildTypeCheck(t *testing.T) {
	st := newStats("TestKF_C11_IndexChildTypeCheck", "C11", "reproducer")
	u := newC11iUniverse()
	root := mkTemp("kf11i")
	defer os.RemoveAll(root)
	srv := olareg.New(baseConf(config.StoreDir, root))
	defer func() { _ = srv.Close() }()
	kfPush(t, srv, "r", u.cfg)
	kfPush(t, srv, "r", u.child) // the child's bytes are there as a blob, it is not a manifest yet
	vfs.Reset(root, false)
	defer vfs.Reset("", false)
	childCode := 0
	// the index push has taken its copy of the repository index when it opens the child's blob
	vfs.PauseAt("open", "/r/blobs/sha256/"+u.childD[7:], func() {
		childCode = doReq(srv, "PUT", "/v2/r/manifests/"+u.childD, u.child, hdr("Content-Type", mtImage)).code
	})
	idxCode := doReq(srv, "PUT", "/v2/r/manifests/multi2", u.idxDocker, hdr("Content-Type", mtIndex)).code
	vfs.PauseAt("", "", nil)
	g := doReq(srv, "GET", "/v2/r/manifests/"+u.childD, nil, hdr("Accept", acceptAll))
	// sequentially: child first -> the index is refused (400, the child is recorded as an OCI image); index first -> the
	// later push of the child records its real type. Both accepted and the docker type served fits neither order.
	if idxCode == 201 && childCode == 201 && g.hdr.Get("Content-Type") != mtImage {
		Fail(kfT{t}, st, "index-child-type-check-not-atomic", fmt.Sprintf("index push (lists the child as %s) paused after its media type check, child pushed as %s in the gap: both acknowledged (201, 201), GET child answers %d Content-Type %s; in either sequential order the child is served as %s", mtDImage, mtImage, g.code, g.hdr.Get("Content-Type"), mtImage),
			[]string{"upload the child's bytes as a blob", "PUT index [child as docker manifest] under tag multi2 - paused where it opens the child's blob", "PUT child by digest (Content-Type OCI image manifest) - complete", "index PUT continues", "GET child by digest"}, nil)
	}
}
