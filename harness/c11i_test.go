//go:build verifvfs

package vh

// C11, owned schedules for pairs of requests: "behave as if executed one at a time". TestC11 samples the schedules
// the Go scheduler happens to produce; windows of a few instructions between a handler's check and its update are
// hit rarely or never. Here the harness owns the schedule: request R1 is paused before its k-th file-system call
// (directory store; k runs over all of them), request R2 runs completely in that gap (or, when it needs something R1
// holds, right after R1), then R1 continues. No model is needed for the oracle: the same two requests are executed
// one after the other, in both orders, on two more copies of the same directory, and the interleaved execution must
// agree with one of them - in the answers both clients got and in everything that can be read afterwards, also after
// a restart.

import (
	"fmt"
	"os"
	"testing"

	"pgregory.net/rapid"

	"github.com/olareg/olareg"
	"github.com/olareg/olareg/config"
	"github.com/olareg/olareg/internal/vfs"
)

var c11iVfsSched = c11iSched{
	name: "vfs", stores: []string{"dir"}, unit: "file-system calls",
	begin:   func(root string) { vfs.Reset(root, false) },
	steps:   func() int { n := vfs.Steps(); vfs.PauseAtStep(0, nil); return n },
	pauseAt: func(root string, k int, fn func()) { vfs.Reset(root, false); vfs.PauseAtStep(k, fn) },
	end:     func() { vfs.Reset("", false) },
}

const c11iRule = "TestC11Interleave: directory store with a generated initial content (image under a tag, child manifest present as manifest / as a blob only / absent, artifact present or not); two write requests R1, R2 from " +
	"{push image by tag, push another image under the same tag, push by digest, push index over the child (OCI or docker media type), push the child, delete tag, delete manifest by digest, push artifact 1/2 of one subject, " +
	"delete artifact, delete a layer blob, push image using that layer, upload the layer}; R1 is paused before its k-th file-system call (k uniform over the calls R1 makes alone), R2 runs in the gap; oracle = (answers, readable state, " +
	"readable state after restart) equal those of R1;R2 or of R2;R1 executed sequentially on copies of the same directory; readable state = tag listing, every manifest of the universe by digest (status, Content-Type), " +
	"every tag (status, digest), referrers of the subject (set), blobs (status); non-trivial = R2 ran inside the gap (not after R1) and the two sequential orders differ in answers or state; distinct = (initial content, R1, R2, k)"

func TestC11Interleave(t *testing.T) {
	st := newStats("TestC11Interleave", "C11", c11iRule)
	rapid.Check(t, func(rt *rapid.T) { c11iProperty(rt, st, c11iVfsSched) })
}

// TestKF_C11_IndexChildTypeCheck reproduces the listed finding with an owned schedule: the push of an index that lists
// the child under another media type is paused where it opens the child's blob (it has taken its copy of the repository
// index, against which the child's media type is checked, by then), the child is pushed in that gap.
func TestKF_C11_IndexChildTypeCheck(t *testing.T) {
	st := newStats("TestKF_C11_IndexChildTypeCheck", "C11", "reproducer")
	u := newC11iUniverse()
	root := mkTemp("kf11i")
	defer os.RemoveAll(root)
	srv := olareg.New(baseConf(config.StoreDir, root))
	defer func() { _ = srv.Close() }()
	kfPush(t, srv, "r", u.cfg)
	kfPush(t, srv, "r", u.child) // the child's bytes are there as a blob, it is not a manifest yet
	vfs.Reset(root, false)
	defer vfs.Reset("", false)
	childCode := 0
	// the index push has taken its copy of the repository index when it opens the child's blob
	vfs.PauseAt("open", "/r/blobs/sha256/"+u.childD[7:], func() {
		childCode = doReq(srv, "PUT", "/v2/r/manifests/"+u.childD, u.child, hdr("Content-Type", mtImage)).code
	})
	idxCode := doReq(srv, "PUT", "/v2/r/manifests/multi2", u.idxDocker, hdr("Content-Type", mtIndex)).code
	vfs.PauseAt("", "", nil)
	g := doReq(srv, "GET", "/v2/r/manifests/"+u.childD, nil, hdr("Accept", acceptAll))
	// sequentially: child first -> the index is refused (400, the child is recorded as an OCI image); index first -> the
	// later push of the child records its real type. Both accepted and the docker type served fits neither order.
	if idxCode == 201 && childCode == 201 && g.hdr.Get("Content-Type") != mtImage {
		Fail(kfT{t}, st, "index-child-type-check-not-atomic", fmt.Sprintf("index push (lists the child as %s) paused after its media type check, child pushed as %s in the gap: both acknowledged (201, 201), GET child answers %d Content-Type %s; in either sequential order the child is served as %s", mtDImage, mtImage, g.code, g.hdr.Get("Content-Type"), mtImage),
			[]string{"upload the child's bytes as a blob", "PUT index [child as docker manifest] under tag multi2 - paused where it opens the child's blob", "PUT child by digest (Content-Type OCI image manifest) - complete", "index PUT continues", "GET child by digest"}, nil)
	}
}
