package vh

// Generator of pre-existing OCI layouts whose referrers were maintained with the fallback tag scheme
// (tags <alg>-<hex> pointing to an index of referrers). Used by C17 (conversion) and C14 (read-only serving).

import (
	"encoding/json"
	"fmt"
	"os"
	"path/filepath"
	"sort"
	"strings"

	"pgregory.net/rapid"
)

type legacyArt struct {
	desc    mdesc  // the descriptor a correct referrers response carries for it
	raw     []byte // manifest bytes
	subject string
	present bool // blob exists in the layout
}

type legacyLayout struct {
	root, repo string
	dir        string
	blobs      map[string][]byte // every blob file written
	index      []mdesc           // entries of index.json
	tags       map[string]string // non-fallback tags -> digest
	manifests  map[string]string // digest -> media type of every manifest listed or reachable (present ones)
	subjects   []string
	arts       []*legacyArt
	want       map[string]map[string]mdesc // subject -> digest -> expected descriptor
	desc       []string
	adoptable  int // fallback indexes that can be adopted as they are
	regenerate int // fallback indexes that need a regenerated response
	converted  bool
	bareIndex  bool // index.json as other tools write it: without the optional mediaType
}

func (l *legacyLayout) blob(alg string, b []byte) string {
	d := dig(alg, b)
	p := filepath.Join(l.dir, "blobs", alg)
	_ = os.MkdirAll(p, 0o755)
	_ = os.WriteFile(filepath.Join(p, d[len(alg)+1:]), b, 0o644)
	l.blobs[d] = b
	return d
}

func (l *legacyLayout) finish() {
	_ = os.MkdirAll(l.dir, 0o755)
	_ = os.WriteFile(filepath.Join(l.dir, "oci-layout"), []byte(`{"imageLayoutVersion":"1.0.0"}`), 0o644)
	type idx struct {
		SchemaVersion int               `json:"schemaVersion"`
		MediaType     string            `json:"mediaType,omitempty"`
		Manifests     []mdesc           `json:"manifests"`
		Annotations   map[string]string `json:"annotations,omitempty"`
	}
	i := idx{SchemaVersion: 2, MediaType: mtIndex, Manifests: l.index}
	if l.bareIndex {
		i.MediaType = ""
	}
	if i.Manifests == nil {
		i.Manifests = []mdesc{} // a valid layout: "manifests" is an array, also when it is empty
	}
	if l.converted {
		i.Annotations = map[string]string{"org.olareg.referrer.convert": "true"}
	}
	b, _ := json.Marshal(i)
	_ = os.WriteFile(filepath.Join(l.dir, "index.json"), b, 0o644)
}

func fallbackTag(subject string) string {
	alg, hexv, _ := strings.Cut(subject, ":")
	if len(hexv) > 64 {
		hexv = hexv[:64]
	}
	return alg + "-" + hexv
}

func marshalIndex(ents []mdesc) []byte {
	if ents == nil {
		ents = []mdesc{}
	}
	type idx struct {
		SchemaVersion int     `json:"schemaVersion"`
		MediaType     string  `json:"mediaType"`
		Manifests     []mdesc `json:"manifests"`
	}
	b, _ := json.Marshal(idx{2, mtIndex, ents})
	return b
}

// genLegacyLayout draws a layout and writes it under root/repo.
// simple = only shapes whose conversion needs no new blob (adoptable or nothing to convert).
func genLegacyLayout(t *rapid.T, root, repo string, simpleOnly bool) *legacyLayout {
	l := &legacyLayout{root: root, repo: repo, dir: filepath.Join(root, repo), blobs: map[string][]byte{}, tags: map[string]string{}, manifests: map[string]string{}, want: map[string]map[string]mdesc{}}
	cfg := l.blob("sha256", []byte("{}"))
	layer := l.blob("sha256", []byte("legacy layer"))
	// subjects
	nsub := rapid.SampledFrom([]int{1, 2, 2, 3, 3, 4}).Draw(t, "nSubjects")
	for i := 0; i < nsub; i++ {
		alg := rapid.SampledFrom([]string{"sha256", "sha256", "sha256", "sha512"}).Draw(t, "subjectAlg")
		raw, _ := buildImage(mtImage, mtConfig, cfg, 2, []string{layer}, []int{12}, nil, "", map[string]string{"subject": fmt.Sprint(i)})
		d := dig(alg, raw)
		if rapid.IntRange(0, 3).Draw(t, "subjectPresent") > 0 {
			l.blob(alg, raw)
			tag := fmt.Sprintf("subj%d", i)
			l.index = append(l.index, mdesc{MediaType: mtImage, Digest: d, Size: int64(len(raw)), Annotations: map[string]string{annRefNameL: tag}})
			l.tags[tag] = d
			l.manifests[d] = mtImage
		}
		l.subjects = append(l.subjects, d)
	}
	// referrer manifests
	nart := rapid.SampledFrom([]int{0, 1, 2, 3, 4, 5, 6, 7}).Draw(t, "nArtifacts")
	for i := 0; i < nart; i++ {
		sd := rapid.SampledFrom(l.subjects).Draw(t, "artifactSubject")
		at := rapid.SampledFrom([]string{"", "application/vnd.x.a", "application/vnd.x.b"}).Draw(t, "artifactType")
		var ann map[string]string
		if rapid.Bool().Draw(t, "annotated") {
			ann = map[string]string{"k": fmt.Sprint(i)}
		} else {
			ann = map[string]string{"i": fmt.Sprint(i)} // keeps digests distinct
		}
		subj := &mdesc{MediaType: mtImage, Digest: sd, Size: 10}
		var raw []byte
		var mm *mman
		if rapid.IntRange(0, 4).Draw(t, "indexArtifact") == 0 {
			raw, mm = buildIndex(mtIndex, nil, subj, at, ann)
		} else {
			raw, mm = buildImage(mtImage, "application/vnd.x.config", cfg, 2, nil, nil, subj, at, ann)
		}
		a := &legacyArt{raw: raw, subject: sd, present: rapid.IntRange(0, 5).Draw(t, "artifactPresent") > 0}
		d := dig("sha256", raw)
		a.desc = mdesc{MediaType: mm.mt, Digest: d, Size: int64(len(raw)), ArtifactType: mm.at, Annotations: ann}
		if a.present {
			l.blob("sha256", raw)
		}
		l.arts = append(l.arts, a)
	}
	l.converted = !simpleOnly && rapid.IntRange(0, 9).Draw(t, "alreadyConverted") == 0
	addWant := func(a *legacyArt) {
		if !a.present {
			return
		}
		if l.want[a.subject] == nil {
			l.want[a.subject] = map[string]mdesc{}
		}
		l.want[a.subject][a.desc.Digest] = a.desc
		l.manifests[a.desc.Digest] = a.desc.MediaType // reachable through its referrers response
	}
	// fallback indexes, one per subject at most (tags are unique)
	for si, sd := range l.subjects {
		if len(l.arts) == 0 || rapid.IntRange(0, 5).Draw(t, "hasFallback") == 0 {
			continue
		}
		kinds := []string{"accurate", "accurate", "stale-missing-entry", "foreign-subject-entry", "missing-blob-entry", "mixed", "wrong-fields", "empty", "lists-subjectless"}
		if simpleOnly {
			kinds = []string{"accurate", "accurate", "stale-missing-entry", "empty"}
		}
		kind := rapid.SampledFrom(kinds).Draw(t, "fallbackKind")
		ents := []mdesc{}
		listed := []*legacyArt{}
		mine, others := []*legacyArt{}, []*legacyArt{}
		for _, a := range l.arts {
			if a.subject == sd {
				mine = append(mine, a)
			} else {
				others = append(others, a)
			}
		}
		adoptable := true
		add := func(a *legacyArt, perturb string) {
			e := a.desc
			switch perturb {
			case "size":
				e.Size++
			case "artifactType":
				e.ArtifactType = "application/vnd.x.wrong"
			case "annotations":
				e.Annotations = map[string]string{"wrong": "1"}
			case "mediaType":
				if e.MediaType == mtImage {
					e.MediaType = mtDImage
				} else {
					e.MediaType = mtDIndex
				}
			}
			ents = append(ents, e)
			listed = append(listed, a)
		}
		for _, a := range mine {
			if kind == "stale-missing-entry" && rapid.Bool().Draw(t, "dropEntry") {
				continue // a referrer the fallback index never listed: not part of the conversion
			}
			if !a.present && kind != "missing-blob-entry" && kind != "mixed" {
				continue
			}
			p := ""
			if kind == "wrong-fields" {
				p = rapid.SampledFrom([]string{"size", "artifactType", "annotations", "mediaType", ""}).Draw(t, "perturb")
			}
			add(a, p)
			if p != "" || !a.present {
				adoptable = false
			}
		}
		if (kind == "foreign-subject-entry" || kind == "mixed") && len(others) > 0 {
			n := rapid.IntRange(1, min(2, len(others))).Draw(t, "nForeign")
			for j := 0; j < n; j++ {
				add(others[j], "")
				adoptable = false
			}
		}
		if kind == "empty" {
			ents, listed = []mdesc{}, nil
		}
		ordinary := false
		if kind == "lists-subjectless" {
			// besides the referrers the index lists a manifest that names no subject (the subject image itself, the way
			// some tools build their listings) at the front, in the middle or at the end: that entry is no referrer, the
			// others are converted all the same. With no genuine referrer left it is an ordinary index under an odd tag.
			raw, _ := buildImage(mtImage, mtConfig, cfg, 2, nil, nil, nil, "", map[string]string{"subjectless": fmt.Sprint(si)})
			e := mdesc{MediaType: mtImage, Digest: l.blob("sha256", raw), Size: int64(len(raw))}
			pos := rapid.IntRange(0, len(ents)).Draw(t, "subjectlessAt")
			ents = append(ents[:pos:pos], append([]mdesc{e}, ents[pos:]...)...)
			adoptable = false
			ordinary = len(listed) == 0
		}
		// an index whose entries all name one (other) subject is adoptable for that subject
		if len(listed) > 0 {
			allSame, allPresent := true, true
			for _, a := range listed {
				if a.subject != listed[0].subject {
					allSame = false
				}
				if !a.present {
					allPresent = false
				}
			}
			if allSame && allPresent && kind != "wrong-fields" && kind != "lists-subjectless" {
				adoptable = true
			}
			if kind == "wrong-fields" {
				for j, a := range listed {
					if fmt.Sprint(ents[j]) != fmt.Sprint(a.desc) {
						adoptable = false
					}
				}
			}
		}
		if simpleOnly && !adoptable {
			continue
		}
		raw := marshalIndex(ents)
		fd := l.blob("sha256", raw)
		l.index = append(l.index, mdesc{MediaType: mtIndex, Digest: fd, Size: int64(len(raw)), Annotations: map[string]string{annRefNameL: fallbackTag(sd)}})
		l.desc = append(l.desc, fmt.Sprintf("fallback(s%d,%s,%d entries,adoptable=%v)", si, kind, len(ents), adoptable))
		if ordinary {
			l.tags[fallbackTag(sd)] = fd
			l.manifests[fd] = mtIndex
		}
		// the same index may carry an ordinary tag as well (listed before or after the fallback entry): one of the "other tags"
		if !simpleOnly && rapid.IntRange(0, 4).Draw(t, "secondTagOnFallbackIndex") == 0 {
			tag := fmt.Sprintf("keep%d", si)
			ent := mdesc{MediaType: mtIndex, Digest: fd, Size: int64(len(raw)), Annotations: map[string]string{annRefNameL: tag}}
			if n := len(l.index); rapid.Bool().Draw(t, "secondTagFirst") {
				l.index = append(l.index[:n-1:n-1], ent, l.index[n-1])
			} else {
				l.index = append(l.index, ent)
			}
			l.tags[tag] = fd
			l.manifests[fd] = mtIndex
			l.desc = append(l.desc, fmt.Sprintf("second tag %s on the fallback index of s%d", tag, si))
		}
		if !l.converted {
			for _, a := range listed {
				addWant(a)
			}
			if len(ents) > 0 && !ordinary {
				if adoptable {
					l.adoptable++
				} else {
					l.regenerate++
				}
			}
		} else {
			// already converted: fallback tags are ordinary tags
			l.tags[fallbackTag(sd)] = fd
			l.manifests[fd] = mtIndex
		}
	}
	// a pre-existing converted response (accurate) for one subject, with or without the convert annotation
	if !simpleOnly && len(l.arts) > 0 && rapid.IntRange(0, 4).Draw(t, "preExistingResponse") == 0 {
		a := rapid.SampledFrom(l.arts).Draw(t, "responseArt")
		if a.present {
			raw := marshalIndex([]mdesc{a.desc})
			rd := l.blob("sha256", raw)
			l.index = append(l.index, mdesc{MediaType: mtIndex, Digest: rd, Size: int64(len(raw)), Annotations: map[string]string{annSubjectL: a.subject}})
			addWant(a)
			l.desc = append(l.desc, "pre-existing response for "+short(a.subject))
			if !l.converted {
				l.regenerate++ // merging it with a fallback index of the same subject may need a new response blob
			}
		}
	}
	// a tag that has the FORM of a fallback tag but points to an ordinary image index (platform images, no entry has a
	// subject) - e.g. an index mirrored under its own digest as a tag, the way the repository's test data mirrors an
	// image. It is not "an index of referrers": one of the other tags, to be kept.
	if !simpleOnly && rapid.IntRange(0, 4).Draw(t, "lookAlikeTag") == 0 {
		p1, _ := buildImage(mtImage, mtConfig, cfg, 2, nil, nil, nil, "", map[string]string{"platform": "1"})
		p2, _ := buildImage(mtImage, mtConfig, cfg, 2, nil, nil, nil, "", map[string]string{"platform": "2"})
		d1, d2 := l.blob("sha256", p1), dig("sha256", p2)
		sparse := rapid.Bool().Draw(t, "sparseCopy") // a copy of one platform only, as other tools make it: the second child is listed but not there
		if !sparse {
			l.blob("sha256", p2)
		}
		iraw, _ := buildIndex(mtIndex, []mdesc{{MediaType: mtImage, Digest: d1, Size: int64(len(p1))}, {MediaType: mtImage, Digest: d2, Size: int64(len(p2))}}, nil, "", map[string]string{"multi": "platform"})
		id := l.blob("sha256", iraw)
		tag := "sha256-" + id[7:]
		if rapid.Bool().Draw(t, "lookAlikeOfOtherDigest") {
			tag = "sha256-" + dig("sha256", []byte("some other digest"))[7:]
		}
		l.index = append(l.index, mdesc{MediaType: mtIndex, Digest: id, Size: int64(len(iraw)), Annotations: map[string]string{annRefNameL: tag}})
		l.tags[tag] = id
		l.manifests[id] = mtIndex
		l.desc = append(l.desc, fmt.Sprintf("ordinary index under a tag of the fallback form (sparse copy: %v)", sparse))
	}
	// unrelated content: a tagged image, an untagged image, a nested index, a stray blob
	for i, n := 0, rapid.IntRange(0, 2).Draw(t, "nUnrelated"); i < n; i++ {
		raw, _ := buildImage(mtImage, mtConfig, cfg, 2, nil, nil, nil, "", map[string]string{"unrelated": fmt.Sprint(i)})
		d := l.blob("sha256", raw)
		e := mdesc{MediaType: mtImage, Digest: d, Size: int64(len(raw))}
		if rapid.Bool().Draw(t, "unrelatedTagged") {
			tag := fmt.Sprintf("other%d", i)
			e.Annotations = map[string]string{annRefNameL: tag}
			l.tags[tag] = d
		}
		l.manifests[d] = mtImage
		if rapid.IntRange(0, 2).Draw(t, "nestInIndex") == 0 {
			iraw, _ := buildIndex(mtIndex, []mdesc{{MediaType: mtImage, Digest: d, Size: int64(len(raw))}}, nil, "", map[string]string{"nest": fmt.Sprint(i)})
			id := l.blob("sha256", iraw)
			tag := fmt.Sprintf("nest%d", i)
			l.index = append(l.index, mdesc{MediaType: mtIndex, Digest: id, Size: int64(len(iraw)), Annotations: map[string]string{annRefNameL: tag}})
			l.tags[tag] = id
			l.manifests[id] = mtIndex
			l.desc = append(l.desc, "nested index")
			if e.Annotations == nil {
				continue // child only reachable through its parent
			}
		}
		l.index = append(l.index, e)
	}
	l.blob("sha256", []byte("stray blob"))
	if rapid.IntRange(0, 3).Draw(t, "indexWithoutMediaType") == 0 {
		l.bareIndex = true
		l.desc = append(l.desc, "index.json without mediaType")
	}
	l.finish()
	sort.Strings(l.desc)
	return l
}

const (
	annRefNameL = "org.opencontainers.image.ref.name"
	annSubjectL = "org.olareg.referrer.subject"
)
