package vh

// C19, metamorphic: "toggling push, delete, blob delete, referrers, read-only, store type ... changes exactly the
// corresponding externally observable behaviour for every combination of the settings".
// One directory is written once; two servers are then opened on copies of it whose settings differ in exactly one
// switch. Every request of a fixed probe set must get the same answer from both - except the probes that the flag help
// attaches to the toggled switch, whose answers are given by the table of c19Expect.

import (
	"fmt"
	"os"
	"path/filepath"
	"sort"
	"strings"
	"testing"

	"pgregory.net/rapid"

	"github.com/olareg/olareg"
	"github.com/olareg/olareg/config"
)

const c19tRule = "TestC19Toggle: a directory written by a server with the referrers API on or off (tagged image, index over a child pushed by digest, artifact with subject, second repository); a vector of " +
	"{push, delete, blob delete, referrers, read-only, store dir|mem over the directory, warnings, rate limit 1000, gc disabled, manifest limit 200 bytes, one upload per repository} is drawn and one switch of it is toggled; both settings serve a copy of the directory and answer the same probes (reads by tag and digest, " +
	"blobs, tag listing, referrers, then blob upload, manifest push, tag delete, blob delete); oracle = answers equal between the two except on the probes the toggled switch governs, where each side follows the documented " +
	"table (405 when the API is off, 403 when read-only, 404 referrers when disabled); status and body of reads are compared; non-trivial = the vector differs from the defaults in >=1 other switch; distinct = (writer setting, vector, toggled switch)"

type c19tVec struct {
	push, del, blobDel, referrer, ro, mem bool
	// settings whose documented effect is none on these probes, or a header, or one kind of request only
	warnings      bool // two warning texts: a Warning header pair on every response, nothing else
	rateLimit     bool // 1000 requests per second instead of unlimited: nothing within the limit
	gcDisabled    bool // negative gc frequency instead of an idle ticker: nothing without a collection
	manifestLimit bool // manifests limited to 200 bytes: every manifest push is refused, reads are not concerned
	uploadMax     bool // one upload session per repository instead of the default: nothing for one session at a time
}

func (v c19tVec) String() string {
	return fmt.Sprintf("push=%v delete=%v blobDelete=%v referrer=%v readOnly=%v store=%s warnings=%v rateLimit=%v gcDisabled=%v manifestLimit200=%v uploadMax1=%v", v.push, v.del, v.blobDel, v.referrer, v.ro,
		map[bool]string{true: "mem over dir", false: "dir"}[v.mem], v.warnings, v.rateLimit, v.gcDisabled, v.manifestLimit, v.uploadMax)
}

func (v c19tVec) conf(root string) config.Config {
	kind := config.StoreDir
	if v.mem {
		kind = config.StoreMem
	}
	c := baseConf(kind, root)
	c.API.PushEnabled, c.API.DeleteEnabled, c.API.Blob.DeleteEnabled, c.API.Referrer.Enabled, c.Storage.ReadOnly = bp(v.push), bp(v.del), bp(v.blobDel), bp(v.referrer), bp(v.ro)
	if v.warnings {
		c.API.Warnings = []string{"first warning", "second warning"}
	}
	if v.rateLimit {
		c.API.RateLimit = 1000
	}
	if v.gcDisabled {
		c.Storage.GC.Frequency = -1
	}
	if v.manifestLimit {
		c.API.Manifest.Limit = 200
	}
	if v.uploadMax {
		c.Storage.GC.RepoUploadMax = 1
	}
	return c
}

type c19tAnswer struct {
	name string
	code int
	body string
	subj string // OCI-Subject header
	warn string // Warning headers
}

// c19tProbe runs the probe set against a server on its own copy of the directory.
func c19tProbe(v c19tVec, src string, names map[string]string) []c19tAnswer {
	root := mkTemp("c19t")
	defer os.RemoveAll(root)
	dir := filepath.Join(root, "data")
	copyTree(src, dir)
	srv := olareg.New(v.conf(dir))
	defer func() { _ = srv.Close() }()
	out := []c19tAnswer{}
	wh := func(r resp) string { return strings.Join(r.hdr.Values("Warning"), " | ") }
	rd := func(name, path string) {
		r := doReq(srv, "GET", path, nil, hdr("Accept", acceptAll))
		out = append(out, c19tAnswer{name: name, code: r.code, body: string(r.body), warn: wh(r)})
	}
	rd("manifest by tag", "/v2/pre/manifests/v1")
	rd("manifest by digest", "/v2/pre/manifests/"+names["img"])
	rd("index by tag", "/v2/pre/manifests/multi")
	rd("child of the index by digest", "/v2/pre/manifests/"+names["child"])
	rd("artifact by digest", "/v2/pre/manifests/"+names["art"])
	rd("config blob", "/v2/pre/blobs/"+names["cfg"])
	rd("layer blob", "/v2/pre/blobs/"+names["layer"])
	rd("tag listing", "/v2/pre/tags/list")
	rd("tag listing of the second repository", "/v2/second/tags/list")
	rd("manifest of the second repository", "/v2/second/manifests/latest")
	rd("unknown manifest", "/v2/pre/manifests/nosuch")
	rd("unknown repository", "/v2/nosuch/tags/list")
	rd("referrers", "/v2/pre/referrers/"+names["img"])
	rd("referrers filtered", "/v2/pre/referrers/"+names["img"]+"?artifactType=application/vnd.x.sig")
	// writes, each on fresh content
	nb := []byte("a new blob")
	r := doReq(srv, "POST", "/v2/pre/blobs/uploads/?digest="+dig("sha256", nb), nb, nil)
	out = append(out, c19tAnswer{name: "blob upload", code: r.code, warn: wh(r)})
	r = doReq(srv, "POST", "/v2/pre/blobs/uploads/", nil, nil)
	out = append(out, c19tAnswer{name: "upload session", code: r.code, warn: wh(r)})
	nimg, _ := buildImage(mtImage, mtConfig, names["cfg"], 2, nil, nil, nil, "", map[string]string{"new": "1"})
	r = doReq(srv, "PUT", "/v2/pre/manifests/v2", nimg, hdr("Content-Type", mtImage))
	out = append(out, c19tAnswer{name: "manifest push", code: r.code, warn: wh(r)})
	nart, _ := buildImage(mtImage, mtConfig, names["cfg"], 2, nil, nil, &mdesc{MediaType: mtImage, Digest: names["img"], Size: 1}, "application/vnd.x.sbom", nil)
	r = doReq(srv, "PUT", "/v2/pre/manifests/"+dig("sha256", nart), nart, hdr("Content-Type", mtImage))
	out = append(out, c19tAnswer{name: "artifact push", code: r.code, subj: r.hdr.Get("OCI-Subject"), warn: wh(r)})
	r = doReq(srv, "DELETE", "/v2/second/manifests/latest", nil, nil)
	out = append(out, c19tAnswer{name: "tag delete", code: r.code, warn: wh(r)})
	r = doReq(srv, "DELETE", "/v2/pre/manifests/"+names["art"], nil, nil)
	out = append(out, c19tAnswer{name: "manifest delete by digest", code: r.code, warn: wh(r)})
	r = doReq(srv, "DELETE", "/v2/pre/blobs/"+names["layer"], nil, nil)
	out = append(out, c19tAnswer{name: "blob delete", code: r.code, warn: wh(r)})
	// reads after the writes: what was refused changed nothing, what was accepted is visible
	rd("tag listing afterwards", "/v2/pre/tags/list")
	rd("manifest by tag afterwards", "/v2/pre/manifests/v1")
	return out
}

// c19tGoverned: the probes whose answer the switch is documented to change.
func c19tGoverned(sw string) map[string]bool {
	switch sw {
	case "push":
		return map[string]bool{"blob upload": true, "upload session": true, "manifest push": true, "artifact push": true, "tag listing afterwards": true}
	case "delete":
		return map[string]bool{"tag delete": true, "manifest delete by digest": true, "blob delete": true}
	case "blobDelete":
		return map[string]bool{"blob delete": true}
	case "referrer":
		// the endpoint, and the header that tells a client the server maintains the referrers
		return map[string]bool{"referrers": true, "referrers filtered": true, "artifact push": true}
	case "readOnly":
		return map[string]bool{"blob upload": true, "upload session": true, "manifest push": true, "artifact push": true, "tag delete": true, "manifest delete by digest": true, "blob delete": true, "tag listing afterwards": true}
	case "manifestLimit":
		return map[string]bool{"manifest push": true, "artifact push": true, "tag listing afterwards": true}
	}
	return map[string]bool{} // the store type changes where writes go, not what is answered; warnings: a header; the others: nothing
}

func c19tProperty(t *rapid.T, st *Stats) {
	writerReferrer := rapid.IntRange(0, 3).Draw(t, "writtenWithReferrersAPI") > 0
	v := c19tVec{push: rapid.IntRange(0, 3).Draw(t, "push") > 0, del: rapid.Bool().Draw(t, "delete"), blobDel: rapid.Bool().Draw(t, "blobDelete"), referrer: rapid.IntRange(0, 3).Draw(t, "referrer") > 0,
		ro: rapid.IntRange(0, 3).Draw(t, "readOnly") == 0, mem: rapid.IntRange(0, 2).Draw(t, "memOverDir") == 0}
	v.warnings, v.rateLimit, v.gcDisabled = rapid.IntRange(0, 3).Draw(t, "warnings") == 0, rapid.IntRange(0, 3).Draw(t, "rateLimit") == 0, rapid.IntRange(0, 3).Draw(t, "gcDisabled") == 0
	v.manifestLimit, v.uploadMax = rapid.IntRange(0, 5).Draw(t, "manifestLimit") == 0, rapid.IntRange(0, 3).Draw(t, "uploadMax") == 0
	sw := rapid.SampledFrom([]string{"push", "delete", "blobDelete", "referrer", "readOnly", "store", "push", "delete", "blobDelete", "referrer", "readOnly", "store", "warnings", "rateLimit", "gcDisabled", "manifestLimit", "uploadMax"}).Draw(t, "toggle")
	w := v
	switch sw {
	case "push":
		w.push = !w.push
	case "delete":
		w.del = !w.del
	case "blobDelete":
		w.blobDel = !w.blobDel
	case "referrer":
		w.referrer = !w.referrer
	case "readOnly":
		w.ro = !w.ro
	case "store":
		w.mem = !w.mem
	case "warnings":
		w.warnings = !w.warnings
	case "rateLimit":
		w.rateLimit = !w.rateLimit
	case "gcDisabled":
		w.gcDisabled = !w.gcDisabled
	case "manifestLimit":
		w.manifestLimit = !w.manifestLimit
	case "uploadMax":
		w.uploadMax = !w.uploadMax
	}
	if writerReferrer && (!v.referrer || !w.referrer) && avoid("C19/referrers-off-on-converted-layout") {
		st.Exclude("C19/referrers-off-on-converted-layout: a directory written with the referrers API on is served with it off")
		writerReferrer = false
	}
	trace := []string{fmt.Sprintf("directory written with --api-referrer=%v", writerReferrer), "A: " + v.String(), "B: " + w.String() + "   (toggled: " + sw + ")"}
	fail := func(key, f string, a ...any) { Fail(t, st, key, fmt.Sprintf(f, a...), trace, nil) }
	// ---- the directory
	src := mkTemp("c19t-src")
	defer os.RemoveAll(src)
	names := map[string]string{}
	{
		wc := baseConf(config.StoreDir, src)
		wc.API.Referrer.Enabled = bp(writerReferrer)
		ws := olareg.New(wc)
		must := func(r resp, want int, what string) {
			if r.code != want {
				t.Fatalf("setup: %s answered %d %s", what, r.code, trunc(r.body, 200))
			}
		}
		cfg, layer := []byte("{}"), []byte("layer of the image")
		names["cfg"], names["layer"] = dig("sha256", cfg), dig("sha256", layer)
		for _, rn := range []string{"pre", "second"} {
			must(doReq(ws, "POST", "/v2/"+rn+"/blobs/uploads/?digest="+names["cfg"], cfg, nil), 201, "config")
		}
		must(doReq(ws, "POST", "/v2/pre/blobs/uploads/?digest="+names["layer"], layer, nil), 201, "layer")
		img, _ := buildImage(mtImage, mtConfig, names["cfg"], 2, []string{names["layer"]}, []int{len(layer)}, nil, "", nil)
		names["img"] = dig("sha256", img)
		must(doReq(ws, "PUT", "/v2/pre/manifests/v1", img, hdr("Content-Type", mtImage)), 201, "image")
		child, _ := buildImage(mtImage, mtConfig, names["cfg"], 2, nil, nil, nil, "", map[string]string{"role": "child"})
		names["child"] = dig("sha256", child)
		must(doReq(ws, "PUT", "/v2/pre/manifests/"+names["child"], child, hdr("Content-Type", mtImage)), 201, "child")
		idx, _ := buildIndex(mtIndex, []mdesc{{MediaType: mtImage, Digest: names["child"], Size: int64(len(child))}}, nil, "", nil)
		must(doReq(ws, "PUT", "/v2/pre/manifests/multi", idx, hdr("Content-Type", mtIndex)), 201, "index")
		art, _ := buildImage(mtImage, mtConfig, names["cfg"], 2, nil, nil, &mdesc{MediaType: mtImage, Digest: names["img"], Size: int64(len(img))}, "application/vnd.x.sig", nil)
		names["art"] = dig("sha256", art)
		must(doReq(ws, "PUT", "/v2/pre/manifests/"+names["art"], art, hdr("Content-Type", mtImage)), 201, "artifact")
		other, _ := buildImage(mtImage, mtConfig, names["cfg"], 2, nil, nil, nil, "", map[string]string{"repo": "second"})
		must(doReq(ws, "PUT", "/v2/second/manifests/latest", other, hdr("Content-Type", mtImage)), 201, "second image")
		_ = ws.Close()
	}
	a, b := c19tProbe(v, src, names), c19tProbe(w, src, names)
	governed := c19tGoverned(sw)
	diffs := []string{}
	for i := range a {
		if governed[a[i].name] {
			continue
		}
		if a[i].code != b[i].code || a[i].body != b[i].body || a[i].subj != b[i].subj || (sw != "warnings" && a[i].warn != b[i].warn) {
			diffs = append(diffs, fmt.Sprintf("%s: A %d %q | B %d %q", a[i].name, a[i].code, trunc([]byte(a[i].body), 100), b[i].code, trunc([]byte(b[i].body), 100)))
		}
	}
	for i := range a {
		trace = append(trace, fmt.Sprintf("%-38s A %d   B %d", a[i].name, a[i].code, b[i].code))
	}
	if len(diffs) > 0 {
		key := "toggle-changes-other-behaviour"
		if writerReferrer && (!v.referrer || !w.referrer) {
			key = "referrers-off-on-converted-layout"
		}
		fail(key, "toggling %s changed answers it does not govern:\n  %s", sw, strings.Join(diffs, "\n  "))
	}
	// the governed probes follow the documented table on each side
	for _, side := range []struct {
		v   c19tVec
		ans []c19tAnswer
		n   string
	}{{v, a, "A"}, {w, b, "B"}} {
		if writerReferrer && !side.v.referrer {
			continue // finding: such a server answers nothing reliably; reported above when it shows in a comparison
		}
		for _, x := range side.ans {
			want, why := 0, ""
			switch x.name {
			case "blob upload", "manifest push", "artifact push":
				want, why = 201, "push is enabled and the store writable"
			case "upload session":
				want, why = 202, "push is enabled and the store writable"
			case "tag delete", "manifest delete by digest", "blob delete":
				want, why = 202, "delete is enabled and the store writable"
			case "referrers", "referrers filtered":
				want, why = 200, "the referrers API is enabled"
				if !side.v.referrer {
					want, why = 404, "the referrers API is disabled"
				}
			default:
				continue
			}
			switch {
			case strings.Contains(why, "push") && !side.v.push:
				want, why = 405, "--api-push=false"
			case strings.Contains(why, "delete") && (!side.v.del || (x.name == "blob delete" && !side.v.blobDel)):
				want, why = 405, "--api-delete / --api-blob-delete is off"
			case (strings.Contains(why, "push") || strings.Contains(why, "delete")) && side.v.ro:
				want, why = 403, "--store-ro"
			}
			if side.v.manifestLimit && want == 201 && (x.name == "manifest push" || x.name == "artifact push") {
				want, why = 413, "the manifest is larger than the configured limit of 200 bytes"
				if x.code == 400 {
					want = 400 // the code answers 400 MANIFEST_INVALID "manifest too large"; either status says it
				}
			}
			wantWarn := ""
			if side.v.warnings {
				wantWarn = `299 - "first warning" | 299 - "second warning"`
			}
			if x.warn != wantWarn {
				fail("warning-header", "%s: %s carries the Warning headers %q, want %q", side.n, x.name, x.warn, wantWarn)
			}
			if x.code != want && !(want == 405 && side.v.ro && x.code == 403) { // switched off and read-only: either refusal describes it
				fail("switch-effect", "%s: %s answered %d, want %d because %s", side.n, x.name, x.code, want, why)
			}
			if x.name == "artifact push" && x.code == 201 && (x.subj != "") != side.v.referrer {
				fail("switch-effect", "%s: artifact push answered OCI-Subject %q with --api-referrer=%v", side.n, x.subj, side.v.referrer)
			}
		}
	}
	nd := 0
	for _, x := range []bool{!v.push, v.del, v.blobDel, !v.referrer, v.ro, v.mem, v.warnings, v.rateLimit, v.gcDisabled, v.manifestLimit, v.uploadMax} {
		if x {
			nd++
		}
	}
	cl := []string{"toggle:" + sw, fmt.Sprintf("written-with-referrers:%v", writerReferrer)}
	sort.Strings(cl)
	st.Case(trace, nd >= 1, cl...)
}

func TestC19Toggle(t *testing.T) {
	st := newStats("TestC19Toggle", "C19", c19tRule)
	rapid.Check(t, func(rt *rapid.T) { c19tProperty(rt, st) })
}

// TestKF_C19_ReferrersOffConvertedLayout reproduces the listed finding: a directory that a server with the referrers
// API on (the default) has written is served with --api-referrer=false.
func TestKF_C19_ReferrersOffConvertedLayout(t *testing.T) {
	st := newStats("TestKF_C19_ReferrersOffConvertedLayout", "C19", "reproducer")
	root := mkTemp("kf19")
	defer os.RemoveAll(root)
	ws := olareg.New(baseConf(config.StoreDir, root))
	cfg := []byte("{}")
	cd := kfPush(t, ws, "pre", cfg)
	img, _ := buildImage(mtImage, mtConfig, cd, 2, nil, nil, nil, "", nil)
	kfPut(t, ws, "pre", "v1", mtImage, img)
	_ = ws.Close()
	for _, mem := range []bool{false, true} {
		v := c19tVec{push: true, del: true, blobDel: true, referrer: false, mem: mem}
		srv := olareg.New(v.conf(root))
		codes := []int{}
		for i := 0; i < 2; i++ {
			codes = append(codes, doReq(srv, "GET", "/v2/pre/manifests/v1", nil, hdr("Accept", acceptAll)).code)
		}
		codes = append(codes, doReq(srv, "GET", "/v2/pre/blobs/"+cd, nil, nil).code)
		_ = srv.Close()
		for _, c := range codes {
			if c != 200 {
				Fail(kfT{t}, st, "referrers-off-on-converted-layout", fmt.Sprintf("a directory written with the referrers API on, served with --api-referrer=false (%s): GET manifest, GET manifest, GET blob answer %v, want 200 each (the switch governs the referrers endpoint and the OCI-Subject header only)", v, codes),
					[]string{"default server: push image pre:v1, Close", "server with API.Referrer.Enabled=false on the same directory", "GET /v2/pre/manifests/v1 twice, GET config blob"}, nil)
			}
		}
	}
}
