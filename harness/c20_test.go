//go:build verifbubble

package vh

// C20 — the bounded cache never drops an entry without its cleanup (DESIGN.md §3 C20).
// rapid state machine over cache.Cache[string,int] inside a synctest bubble; oracle = callback ledger vs membership.

import (
	"fmt"
	"sort"
	"sync"
	"testing"
	"testing/synctest"
	"time"

	"pgregory.net/rapid"

	"github.com/olareg/olareg/internal/cache"
)

const c20Rule = "rapid state machine over cache.Cache in a virtual-time bubble: Set/Get/Delete/DeleteAll/List/IsEmpty, sleeps around Age and 1.1xAge, Age in {0,1s,1min} x Count in {0,1,2,3,10}, " +
	"callbacks that succeed, fail or are gated on a channel (Delete/DeleteAll run on their own goroutine so that Set/Delete interleave with a cleanup in flight); oracle = ledger of callback invocations vs membership; " +
	"non-trivial = >=1 prune (age or count) happened and >=1 callback failed or was gated across another operation; distinct = hash of the op trace"

type c20Inc struct {
	key     string
	val     int
	lastUse time.Time
	exempt  bool // overwritten by a later Set of the same key (an update, not a removal)
}

type c20Ledger struct {
	key   string
	val   int
	ok    bool
	async bool // bracketed by the Pre hook (pruning), as opposed to Delete/DeleteAll
	at    time.Time
	size  int // model size when it ran
}

func c20Property(t *rapid.T, st *Stats) {
	age := rapid.SampledFrom([]time.Duration{0, time.Second, time.Minute}).Draw(t, "age")
	count := rapid.SampledFrom([]int{0, 1, 2, 3, 10}).Draw(t, "count")
	withFn := rapid.IntRange(0, 7).Draw(t, "withPruneFn") != 0
	trace := []string{fmt.Sprintf("age=%v count=%d pruneFn=%v", age, count, withFn)}
	classes := map[string]bool{}
	fail := func(key, f string, a ...any) {
		Fail(t, st, key, fmt.Sprintf(f, a...), trace, map[string]any{"age": age.String(), "count": count, "pruneFn": withFn})
	}
	defer func() {
		nt := (classes["prune-age"] || classes["prune-count"]) && (classes["callback-failed"] || classes["gated-across-op"])
		cl := []string{}
		for c := range classes {
			cl = append(cl, c)
		}
		sort.Strings(cl)
		st.Case(trace, nt, cl...)
	}()
	keys := []string{"a", "b", "c", "d", "e", "f"}
	failing := map[string]bool{}
	live := map[string]*c20Inc{}
	byVal := map[int]*c20Inc{}
	ledger := []c20Ledger{}
	preActive := map[string]int{}
	inPrune := map[int64]bool{} // goroutines between a pre and a post hook
	hookErr := ""
	gateNext := map[string]bool{}
	gatePreNext := map[string]bool{}
	gates := []chan struct{}{}
	inflight := 0 // explicit Delete/DeleteAll goroutines not yet returned
	var hmu sync.Mutex
	releaseAll := func() {
		for {
			hmu.Lock()
			for k := range gateNext {
				delete(gateNext, k)
			}
			for k := range gatePreNext {
				delete(gatePreNext, k)
			}
			n := len(gates)
			for _, g := range gates {
				close(g)
			}
			gates = nil
			hmu.Unlock()
			if n == 0 {
				return
			}
			synctest.Wait()
		}
	}
	defer releaseAll() // also on a failing case: the bubble cannot end with parked goroutines
	results := make(chan string, 64)
	events := []string{} // what the hooks saw, moved into the trace at the next quiescent point
	opts := cache.Opts[string, int]{Age: age, Count: count}
	if withFn {
		// the hooks run on prune goroutines, several of which can be active at once: hmu guards the harness state
		// they share (never held while parked on a gate)
		opts.PruneFn = func(k string, v int) error {
			me := goid()
			hmu.Lock()
			if gateNext[k] {
				delete(gateNext, k)
				g := make(chan struct{})
				gates = append(gates, g)
				hmu.Unlock()
				<-g
				hmu.Lock()
			}
			defer hmu.Unlock()
			// pruning or explicit Delete? decided by the calling goroutine: a prune brackets the callback with its pre and
			// post hook on the same goroutine (a Delete of the same key can run at the same time on another one)
			le := c20Ledger{key: k, val: v, ok: !failing[k], async: inPrune[me], at: time.Now(), size: len(live)}
			ledger = append(ledger, le)
			events = append(events, fmt.Sprintf("  cleanup callback %s=%d (pruning=%v) returns ok=%v", k, v, le.async, le.ok))
			if failing[k] {
				return fmt.Errorf("cleanup of %s refused", k)
			}
			return nil
		}
		opts.PrunePreFn = func(k string, v int) {
			// a gated pre hook models a value whose own lock is held by a user at the moment the prune wants it
			hmu.Lock()
			if gatePreNext[k] {
				delete(gatePreNext, k)
				g := make(chan struct{})
				gates = append(gates, g)
				events = append(events, fmt.Sprintf("  pre hook %s=%d parks on gate", k, v))
				hmu.Unlock()
				<-g
				hmu.Lock()
				events = append(events, fmt.Sprintf("  pre hook %s=%d continues", k, v))
			}
			preActive[k]++
			inPrune[goid()] = true
			hmu.Unlock()
		}
		opts.PrunePostFn = func(k string, v int) {
			hmu.Lock()
			defer hmu.Unlock()
			preActive[k]--
			delete(inPrune, goid())
			if preActive[k] < 0 {
				hookErr = fmt.Sprintf("Post hook for %s without a Pre hook", k)
			}
		}
	}
	c := cache.New[string, int](opts)
	next := 0
	// countPruneMayRun: a count-triggered prune was started and may not have finished yet (it can be parked in a gated
	// pre hook across several operations); what it evicts is not an age expiry
	countPruneMayRun := false
	seenLedger := 0
	// overLimitExcused: a cleanup failed while the cache was over its limit; the limit is owed again once the cache has
	// been back within it
	overLimitExcused := false
	bumped := map[int]bool{}
	// observe compares membership with the model and judges every new ledger entry
	observe := func(after string) {
		if hookErr != "" {
			fail("hooks-unpaired", "%s", hookErr)
		}
		countEvicted := []*c20Inc{}
		for ; seenLedger < len(ledger); seenLedger++ {
			le := ledger[seenLedger]
			i := byVal[le.val]
			if i != nil && le.ok && le.async && count > 0 && (le.size > count || countPruneMayRun) && !(age > 0 && le.at.Sub(i.lastUse) >= age) {
				countEvicted = append(countEvicted, i) // evicted for the count limit, not for its age
			}
			if i == nil || i.key != le.key {
				fail("cleanup-unknown-value", "cleanup callback ran for %s=%d which was never inserted", le.key, le.val)
			}
			if !le.ok {
				classes["callback-failed"] = true
				overLimitExcused = true
				if le.async {
					bumped[le.val] = true // a failed prune attempt re-dates the entry (documented in the code: retried later)
				}
			}
			if le.async {
				// (3) never expire an entry that was used within Age, unless the count limit forces the eviction
				if age > 0 && le.at.Sub(i.lastUse) < age && (count == 0 || (le.size <= count && !countPruneMayRun)) {
					fail("expired-too-early", "after %s: asynchronous cleanup of %s=%d ran %v after its last use (Age %v, size %d, Count %d)", after, le.key, le.val, le.at.Sub(i.lastUse), age, le.size, count)
				}
			}
		}
		got := map[string]bool{}
		l, _ := c.List()
		for _, k := range l {
			got[k] = true
		}
		if c.IsEmpty() != (len(l) == 0) {
			fail("isempty-mismatch", "IsEmpty=%v but List has %d keys", c.IsEmpty(), len(l))
		}
		for k, i := range live {
			if got[k] {
				continue
			}
			// disappeared: (1) needs a successful cleanup of its own value, (2) and that must be the most recent one
			if withFn {
				var lastLe *c20Ledger
				for j := range ledger {
					if ledger[j].val == i.val {
						lastLe = &ledger[j]
					}
				}
				if lastLe == nil {
					fail("removed-without-cleanup", "after %s: entry %s=%d is gone but its cleanup callback never ran for that value", after, k, i.val)
				}
				if !lastLe.ok {
					fail("removed-after-failed-cleanup", "after %s: entry %s=%d is gone although its most recent cleanup returned an error", after, k, i.val)
				}
				if lastLe.async {
					if count > 0 && lastLe.size > count {
						classes["prune-count"] = true
					} else {
						classes["prune-age"] = true
					}
				}
			}
			delete(live, k)
		}
		for k := range got {
			if live[k] == nil {
				fail("phantom-entry", "after %s: key %s is listed but the model holds no entry for it", after, k)
			}
		}
		// (4b) least recently used first, judged at the eviction itself: an entry evicted for the count limit must not have
		// been used more recently than an entry that is kept (unless the kept one refused its cleanup)
		for _, x := range countEvicted {
			if live[x.key] == x || x.exempt {
				continue
			}
			for _, y := range live {
				if y.lastUse.Before(x.lastUse) && !failing[y.key] && !bumped[y.val] && got[y.key] {
					fail("evicted-not-lru", "after %s: %s=%d (last used %v ago) was evicted for the count limit while %s=%d (last used %v ago) is kept", after, x.key, x.val, time.Since(x.lastUse), y.key, y.val, time.Since(y.lastUse))
				}
			}
		}
		// (5) at every quiescent point: as long as cleanups succeed, insertions beyond the limit have been followed by
		// pruning back to the limit (not only when the next insertion comes along)
		if count > 0 && withFn && len(gates) == 0 && inflight == 0 {
			anyFail := false
			for k2 := range live {
				if failing[k2] {
					anyFail = true
				}
			}
			switch {
			case len(l) <= count:
				overLimitExcused = false
			case !anyFail && !overLimitExcused:
				fail("limit-not-enforced", "after %s and quiescence the cache holds %d entries, Count is %d, and no cleanup has failed since it was last within the limit", after, len(l), count)
			}
		}
	}
	settle := func(after string) {
		synctest.Wait()
		hmu.Lock()
		trace = append(trace, events...)
		events = events[:0]
		hmu.Unlock()
		for {
			select {
			case r := <-results:
				inflight--
				trace = append(trace, "  returned: "+r)
				continue
			default:
			}
			break
		}
		observe(after)
		if len(gates) == 0 && len(gatePreNext) == 0 {
			countPruneMayRun = false // everything that was started has run to completion
		}
	}
	t.Repeat(map[string]func(*rapid.T){
		"set": func(t *rapid.T) {
			k := rapid.SampledFrom(keys).Draw(t, "k")
			next++
			trace = append(trace, fmt.Sprintf("set %s=%d", k, next))
			i := &c20Inc{key: k, val: next, lastUse: time.Now()}
			byVal[next] = i
			if old := live[k]; old != nil {
				// listed finding: Set on a present key drops the old value without its cleanup (no caller of the cache does
				// that with a value that needs one)
				if withFn {
					if avoid("C20/set-overwrite-no-cleanup") {
						st.Exclude("C20/set-overwrite-no-cleanup: Set on a key that is present, with a cleanup callback configured")
					} else {
						defer func(val int) {
							hmu.Lock()
							cleaned := false
							for j := range ledger {
								if ledger[j].val == val && ledger[j].ok {
									cleaned = true
								}
							}
							hmu.Unlock()
							if !cleaned {
								fail("set-overwrite-no-cleanup", "set %s=%d replaced %s=%d: the old value left the cache and its cleanup callback never ran successfully for it", k, next, k, val)
							}
						}(old.val)
					}
				}
				old.exempt = true
				classes["overwrite"] = true
			}
			before := map[string]*c20Inc{}
			for kk, vv := range live {
				before[kk] = vv
			}
			live[k] = i
			if len(gates) > 0 {
				classes["gated-across-op"] = true
			}
			if count > 0 && len(live) > count {
				countPruneMayRun = true
			}
			c.Set(k, next)
			time.Sleep(time.Millisecond)
			settle("set " + k)
			if count > 0 && withFn && len(gates) == 0 && inflight == 0 {
				anyFail := false
				for k2 := range live {
					if failing[k2] {
						anyFail = true
					}
				}
				l, _ := c.List()
				// (5) as long as cleanups succeed an insertion beyond the limit is followed by pruning back to the limit
				if !anyFail && len(l) > count {
					fail("limit-not-enforced", "after set %s and quiescence the cache holds %d entries, Count is %d", k, len(l), count)
				}
				// (4) least recently used first
				evicted := []*c20Inc{}
				for kk, vv := range before {
					if kk != k && live[kk] == nil {
						evicted = append(evicted, vv)
					}
				}
				anyBumped := false
				for _, vv := range before {
					if bumped[vv.val] {
						anyBumped = true
					}
				}
				if anyBumped && len(evicted) > 0 {
					classes["lru-not-judged-after-failed-prune"] = true
				}
				if len(evicted) > 0 && len(before)+1 > count && !anyBumped {
					cands := []*c20Inc{}
					for kk, vv := range before {
						if kk != k && !failing[kk] {
							cands = append(cands, vv)
						}
					}
					sort.Slice(cands, func(a, b int) bool { return cands[a].lastUse.Before(cands[b].lastUse) })
					isEv := map[int]bool{}
					for _, ev := range evicted {
						isEv[ev.val] = true
					}
					for j := 0; j < len(evicted) && j < len(cands); j++ {
						if !isEv[cands[j].val] {
							fail("not-lru", "count prune after set %s evicted %d entries but kept %s=%d, which was used less recently than an evicted one", k, len(evicted), cands[j].key, cands[j].val)
						}
					}
				}
			}
		},
		"get": func(t *rapid.T) {
			k := rapid.SampledFrom(keys).Draw(t, "k")
			trace = append(trace, "get "+k)
			v, err := c.Get(k)
			if i := live[k]; i != nil && err == nil && v == i.val {
				i.lastUse = time.Now()
			}
			if len(gates) > 0 {
				classes["gated-across-op"] = true
			}
			time.Sleep(time.Millisecond)
			settle("get " + k)
		},
		"delete": func(t *rapid.T) {
			k := rapid.SampledFrom(keys).Draw(t, "k")
			gated := withFn && live[k] != nil && inflight < 3 && rapid.IntRange(0, 2).Draw(t, "gated") == 0
			trace = append(trace, fmt.Sprintf("delete %s gated=%v failing=%v", k, gated, failing[k]))
			if gated {
				gateNext[k] = true
				classes["gated"] = true
			}
			inflight++
			go func() {
				err := c.Delete(k)
				results <- fmt.Sprintf("Delete(%s) err=%v", k, err)
			}()
			settle("delete " + k)
			delete(gateNext, k) // the entry vanished before the callback could be gated
		},
		"deleteAll": func(t *rapid.T) {
			trace = append(trace, "deleteAll")
			inflight++
			go func() {
				err := c.DeleteAll()
				results <- fmt.Sprintf("DeleteAll err=%v", err)
			}()
			settle("deleteAll")
			classes["delete-all"] = true
		},
		"release": func(t *rapid.T) {
			if len(gates) == 0 {
				t.Skip("no gated callback")
			}
			j := rapid.IntRange(0, len(gates)-1).Draw(t, "gate")
			trace = append(trace, fmt.Sprintf("release gate %d of %d", j, len(gates)))
			// the released goroutine may park on another gate straight away: update the list before it can run
			hmu.Lock()
			g := gates[j]
			gates = append(gates[:j], gates[j+1:]...)
			hmu.Unlock()
			close(g)
			settle("release")
		},
		"gatePre": func(t *rapid.T) {
			// the next asynchronous prune of this key has to wait in its pre hook until the gate is released
			if !withFn || age == 0 {
				t.Skip("no asynchronous age pruning")
			}
			k := rapid.SampledFrom(keys).Draw(t, "k")
			if live[k] == nil {
				t.Skip("no such entry")
			}
			gatePreNext[k] = true
			classes["gated-pre-hook"] = true
			trace = append(trace, "gate the pre hook of the next prune of "+k)
		},
		"toggleFail": func(t *rapid.T) {
			k := rapid.SampledFrom(keys).Draw(t, "k")
			failing[k] = !failing[k]
			trace = append(trace, fmt.Sprintf("cleanup of %s fails=%v", k, failing[k]))
		},
		"sleep": func(t *rapid.T) {
			base := age
			if base == 0 {
				base = time.Second
			}
			d := rapid.SampledFrom([]time.Duration{base / 2, base - time.Millisecond, base, base + base/10, base + base/10 + time.Millisecond, 3 * base}).Draw(t, "d")
			trace = append(trace, fmt.Sprintf("sleep %v", d))
			if len(gates) > 0 {
				// a timer prune would block on the cache mutex only if a gated callback held it; gated callbacks run without the mutex
				classes["gated-across-op"] = true
			}
			time.Sleep(d)
			settle("sleep")
		},
		"": func(*rapid.T) {},
	})
	// let everything finish before the bubble ends (a released callback can run into the next armed gate)
	releaseAll()
	settle("end")
	failing = map[string]bool{}
	_ = c.DeleteAll()
	synctest.Wait()
}

func TestC20(t *testing.T) {
	st := newStats("TestC20", "C20", c20Rule)
	bubbleCheck(t, func(rt *rapid.T) { c20Property(rt, st) })
}

// TestKF_C20_SetOverwriteNoCleanup reproduces the listed finding without the generator.
func TestKF_C20_SetOverwriteNoCleanup(t *testing.T) {
	st := newStats("TestKF_C20_SetOverwriteNoCleanup", "C20", "reproducer")
	cleaned := []int{}
	c := cache.New[string, int](cache.Opts[string, int]{Count: 10, PruneFn: func(_ string, v int) error { cleaned = append(cleaned, v); return nil }})
	c.Set("k", 1)
	c.Set("k", 2)
	v, err := c.Get("k")
	if err == nil && v == 2 && len(cleaned) == 0 {
		Fail(kfT{t}, st, "set-overwrite-no-cleanup", "Set(k,1); Set(k,2): the cache holds k=2, the entry k=1 is gone and its cleanup callback never ran", []string{"Set(k,1)", "Set(k,2)", "Get(k)"}, nil)
	}
}
