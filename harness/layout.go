package vh

// OCI image-layout validator used by C10 (after every step) and C09 (after a crash + restart).

import (
	"encoding/json"
	"fmt"
	"os"
	"path/filepath"
	"sort"
	"strings"
)

type layoutIndex struct {
	SchemaVersion int               `json:"schemaVersion"`
	MediaType     string            `json:"mediaType"`
	Manifests     []mdesc           `json:"manifests"`
	Annotations   map[string]string `json:"annotations"`
}

type layoutRepo struct {
	name  string
	index layoutIndex
	tags  map[string]string // tag -> digest
	blobs map[string]int64  // digest -> size
}

type layoutOpts struct {
	// allowTemp: leftovers that are invisible through the API (index.json.* temp files, _uploads/upload.*) are tolerated
	// (after a crash); at a quiescent point of a live server only upload files of open sessions may exist.
	allowTemp bool
	// openUploads: repository -> number of open sessions (upload.* files allowed up to that many); nil = any
	openUploads map[string]int
	// strictLayoutFile: a directory with index.json or blobs/ must carry a valid oci-layout file
	strictLayoutFile bool
}

var hexLen = map[string]int{"sha256": 64, "sha384": 96, "sha512": 128}

// validateLayoutTree walks root and validates every repository directory found. It returns the repositories
// (by name relative to root) and a list of problems ("" prefix free, human readable).
func validateLayoutTree(root string, o layoutOpts) (map[string]*layoutRepo, []string) {
	repos := map[string]*layoutRepo{}
	var problems []string
	bad := func(f string, a ...any) { problems = append(problems, fmt.Sprintf(f, a...)) }
	var walk func(dir, name string)
	walk = func(dir, name string) {
		ents, err := os.ReadDir(dir)
		if err != nil {
			return
		}
		has := map[string]os.DirEntry{}
		for _, e := range ents {
			has[e.Name()] = e
		}
		_, hasIdx := has["index.json"]
		_, hasLay := has["oci-layout"]
		_, hasBlobs := has["blobs"]
		isRepo := hasIdx || hasLay || hasBlobs
		if isRepo && name != "" {
			lr := &layoutRepo{name: name, tags: map[string]string{}, blobs: map[string]int64{}}
			repos[name] = lr
			// oci-layout
			if b, err := os.ReadFile(filepath.Join(dir, "oci-layout")); err != nil {
				if o.strictLayoutFile {
					bad("%s: oci-layout missing although the directory holds %s", name, strings.Join(presentOf(has, "index.json", "blobs"), "+"))
				}
			} else {
				var l struct {
					V string `json:"imageLayoutVersion"`
				}
				if json.Unmarshal(b, &l) != nil || l.V != "1.0.0" {
					bad("%s: oci-layout does not declare imageLayoutVersion 1.0.0: %q", name, trunc(b, 60))
				}
			}
			// blobs
			if hasBlobs {
				algs, _ := os.ReadDir(filepath.Join(dir, "blobs"))
				for _, a := range algs {
					want, known := hexLen[a.Name()]
					if !a.IsDir() || !known {
						bad("%s: unexpected entry blobs/%s", name, a.Name())
						continue
					}
					files, _ := os.ReadDir(filepath.Join(dir, "blobs", a.Name()))
					for _, f := range files {
						p := filepath.Join(dir, "blobs", a.Name(), f.Name())
						if f.IsDir() || len(f.Name()) != want {
							bad("%s: unexpected entry blobs/%s/%s", name, a.Name(), f.Name())
							continue
						}
						b, err := os.ReadFile(p)
						if err != nil {
							bad("%s: cannot read blobs/%s/%s: %v", name, a.Name(), f.Name(), err)
							continue
						}
						d := a.Name() + ":" + f.Name()
						if !hashesTo(d, b) {
							bad("%s: blob file %s (%d bytes) does not hash to its name", name, short(d), len(b))
						}
						lr.blobs[d] = int64(len(b))
					}
				}
			}
			// index.json
			if b, err := os.ReadFile(filepath.Join(dir, "index.json")); err != nil {
				if len(lr.blobs) > 0 || o.strictLayoutFile && hasLay {
					bad("%s: index.json missing although the directory holds content (%d blobs)", name, len(lr.blobs))
				}
			} else if err := json.Unmarshal(b, &lr.index); err != nil {
				bad("%s: index.json does not parse: %v (%q)", name, err, trunc(b, 80))
			} else {
				if lr.index.SchemaVersion != 2 {
					bad("%s: index.json schemaVersion %d", name, lr.index.SchemaVersion)
				}
				// the image-spec schema of an index requires "manifests" to be an array ("valid OCI image layout")
				var rawIdx map[string]json.RawMessage
				if json.Unmarshal(b, &rawIdx) == nil {
					if m, ok := rawIdx["manifests"]; !ok || strings.TrimSpace(string(m)) == "null" {
						bad("%s: index.json has no manifests array (%q)", name, trunc(b, 120))
					}
				}
				for _, d := range lr.index.Manifests {
					if tg := d.Annotations["org.opencontainers.image.ref.name"]; tg != "" {
						if old, dup := lr.tags[tg]; dup {
							bad("%s: tag %s appears twice in index.json (%s, %s)", name, tg, short(old), short(d.Digest))
						}
						lr.tags[tg] = d.Digest
					}
					sz, ok := lr.blobs[d.Digest]
					if !ok {
						bad("%s: index.json entry %s has no blob file", name, short(d.Digest))
					} else if sz != d.Size {
						bad("%s: index.json entry %s records size %d, blob file has %d bytes", name, short(d.Digest), d.Size, sz)
					}
				}
			}
		}
		// other entries
		names := make([]string, 0, len(has))
		for n := range has {
			names = append(names, n)
		}
		sort.Strings(names)
		for _, n := range names {
			e := has[n]
			switch {
			case isRepo && (n == "index.json" || n == "oci-layout" || n == "blobs"):
			case isRepo && n == "_uploads":
				ups, _ := os.ReadDir(filepath.Join(dir, n))
				cnt := 0
				for _, u := range ups {
					if !strings.HasPrefix(u.Name(), "upload.") {
						bad("%s: unexpected file _uploads/%s", name, u.Name())
					}
					cnt++
				}
				if !o.allowTemp && o.openUploads != nil && cnt > o.openUploads[name] {
					bad("%s: %d upload files but only %d open sessions", name, cnt, o.openUploads[name])
				}
			case e.IsDir():
				sub := n
				if name != "" {
					sub = name + "/" + n
				}
				walk(filepath.Join(dir, n), sub)
			default:
				if o.allowTemp && strings.HasPrefix(n, "index.json.") {
					continue
				}
				if isRepo || name != "" {
					bad("%s: stray file %s", name, n)
				}
			}
		}
	}
	walk(root, "")
	return repos, problems
}

func presentOf(has map[string]os.DirEntry, names ...string) []string {
	out := []string{}
	for _, n := range names {
		if _, ok := has[n]; ok {
			out = append(out, n)
		}
	}
	return out
}
