package vh

// C10, the very first request to a repository: the state machine of TestC10 reads every repository after every step,
// and a read makes the store set up its defaults before the first write arrives. Here the first request IS a write
// (the way a first push starts), and the directory is validated before anything reads through the API.

import (
	"fmt"
	"os"
	"testing"

	"pgregory.net/rapid"

	"github.com/olareg/olareg"
	"github.com/olareg/olareg/config"
)

const c10fRule = "TestC10FirstWrite: 1-4 requests on a fresh directory store, each the first request to its (plain or nested) repository and each a write: monolithic upload, session open (+ data, + completion), manifest push of a " +
	"child-less index by tag or digest, mount from a repository written earlier in the case, with the referrers API on or off; after every request the directory tree is validated (no API read in between), then the server is " +
	"closed and reopened and validated again; non-trivial = >=2 repositories, one nested in the other; distinct = hash of the request list"

func c10fProperty(t *rapid.T, st *Stats) {
	root := mkTemp("c10f")
	defer os.RemoveAll(root)
	conf := baseConf(config.StoreDir, root)
	refs := rapid.Bool().Draw(t, "referrersAPI")
	conf.API.Referrer.Enabled = bp(refs)
	srv := olareg.New(conf)
	defer func() { _ = srv.Close() }()
	trace := []string{fmt.Sprintf("referrers API %v", refs)}
	fail := func(key, f string, a ...any) { Fail(t, st, key, fmt.Sprintf(f, a...), trace, nil) }
	names := rapid.SliceOfNDistinct(rapid.SampledFrom([]string{"a", "a/b", "a/b/c", "proj/app", "x"}), 1, 4, func(s string) string { return s }).Draw(t, "repos")
	open := map[string]int{}
	content := []byte("first content")
	d := dig("sha256", content)
	written := []string{}
	for _, rn := range names {
		kind := rapid.SampledFrom([]string{"monolithic", "session", "session+data", "session+complete", "manifest-by-tag", "manifest-by-digest", "mount"}).Draw(t, "firstRequest")
		var r resp
		switch kind {
		case "monolithic":
			r = doReq(srv, "POST", "/v2/"+rn+"/blobs/uploads/?digest="+d, content, nil)
		case "session", "session+data", "session+complete":
			r = doReq(srv, "POST", "/v2/"+rn+"/blobs/uploads/", nil, nil)
			if r.code == 202 {
				open[rn]++
				if kind != "session" {
					r = doReq(srv, "PATCH", r.hdr.Get("Location"), content, hdr("Content-Range", fmt.Sprintf("0-%d", len(content)-1)))
				}
				if kind == "session+complete" && r.code == 202 {
					r = doReq(srv, "PUT", r.hdr.Get("Location")+"&digest="+d, nil, nil)
					if r.code == 201 {
						open[rn]--
					}
				}
			}
		case "manifest-by-tag", "manifest-by-digest":
			raw, _ := buildIndex(mtIndex, nil, nil, "", map[string]string{"first": rn})
			ref := "v1"
			if kind == "manifest-by-digest" {
				ref = dig("sha256", raw)
			}
			r = doReq(srv, "PUT", "/v2/"+rn+"/manifests/"+ref, raw, hdr("Content-Type", mtIndex))
		case "mount":
			from := "nosuchrepo"
			if len(written) > 0 {
				from = written[0]
			}
			r = doReq(srv, "POST", "/v2/"+rn+"/blobs/uploads/?mount="+d+"&from="+from, nil, nil)
			if r.code == 202 {
				open[rn]++
			}
		}
		trace = append(trace, fmt.Sprintf("%s: %s -> %d", rn, kind, r.code))
		if r.panicV != nil || r.code >= 500 {
			fail("first-write-failed", "%s as the first request to %s answered %d %v", kind, rn, r.code, r.panicV)
		}
		if kind == "monolithic" && r.code == 201 {
			written = append(written, rn)
		}
		if _, problems := validateLayoutTree(root, layoutOpts{openUploads: open, strictLayoutFile: true}); len(problems) > 0 {
			fail("layout-invalid", "after %s as the first request to %s the directory is not a valid OCI layout:\n  %s", kind, rn, joinLines(problems))
		}
	}
	_ = srv.Close()
	if _, problems := validateLayoutTree(root, layoutOpts{strictLayoutFile: true, allowTemp: true}); len(problems) > 0 {
		fail("layout-invalid", "after Close the directory is not a valid OCI layout:\n  %s", joinLines(problems))
	}
	srv = olareg.New(conf)
	for _, rn := range names {
		if r := doReq(srv, "GET", "/v2/"+rn+"/tags/list", nil, nil); r.code >= 500 {
			fail("first-write-failed", "after a restart tags/list of %s answers %d", rn, r.code)
		}
	}
	if _, problems := validateLayoutTree(root, layoutOpts{strictLayoutFile: true, allowTemp: true}); len(problems) > 0 {
		fail("layout-invalid", "after a restart and a read the directory is not a valid OCI layout:\n  %s", joinLines(problems))
	}
	nested := false
	for _, a := range names {
		for _, b := range names {
			if a != b && len(b) > len(a) && b[:len(a)+1] == a+"/" {
				nested = true
			}
		}
	}
	st.Case(trace, len(names) >= 2 && nested)
}

func joinLines(l []string) string {
	out := ""
	for i, s := range l {
		if i > 0 {
			out += "\n  "
		}
		out += s
	}
	return out
}

func TestC10FirstWrite(t *testing.T) {
	st := newStats("TestC10FirstWrite", "C10", c10fRule)
	rapid.Check(t, func(rt *rapid.T) { c10fProperty(rt, st) })
}
