package vh

// C07 — referrers responses list exactly the manifests that have the subject (DESIGN.md §3 C07).

import (
	"encoding/json"
	"fmt"
	"net/url"
	"sort"
	"strings"
	"testing"

	"pgregory.net/rapid"

	"github.com/olareg/olareg/config"
)

const c07Rule = "rapid state machine: artifacts (image/index manifests with a subject; artifactType set / config fallback / empty; annotations incl. the two keys the index treats specially) pushed by tag or digest, " +
	"re-pushed, tags overwritten, deleted by tag and digest, subjects deleted, restarts; reads plain and filtered, each twice (page cache), Referrer.Limit from one descriptor to unlimited, Link chains followed; " +
	"oracle = model set {m present : subject(m)=S}, field-exact; non-trivial = (>=2 referrers on one subject and >=1 delete/overwrite affecting them) or a response of >=2 pages; distinct = hash of the op trace"

var c07Repos = []string{"r1", "r2/n"}
var c07Tags = []string{"t1", "t2", "art"}
var c07ATs = []string{"", "application/vnd.x.a", "application/vnd.x.b"}

const (
	annRefName = "org.opencontainers.image.ref.name"
	annSubject = "org.olareg.referrer.subject"
)

type c07State struct {
	*env
	limit int64
	pages []string // query strings of recent "next page" links (any repository, subject, filter)
	chain *c07Chain
}

// c07Chain: a client that pages through a listing slowly, while other operations happen between its requests.
type c07Chain struct {
	rn, sd   string
	next     string          // target of the next request ("" = finished)
	seen     map[string]bool // digests delivered so far
	required map[string]bool // referrers that were present when the chain started and have been ever since
	steps    int
}

func (s *c07State) bad(r resp, what string) {
	if r.panicV != nil {
		s.fail("panic", "%s panicked: %v", what, r.panicV)
	}
	if r.code >= 500 {
		s.fail("5xx", "%s answered %d", what, r.code)
	}
}

// wantSet is the model's referrers of subject sd in repository rn (optionally filtered).
func (s *c07State) wantSet(rn, sd, filter string) map[string]*mman {
	out := map[string]*mman{}
	for d, m := range s.repo(rn).mans {
		if m.subject == sd && (filter == "" || m.at == filter) {
			out[d] = m
		}
	}
	return out
}

func singlePageSize(d mdesc) int64 {
	type idx struct {
		SchemaVersion int     `json:"schemaVersion"`
		MediaType     string  `json:"mediaType,omitempty"`
		Manifests     []mdesc `json:"manifests"`
	}
	b, _ := json.Marshal(idx{2, mtIndex, []mdesc{d}})
	return int64(len(b))
}

// readReferrers follows the whole chain and validates it against the model.
func (s *c07State) readReferrers(rn, sd, filter string, tag string) {
	u := "/v2/" + rn + "/referrers/" + sd
	if filter != "" {
		u += "?artifactType=" + url.QueryEscape(filter)
	}
	want := s.wantSet(rn, sd, filter)
	total := len(s.wantSet(rn, sd, ""))
	got := map[string]mdesc{}
	pages := 0
	cur := u
	for {
		pages++
		r := s.do("GET", cur, nil, nil)
		what := fmt.Sprintf("GET %s (%s, page %d)", cur, tag, pages)
		s.bad(r, what)
		if r.code != 200 {
			s.fail("referrers-status", "%s: status %d", what, r.code)
		}
		if ct := r.hdr.Get("Content-Type"); ct != mtIndex {
			s.fail("referrers-content-type", "%s: Content-Type %q", what, ct)
		}
		var idx mbody
		if err := json.Unmarshal(r.body, &idx); err != nil {
			s.fail("referrers-body", "%s: body does not parse: %v", what, err)
		}
		if idx.SchemaVersion != 2 || (idx.MediaType != "" && idx.MediaType != mtIndex) {
			s.fail("referrers-body", "%s: not an OCI index: schemaVersion=%d mediaType=%q", what, idx.SchemaVersion, idx.MediaType)
		}
		if s.limit > 0 && int64(len(r.body)) > s.limit && len(idx.Manifests) > 0 {
			s.fail("page-over-limit", "%s: page of %d bytes exceeds the limit %d", what, len(r.body), s.limit)
		}
		for _, x := range idx.Manifests {
			if _, dup := got[x.Digest]; dup {
				s.fail("referrers-duplicate", "%s: %s listed twice", what, short(x.Digest))
			}
			got[x.Digest] = x
		}
		if filter != "" && total > 0 {
			// a subject without any referrer gets the empty index early without the header: misleads no client, not asserted (DESIGN.md §3 C07)
			if h := r.hdr.Get("OCI-Filters-Applied"); h != "artifactType" {
				s.fail("filter-header-missing", "%s: OCI-Filters-Applied=%q on a filtered response (subject has %d referrers)", what, h, total)
			}
		}
		if filter == "" && r.hdr.Get("OCI-Filters-Applied") != "" {
			s.fail("filter-header-spurious", "%s: OCI-Filters-Applied on an unfiltered response", what)
		}
		next := ""
		if l := r.hdr.Get("Link"); l != "" {
			i, j := strings.Index(l, "<"), strings.Index(l, ">")
			if i != 0 || j < 0 {
				s.fail("link-format", "%s: malformed Link %q", what, l)
			}
			next = l[i+1 : j]
		}
		if next == "" {
			break
		}
		if nu, err := url.Parse(next); err == nil && !contains(s.pages, nu.RawQuery) {
			s.pages = append(s.pages, nu.RawQuery)
			if len(s.pages) > 4 {
				s.pages = s.pages[1:]
			}
		}
		if pages > len(want)+2 {
			s.fail("page-termination", "chain from %s did not end after %d pages (%d referrers)", u, pages, len(want))
		}
		cur = next
	}
	if pages >= 2 {
		s.class("paged>=2")
	}
	// entries that cannot fit a page on their own may be missing
	for d, m := range want {
		g, ok := got[d]
		md := mdesc{MediaType: m.mt, Digest: d, Size: int64(len(m.raw)), ArtifactType: m.at, Annotations: m.ann}
		if !ok {
			if s.limit > 0 && singlePageSize(md) > s.limit {
				s.class("entry-over-limit")
				continue
			}
			s.fail("referrer-missing", "GET %s (%s): %s has subject %s but is not listed; listed: %v", u, tag, short(d), short(sd), shortList(sortedKeys(got)))
		}
		if g.Size != md.Size || g.MediaType != md.MediaType {
			s.fail("referrer-descriptor", "GET %s (%s): entry %s has size=%d mediaType=%q, manifest has %d %q", u, tag, short(d), g.Size, g.MediaType, md.Size, md.MediaType)
		}
		if g.ArtifactType != md.ArtifactType {
			s.fail("referrer-artifact-type", "GET %s (%s): entry %s has artifactType %q want %q", u, tag, short(d), g.ArtifactType, md.ArtifactType)
		}
		if !mapEq(g.Annotations, md.Annotations) {
			s.fail("referrer-annotations", "GET %s (%s): entry %s has annotations %v, manifest has %v", u, tag, short(d), g.Annotations, md.Annotations)
		}
	}
	for d := range got {
		if _, ok := want[d]; !ok {
			s.fail("referrer-extra", "GET %s (%s): lists %s which is not a present manifest with that subject/filter; model: %v", u, tag, short(d), shortList(sortedKeys(want)))
		}
	}
}

// chainStep issues the next request of the slow client. When the chain ends (no Link), everything that has been a
// referrer of the subject from the first request to the last must have been delivered on some page: the listing may
// change under the client, and the server may restart it from the first page, but it may not skip what was there all along.
func (s *c07State) chainStep() {
	c := s.chain
	mr := s.repo(c.rn)
	if mr.refFuzzy[c.sd] {
		s.chain = nil
		return
	}
	// what has been deleted since the start is no longer required
	cur := s.wantSet(c.rn, c.sd, "")
	for d := range c.required {
		if _, ok := cur[d]; !ok {
			delete(c.required, d)
		}
	}
	r := s.do("GET", c.next, nil, nil)
	c.steps++
	s.logf("chainStep %d: GET %s -> %d", c.steps, trunc([]byte(c.next), 160), r.code)
	s.bad(r, "GET "+c.next)
	var idx mbody
	_ = json.Unmarshal(r.body, &idx)
	for _, x := range idx.Manifests {
		c.seen[x.Digest] = true
		if m := mr.everMans[x.Digest]; m == nil || m.subject != c.sd {
			s.fail("referrer-extra", "GET %s lists %s, which never was a manifest of %s with subject %s", c.next, short(x.Digest), c.rn, short(c.sd))
		}
	}
	c.next = ""
	if l := r.hdr.Get("Link"); l != "" && strings.Contains(l, "<") && strings.Contains(l, ">") {
		c.next = l[strings.Index(l, "<")+1 : strings.Index(l, ">")]
	}
	if c.next != "" && c.steps > 40 {
		s.fail("page-termination", "a slow client is still being handed next links after %d requests", c.steps)
	}
	if c.next != "" {
		return
	}
	s.class("slow-chain-finished")
	if c.steps >= 2 {
		s.class("slow-chain>=2-requests")
	}
	for d := range c.required {
		if c.seen[d] {
			continue
		}
		m := mr.mans[d]
		if m != nil && s.limit > 0 && singlePageSize(mdesc{MediaType: m.mt, Digest: d, Size: int64(len(m.raw)), ArtifactType: m.at, Annotations: m.ann}) > s.limit {
			continue
		}
		s.fail("referrer-skipped-by-paging", "a client paged through referrers/%s of %s in %d requests (other requests happened in between); %s was a referrer from its first request to its last and was on none of the pages it got: %v", short(c.sd), c.rn, c.steps, short(d), shortList(sortedKeys(c.seen)))
	}
	s.chain = nil
}

func shortList(ds []string) []string {
	out := make([]string, len(ds))
	for i, d := range ds {
		out[i] = short(d)
	}
	return out
}

func (s *c07State) sweep(subjects []string) {
	// tags are not what C07 is about, but referrers responses share the index with them: whatever happens to the
	// responses, every tag of the model still resolves to its manifest (C03 seen from the referrers side)
	for _, rn := range c07Repos {
		mr := s.repo(rn)
		for tg, d := range mr.tags {
			if mr.fuzzy[d] {
				continue
			}
			r := s.do("HEAD", "/v2/"+rn+"/manifests/"+tg, nil, hdr("Accept", acceptAll))
			if r.code != 200 || r.hdr.Get("Docker-Content-Digest") != d {
				s.fail("tag-lost", "tag %s of %s answers %d %s, the model holds %s", tg, rn, r.code, short(r.hdr.Get("Docker-Content-Digest")), short(d))
			}
		}
	}
	for _, rn := range c07Repos {
		for _, sd := range subjects {
			if s.repo(rn).refFuzzy[sd] {
				continue
			}
			s.readReferrers(rn, sd, "", "sweep")
		}
	}
}

func c07Property(t *rapid.T, st *Stats) {
	dirStore := rapid.Bool().Draw(t, "dirStore")
	limit := int64(rapid.SampledFrom([]int{0, 0, 420, 520, 700, 1000, 1500}).Draw(t, "referrerLimit"))
	pageCache := rapid.SampledFrom([]int{0, 1, 1, 2}).Draw(t, "pageCacheLimit")
	e, cleanup := newEnv(t, st, dirStore, func(c *config.Config) {
		if limit > 0 {
			c.API.Referrer.Limit = limit
		}
		if pageCache > 0 {
			c.API.Referrer.PageCacheLimit = pageCache // cached listings are evicted while a client is still paging
		}
	})
	defer cleanup()
	e.repoPool = c07Repos
	s := &c07State{env: e, limit: limit}
	avoidAnn := avoid("C07/special-annotation-keys")
	defer func() {
		if e.abandoned {
			return
		}
		nt := (e.classes["two-referrers"] && e.classes["delete-or-overwrite"]) || e.classes["paged>=2"]
		st.Case(e.trace, nt, e.classList()...)
	}()
	if limit > 0 {
		e.class("small-limit")
	}
	unknown := dig("sha256", []byte("never pushed subject"))
	e.subjects[unknown] = true
	cfg := []byte("{}")
	cd := dig("sha256", cfg)
	ensureCfg := func(rn string) {
		if _, ok := e.repo(rn).blobs[cd]; ok {
			return
		}
		r := e.do("POST", "/v2/"+rn+"/blobs/uploads/?digest="+cd, cfg, nil)
		if r.code != 201 {
			e.abandon("config blob refused")
		}
		e.repo(rn).blobs[cd] = cfg
	}
	touched := map[string]bool{}
	// copies: manifests pushed by digest with the exact bytes of a referrers listing -> the subject of that listing
	// (finding 27: they share the digest, and thereby the index entry and blob, of the stored response)
	copies := map[string]string{}
	t.Repeat(e.actions(map[string]func(*rapid.T){
		"pushBase": func(t *rapid.T) {
			rn := rapid.SampledFrom(c07Repos).Draw(t, "repo")
			ensureCfg(rn)
			var raw []byte
			var mm *mman
			salt := map[string]string{"base": fmt.Sprint(rapid.IntRange(0, 3).Draw(t, "salt"))}
			if rapid.IntRange(0, 3).Draw(t, "index") == 0 {
				kids := []mdesc{}
				if ms := sortedKeys(e.repo(rn).mans); len(ms) > 0 && rapid.Bool().Draw(t, "withChild") {
					c := rapid.SampledFrom(ms).Draw(t, "child")
					kids = append(kids, mdesc{MediaType: e.repo(rn).mans[c].mt, Digest: c, Size: int64(len(e.repo(rn).mans[c].raw))})
					e.class("subject-is-child")
				}
				raw, mm = buildIndex(mtIndex, kids, nil, "", salt)
			} else {
				raw, mm = buildImage(mtImage, mtConfig, cd, len(cfg), nil, nil, nil, "", salt)
			}
			alg := rapid.SampledFrom([]string{"sha256", "sha256", "sha512"}).Draw(t, "alg")
			p := manifestPlan{repo: rn, raw: raw, mm: mm, ct: mm.mt, alg: alg, digest: dig(alg, raw)}
			p.ref = p.digest
			if alg == "sha256" && rapid.Bool().Draw(t, "byTag") {
				p.tag = rapid.SampledFrom(c07Tags).Draw(t, "tag")
				p.ref = p.tag
			}
			r := e.putManifest(p, nil)
			e.logf("pushBase %s %s ref=%s -> %d", rn, short(p.digest), shortTag(p.ref), r.code)
			s.bad(r, "base PUT")
			if r.code != 201 {
				e.abandon("base manifest refused")
			}
			if p.tag != "" {
				if old, ok := e.repo(rn).tags[p.tag]; ok && old != p.digest && e.repo(rn).mans[old] != nil && e.repo(rn).mans[old].subject != "" {
					e.class("delete-or-overwrite")
					e.class("tag-overwritten-by-unrelated")
				}
			}
			e.acceptManifest(p)
			e.subjects[p.digest] = true
			touched[p.digest] = true
		},
		"pushArtifact": func(t *rapid.T) {
			rn := rapid.SampledFrom(c07Repos).Draw(t, "repo")
			ensureCfg(rn)
			mr := e.repo(rn)
			// subject: a present manifest (base, index, child, another artifact), an unknown digest, or a digest of another repository
			cands := append(sortedKeys(mr.mans), unknown)
			for _, d := range sortedKeys(e.subjects) {
				cands = append(cands, d)
			}
			// prefer subjects that already have referrers, so that lists grow beyond one entry
			busy := []string{}
			for _, m := range mr.mans {
				if m.subject != "" {
					busy = append(busy, m.subject)
				}
			}
			sort.Strings(busy)
			if len(busy) > 0 && rapid.IntRange(0, 2).Draw(t, "busySubject") > 0 {
				cands = busy
			}
			sd := rapid.SampledFrom(cands).Draw(t, "subject")
			smt, ssz := mtImage, int64(10)
			if x := mr.mans[sd]; x != nil {
				smt, ssz = x.mt, int64(len(x.raw))
				if x.subject != "" {
					e.class("referrer-of-referrer")
				}
			} else {
				e.class("subject-missing")
			}
			if strings.HasPrefix(sd, "sha512:") {
				e.class("subject-sha512")
			}
			subj := &mdesc{MediaType: smt, Digest: sd, Size: ssz}
			at := rapid.SampledFrom(c07ATs).Draw(t, "artifactType")
			// half of the time the type most referrers of this subject already have: filtered listings grow beyond one page
			if rapid.Bool().Draw(t, "sameTypeAsOthers") {
				counts := map[string]int{}
				for _, m := range s.wantSet(rn, sd, "") {
					if m.at != "" {
						counts[m.at]++
					}
				}
				for _, a := range sortedKeys(counts) {
					if counts[a] > counts[at] || !contains(c07ATs, at) {
						at = a
					}
				}
				if !contains(c07ATs, at) {
					at = c07ATs[1]
				}
			}
			var ann map[string]string
			switch rapid.IntRange(0, 5).Draw(t, "annKind") {
			case 1:
				ann = map[string]string{"k1": rapid.SampledFrom([]string{"v1", "v2"}).Draw(t, "av")}
			case 2:
				ann = map[string]string{"k1": "v1", "k2": rapid.SampledFrom([]string{"v1", "v2"}).Draw(t, "av")}
			case 3, 4:
				if avoidAnn {
					st.Exclude("C07/special-annotation-keys")
					ann = map[string]string{"k3": "v"}
				} else {
					k := rapid.SampledFrom([]string{annRefName, annSubject}).Draw(t, "specialKey")
					v := rapid.SampledFrom([]string{"t1", "shared", sd}).Draw(t, "specialVal")
					ann = map[string]string{k: v}
					e.class("special-annotation")
				}
			}
			var raw []byte
			var mm *mman
			if rapid.IntRange(0, 3).Draw(t, "indexArtifact") == 0 {
				raw, mm = buildIndex(mtIndex, nil, subj, at, ann)
				e.class("index-artifact")
			} else {
				cmt := rapid.SampledFrom([]string{mtConfig, mtEmpty, "application/vnd.x.config"}).Draw(t, "configType")
				raw, mm = buildImage(mtImage, cmt, cd, len(cfg), nil, nil, subj, at, ann)
				if at == "" {
					e.class("artifactType-fallback")
				}
			}
			p := manifestPlan{repo: rn, raw: raw, mm: mm, ct: mm.mt, alg: "sha256", digest: dig("sha256", raw)}
			p.ref = p.digest
			if rapid.Bool().Draw(t, "byTag") {
				p.tag = rapid.SampledFrom(c07Tags).Draw(t, "tag")
				p.ref = p.tag
			}
			r := e.putManifest(p, nil)
			e.logf("pushArtifact %s %s ref=%s subject=%s at=%q(%q) ann=%v -> %d", rn, short(p.digest), shortTag(p.ref), short(sd), at, mm.at, ann, r.code)
			s.bad(r, "artifact PUT")
			if r.code != 201 {
				e.abandon("artifact refused")
			}
			if h := r.hdr.Get("OCI-Subject"); h != sd {
				s.fail("oci-subject-header", "artifact PUT: OCI-Subject=%q want %s", h, sd)
			}
			if _, had := mr.mans[p.digest]; had {
				e.class("re-push")
			}
			if p.tag != "" {
				if old, ok := mr.tags[p.tag]; ok && old != p.digest && mr.mans[old] != nil && mr.mans[old].subject != "" {
					e.class("delete-or-overwrite")
				}
			}
			e.acceptManifest(p)
			e.subjects[sd] = true
			e.subjects[p.digest] = true
			touched[sd] = true
			if len(s.wantSet(rn, sd, "")) >= 2 {
				e.class("two-referrers")
			}
		},
		"rePush": func(t *rapid.T) {
			rn := rapid.SampledFrom(c07Repos).Draw(t, "repo")
			mr := e.repo(rn)
			arts := []string{}
			for d, m := range mr.mans {
				if m.subject != "" && strings.HasPrefix(d, "sha256:") {
					arts = append(arts, d)
				}
			}
			if len(arts) == 0 {
				t.Skip("no artifacts")
			}
			sort.Strings(arts)
			d := rapid.SampledFrom(arts).Draw(t, "artifact")
			m := mr.mans[d]
			p := manifestPlan{repo: rn, raw: m.raw, mm: m, ct: m.mt, alg: "sha256", digest: d, ref: d}
			if rapid.Bool().Draw(t, "byTag") {
				p.tag = rapid.SampledFrom(c07Tags).Draw(t, "tag")
				p.ref = p.tag
			}
			r := e.putManifest(p, nil)
			e.logf("rePush %s %s ref=%s -> %d", rn, short(d), shortTag(p.ref), r.code)
			s.bad(r, "artifact re-PUT")
			if r.code != 201 {
				e.abandon("artifact re-push refused")
			}
			e.class("re-push")
			e.acceptManifest(p)
			touched[m.subject] = true
		},
		"deleteTag": func(t *rapid.T) {
			rn := rapid.SampledFrom(c07Repos).Draw(t, "repo")
			mr := e.repo(rn)
			if len(mr.tags) == 0 {
				t.Skip("no tags")
			}
			tg := rapid.SampledFrom(sortedKeys(mr.tags)).Draw(t, "tag")
			d := mr.tags[tg]
			r := e.do("DELETE", "/v2/"+rn+"/manifests/"+tg, nil, nil)
			e.logf("deleteTag %s %s (-> %s) : %d", rn, tg, short(d), r.code)
			s.bad(r, "DELETE tag")
			if r.code != 202 {
				e.abandon("tag delete refused")
			}
			delete(mr.tags, tg)
			if m := mr.mans[d]; m != nil && m.subject != "" {
				e.class("delete-or-overwrite")
				e.class("artifact-tag-deleted")
				touched[m.subject] = true
			}
		},
		"deleteDigest": func(t *rapid.T) {
			rn := rapid.SampledFrom(c07Repos).Draw(t, "repo")
			mr := e.repo(rn)
			if len(mr.mans) == 0 {
				t.Skip("no manifests")
			}
			d := rapid.SampledFrom(sortedKeys(mr.mans)).Draw(t, "digest")
			m := mr.mans[d]
			r := e.do("DELETE", "/v2/"+rn+"/manifests/"+d, nil, nil)
			e.logf("deleteDigest %s %s (subject=%s) : %d", rn, short(d), short(m.subject), r.code)
			s.bad(r, "DELETE digest")
			if r.code != 202 && !(mr.fuzzy[d] && r.code == 404) {
				e.abandon("digest delete refused")
			}
			if r.code == 404 {
				// finding 12: the server does not see this manifest any more; whether it stays listed is unspecified
				if m.subject != "" {
					mr.refFuzzy[m.subject] = true
				}
			}
			e.modelDeleteDigest(rn, d)
			if sd, ok := copies[rn+" "+d]; ok && len(s.wantSet(rn, sd, "")) > 0 && !mr.refFuzzy[sd] {
				// the deleted manifest was a copy of the listing of sd: the listing itself must be unaffected
				delete(copies, rn+" "+d)
				if avoid("C07/response-copy-deleted") {
					st.Exclude("C07/response-copy-deleted")
					mr.refFuzzy[sd] = true
				} else {
					g := e.do("GET", "/v2/"+rn+"/referrers/"+sd, nil, nil)
					var idx mbody
					_ = json.Unmarshal(g.body, &idx)
					if len(idx.Manifests) == 0 {
						s.fail("response-copy-deleted", "after deleting %s (a manifest pushed with the bytes of the referrers listing of %s) the referrers of %s are empty although %d manifests with that subject are present", short(d), short(sd), short(sd), len(s.wantSet(rn, sd, "")))
					}
				}
			}
			if m.subject != "" {
				e.class("delete-or-overwrite")
				e.class("artifact-deleted")
				touched[m.subject] = true
			} else if len(s.wantSet(rn, d, "")) > 0 {
				e.class("subject-deleted")
				touched[d] = true
			}
		},
		"blobDeleteOfArtifact": func(t *rapid.T) {
			// the blob API removes the content of an artifact behind the manifest API's back. While the index entry is
			// still there "present" is debatable and nothing is asserted; once the manifest has been deleted as well
			// (202) it is not present by any reading and must leave the listing, and once it has been pushed again it is
			// present and must be listed once.
			rn := rapid.SampledFrom(c07Repos).Draw(t, "repo")
			mr := e.repo(rn)
			arts := []string{}
			for _, d := range sortedKeys(mr.mans) {
				if mr.mans[d].subject != "" && !mr.fuzzy[d] && !mr.refFuzzy[mr.mans[d].subject] {
					if _, copied := copies[rn+" "+d]; !copied {
						arts = append(arts, d)
					}
				}
			}
			if len(arts) == 0 {
				t.Skip("no artifact")
			}
			d := rapid.SampledFrom(arts).Draw(t, "digest")
			m := mr.mans[d]
			then := rapid.SampledFrom([]string{"deleteManifest", "deleteManifest", "pushAgain"}).Draw(t, "then")
			r := e.do("DELETE", "/v2/"+rn+"/blobs/"+d, nil, nil)
			s.bad(r, "DELETE blob of an artifact")
			if r.code != 202 {
				e.abandon("blob delete refused")
			}
			if then == "deleteManifest" {
				r2 := e.do("DELETE", "/v2/"+rn+"/manifests/"+d, nil, nil)
				s.bad(r2, "DELETE manifest whose blob is gone")
				e.logf("blobDeleteOfArtifact %s %s (subject=%s): blob %d, manifest %d", rn, short(d), short(m.subject), r.code, r2.code)
				if r2.code != 202 {
					// refused: the entry is still there without content - unspecified from here on
					mr.refFuzzy[m.subject] = true
					e.modelDeleteDigest(rn, d)
					return
				}
				delete(mr.blobs, d)
				e.modelDeleteDigest(rn, d)
				e.class("delete-or-overwrite")
				e.class("artifact-deleted")
			} else {
				r2 := e.putManifest(manifestPlan{repo: rn, raw: m.raw, ct: m.mt, ref: d}, nil)
				s.bad(r2, "PUT of an artifact whose blob had been deleted")
				e.logf("blobDeleteOfArtifact %s %s (subject=%s): blob %d, pushed again %d", rn, short(d), short(m.subject), r.code, r2.code)
				if r2.code != 201 {
					e.abandon("re-push refused")
				}
			}
			e.class("artifact-blob-deleted")
			touched[m.subject] = true
		},
		"restart": func(t *rapid.T) {
			if !e.isDir() {
				t.Skip("mem")
			}
			e.logf("restart")
			e.restart()
			e.class("restart")
			for d := range e.subjects {
				touched[d] = true
			}
		},
		"read": func(t *rapid.T) {
			rn := rapid.SampledFrom(c07Repos).Draw(t, "repo")
			sd := rapid.SampledFrom(sortedKeys(e.subjects)).Draw(t, "subject")
			if e.repo(rn).refFuzzy[sd] {
				t.Skip("unspecified")
			}
			filter := rapid.SampledFrom(append([]string{"application/vnd.x.none", mtConfig}, c07ATs...)).Draw(t, "filter")
			// half of the time the filter the most referrers of this subject match: a filtered listing of several pages
			counts := map[string]int{}
			for _, m := range s.wantSet(rn, sd, "") {
				counts[m.at]++
			}
			if best := sortedKeys(counts); len(best) > 0 && rapid.Bool().Draw(t, "commonFilter") {
				top := best[0]
				for _, a := range best {
					if counts[a] > counts[top] {
						top = a
					}
				}
				if top != "" {
					filter = top
				}
			}
			e.logf("read %s referrers/%s filter=%q (twice)", rn, short(sd), filter)
			if filter != "" {
				e.class("filtered")
			}
			s.readReferrers(rn, sd, filter, "first")
			s.readReferrers(rn, sd, filter, "repeat/cache")
		},
		"readForeignPage": func(t *rapid.T) {
			// page parameters handed out for one listing, presented for another repository or subject: whatever
			// comes back may only name manifests that have (or at the time of that listing had) the subject asked for
			if len(s.pages) == 0 {
				t.Skip("no page links yet")
			}
			rn := rapid.SampledFrom(c07Repos).Draw(t, "repo")
			sd := rapid.SampledFrom(sortedKeys(e.subjects)).Draw(t, "subject")
			pq := rapid.SampledFrom(s.pages).Draw(t, "pageQuery")
			u := "/v2/" + rn + "/referrers/" + sd + "?" + pq
			r := e.do("GET", u, nil, nil)
			e.logf("readForeignPage %s -> %d", u, r.code)
			s.bad(r, "GET "+u)
			var idx mbody
			_ = json.Unmarshal(r.body, &idx)
			for _, x := range idx.Manifests {
				if m := e.repo(rn).everMans[x.Digest]; m == nil || m.subject != sd {
					s.fail("referrer-foreign-page", "GET %s lists %s, which never was a manifest of %s with subject %s", u, short(x.Digest), rn, short(sd))
				}
			}
			e.class("foreign-page")
		},
		"pushResponseAsIndex": func(t *rapid.T) {
			// a client copies a referrers listing: the body it was served is pushed back as an ordinary index (by tag or
			// digest). It names the referrers as children and has no subject: nothing about any subject's referrers changes.
			rn := rapid.SampledFrom(c07Repos).Draw(t, "repo")
			sd := rapid.SampledFrom(sortedKeys(e.subjects)).Draw(t, "subject")
			mr := e.repo(rn)
			if mr.refFuzzy[sd] {
				t.Skip("no listing to copy")
			}
			// (an empty listing is copied too: the stored response of a subject whose last referrer was deleted is the
			// canonical empty index, and a tag on those bytes shares its digest)
			g := e.do("GET", "/v2/"+rn+"/referrers/"+sd, nil, nil)
			var idx mbody
			if g.code != 200 || json.Unmarshal(g.body, &idx) != nil {
				t.Skip("no listing")
			}
			if len(idx.Manifests) == 0 {
				e.class("empty-listing-copied")
			}
			mm := &mman{raw: g.body, mt: mtIndex, isIndex: true}
			for _, x := range idx.Manifests {
				if mr.mans[x.Digest] == nil {
					t.Skip("listing names something the model does not hold (judged by the sweep)")
				}
				mm.refs = append(mm.refs, x.Digest)
				mm.refMT = append(mm.refMT, x.MediaType)
			}
			p := manifestPlan{repo: rn, raw: g.body, mm: mm, ct: mtIndex, alg: "sha256", digest: dig("sha256", g.body)}
			p.ref = p.digest
			if rapid.Bool().Draw(t, "byTag") {
				p.tag = rapid.SampledFrom(c07Tags).Draw(t, "tag")
				p.ref = p.tag
			}
			r := e.putManifest(p, nil)
			e.logf("pushResponseAsIndex %s listing of %s (%d entries) ref=%s -> %d", rn, short(sd), len(idx.Manifests), shortTag(p.ref), r.code)
			s.bad(r, "PUT of a copied referrers listing")
			if r.code != 201 {
				e.abandon("copied listing refused (C04)")
			}
			e.acceptManifest(p)
			e.subjects[p.digest] = true
			copies[rn+" "+p.digest] = sd
			e.class("listing-copied-as-index")
			touched[sd] = true
			touched[p.digest] = true
		},
		"chainStart": func(t *rapid.T) {
			// a client starts paging through a listing and will continue later (chainStep), with other requests in between
			rn := rapid.SampledFrom(c07Repos).Draw(t, "repo")
			sd := rapid.SampledFrom(sortedKeys(e.subjects)).Draw(t, "subject")
			if e.repo(rn).refFuzzy[sd] || len(s.wantSet(rn, sd, "")) < 2 || s.limit == 0 || (s.chain != nil && s.chain.next != "") {
				t.Skip("nothing to page through, or a chain is in progress")
			}
			c := &c07Chain{rn: rn, sd: sd, seen: map[string]bool{}, required: map[string]bool{}, next: "/v2/" + rn + "/referrers/" + sd}
			for d := range s.wantSet(rn, sd, "") {
				c.required[d] = true
			}
			s.chain = c
			e.logf("chainStart %s referrers/%s (%d referrers)", rn, short(sd), len(c.required))
			s.chainStep()
		},
		"chainStep": func(t *rapid.T) {
			if s.chain == nil || s.chain.next == "" {
				t.Skip("no chain in progress")
			}
			s.chainStep()
		},
		"chainInterference": func(t *rapid.T) {
			// between two requests of the slow client: a referrer it has already been given is deleted (what follows moves
			// up by one place), another client reads the new listing (which is cached then, and with a small page cache
			// displaces the one the slow client is paging through), and the slow client continues
			if s.chain == nil || s.chain.next == "" {
				t.Skip("no chain in progress")
			}
			c := s.chain
			mr := e.repo(c.rn)
			cands := []string{}
			for _, d := range sortedKeys(c.seen) {
				if m := mr.mans[d]; m != nil && m.subject == c.sd && !mr.fuzzy[d] && len(s.wantSet(c.rn, d, "")) == 0 {
					if _, isCopy := copies[c.rn+" "+d]; !isCopy {
						cands = append(cands, d)
					}
				}
			}
			if len(cands) == 0 || mr.refFuzzy[c.sd] {
				t.Skip("nothing the client has seen can be deleted")
			}
			d := rapid.SampledFrom(cands).Draw(t, "seenReferrer")
			r := e.do("DELETE", "/v2/"+c.rn+"/manifests/"+d, nil, nil)
			e.logf("chainInterference: delete %s (already delivered to the slow client) : %d", short(d), r.code)
			s.bad(r, "DELETE digest")
			if r.code != 202 {
				e.abandon("digest delete refused")
			}
			e.modelDeleteDigest(c.rn, d)
			e.class("delete-or-overwrite")
			e.class("artifact-deleted")
			e.class("slow-chain-interfered")
			touched[c.sd] = true
			s.readReferrers(c.rn, c.sd, "", "another client after the delete")
			s.chainStep()
		},
		"chainStepAgain": func(t *rapid.T) {
			if s.chain == nil || s.chain.next == "" {
				t.Skip("no chain in progress")
			}
			s.chainStep()
		},
		"readOdd": func(t *rapid.T) {
			// unknown repository, malformed digest: 200 with an empty index
			u := rapid.SampledFrom([]string{"/v2/never/seen/referrers/" + unknown, "/v2/r1/referrers/sha256:abc", "/v2/r1/referrers/notadigest", "/v2/r1/referrers/" + unknown + "?artifactType=x"}).Draw(t, "oddURL")
			r := e.do("GET", u, nil, nil)
			e.logf("readOdd %s -> %d", u, r.code)
			s.bad(r, "GET "+u)
			var idx mbody
			if r.code != 200 || json.Unmarshal(r.body, &idx) != nil || len(idx.Manifests) != 0 || idx.SchemaVersion != 2 {
				s.fail("unknown-not-empty-200", "GET %s: status %d body %q, want 200 with an empty index", u, r.code, trunc(r.body, 120))
			}
			e.class("odd-read")
		},
		"": func(*rapid.T) {
			if len(touched) > 0 {
				s.sweep(sortedKeys(touched))
				touched = map[string]bool{}
			}
		},
	}))
	if e.abandoned {
		return
	}
	e.guard(func() { s.sweep(sortedKeys(e.subjects)) })
}

func TestC07(t *testing.T) {
	st := newStats("TestC07", "C07", c07Rule)
	rapid.Check(t, func(t *rapid.T) { c07Property(t, st) })
}
