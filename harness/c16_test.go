//go:build verifvfs

package vh

// C16 — repositories are isolated and storage access stays inside the root (DESIGN.md §3 C16).
// Runs on the vfs-instrumented tree: every path handed to a file-system call is logged and judged.

import (
	"encoding/json"
	"fmt"
	"net/url"
	"os"
	"path"
	"path/filepath"
	"regexp"
	"sort"
	"strings"
	"testing"

	"pgregory.net/rapid"

	"github.com/olareg/olareg"
	"github.com/olareg/olareg/config"
	"github.com/olareg/olareg/internal/vfs"
)

const c16Rule = "rapid state machine on the vfs-instrumented tree: 3-5 repositories with nested/prefix/reserved-like names, pushes, artifacts, tags, sessions used across repositories, mounts with valid and hostile " +
	"'from' values, hostile digests/session ids/dot-segment paths; oracle = per-repository models never leak, mount succeeds only if the source holds the blob, every logged file-system path lies under " +
	"root/<addressed repository> (and not under a nested other repository), sentinel tree outside the root unchanged; " +
	"non-trivial = (>=2 repositories related by prefix/nesting both hold content) or a hostile string reached a store call; distinct = hash of the op trace"

var c16NamePool = []string{"a", "a/b", "a/b/c", "ab", "a-b", "a.b", "a__b", "sha256", "a/sha256", "uploads", "a/uploads", "a/manifests", "tags", "x/y"}
var c16Reserved = []string{"index.json", "a/blobs", "oci-layout/x", "a/index.json"}
var c16NameRE = regexp.MustCompile(`^[a-z0-9]+(?:(?:\.|_|__|-+)[a-z0-9]+)*(?:/[a-z0-9]+(?:(?:\.|_|__|-+)[a-z0-9]+)*)*$`)

type c16State struct {
	*env
	tmp      string
	outside  string
	sentinel string
	secret   string // digest of the blob that lives outside the root
	reserved map[string]bool
	pages    []string // query strings of "next page" links handed out by any referrers listing so far
}

// route is an independent reading of which repository a request path addresses ("" = none).
func c16Route(rawPath string) string {
	u, err := url.ParseRequestURI(rawPath)
	if err != nil {
		return ""
	}
	el := strings.Split(strings.Trim(path.Clean("/"+u.Path), "/"), "/")
	if len(el) < 3 || el[0] != "v2" {
		return ""
	}
	n := len(el)
	repo := ""
	switch {
	case n >= 4 && el[n-2] == "manifests":
		repo = strings.Join(el[1:n-2], "/")
	case n >= 4 && el[n-2] == "blobs":
		repo = strings.Join(el[1:n-2], "/")
	case n >= 4 && el[n-2] == "referrers":
		repo = strings.Join(el[1:n-2], "/")
	case n >= 4 && el[n-2] == "tags" && el[n-1] == "list":
		repo = strings.Join(el[1:n-2], "/")
	case n >= 5 && el[n-3] == "blobs" && el[n-2] == "uploads":
		repo = strings.Join(el[1:n-3], "/")
	}
	if !c16NameRE.MatchString(repo) {
		return ""
	}
	return repo
}

// req sends a request with the path log on and judges every path that was touched.
// addressed: repositories the request may legitimately touch (nil = derive from the path).
func (s *c16State) req(method, u string, body []byte, o *reqOpt, addressed ...string) resp {
	if addressed == nil {
		if r := c16Route(u); r != "" {
			addressed = []string{r}
		}
	}
	vfs.Reset(s.root, true)
	r := s.do(method, u, body, o)
	log := vfs.Log()
	vfs.Reset(s.root, false)
	if r.panicV != nil {
		s.abandon("panic (C15)")
	}
	for _, op := range log {
		ok := false
		for _, a := range addressed {
			if op.Path == filepath.Join(s.root, a) || strings.HasPrefix(op.Path, filepath.Join(s.root, a)+"/") {
				ok = true
			}
		}
		if !strings.HasPrefix(op.Path, s.root+"/") && op.Path != s.root {
			s.fail("path-outside-root", "%s %s made the store call %s(%s) outside the root %s", method, u, op.Kind, op.Path, s.root)
		}
		if !ok {
			s.fail("path-outside-addressed-repo", "%s %s (addressed: %v) made the store call %s(%s)", method, u, addressed, op.Kind, op.Path)
		}
		// the path belongs to the deepest repository whose directory contains it; that one must be addressed
		owner := ""
		for _, z := range append(append([]string{}, s.repoPool...), addressed...) {
			if contains(c16Reserved, z) {
				continue // names that collide with layout entries are reserved for exactly that reason
			}
			if (op.Path == filepath.Join(s.root, z) || strings.HasPrefix(op.Path, filepath.Join(s.root, z)+"/")) && len(z) > len(owner) {
				owner = z
			}
		}
		addrReserved := false
		for _, a := range addressed {
			if contains(c16Reserved, a) {
				addrReserved = true // ownership is ambiguous by construction; the under-addressed test above still applies
			}
		}
		if owner != "" && !contains(addressed, owner) && !addrReserved {
			s.fail("path-in-nested-repo", "%s %s (addressed: %v) touched %s which belongs to repository %s", method, u, addressed, op.Path, owner)
		}
		if op.To != "" && !strings.HasPrefix(op.To, s.root+"/") {
			s.fail("path-outside-root", "%s %s renamed to %s outside the root", method, u, op.To)
		}
	}
	if len(log) > 0 && (strings.Contains(u, "..") || strings.Contains(u, "%2")) {
		s.class("hostile-reached-store")
	}
	return r
}


func (s *c16State) sweep() {
	digs := sortedKeys(s.universe)
	for _, rn := range s.repoPool {
		mr := s.repo(rn)
		reserved := s.reserved[rn]
		r := s.req("GET", "/v2/"+rn+"/tags/list", nil, nil)
		if reserved {
			if r.code < 400 || r.code >= 500 {
				s.fail("reserved-name-served", "tags/list of reserved name %s answered %d", rn, r.code)
			}
			continue
		}
		var tl struct{ Tags []string }
		_ = json.Unmarshal(r.body, &tl)
		if r.code != 200 || fmt.Sprint(tl.Tags) != fmt.Sprint(sortedKeys(mr.tags)) {
			s.fail("tags-leak", "tags/list of %s: %d %v, model %v", rn, r.code, tl.Tags, sortedKeys(mr.tags))
		}
		for _, d := range digs {
			g := s.req("GET", "/v2/"+rn+"/blobs/"+d, nil, nil)
			if b, ok := mr.blobs[d]; ok {
				if g.code != 200 || !sameBytes(g.body, b) {
					s.abandon("own blob not served (C02)")
				}
			} else if g.code == 200 || g.code == 206 {
				owner := ""
				for _, on := range s.repoPool {
					if _, ok := s.repo(on).blobs[d]; ok {
						owner = on
					}
				}
				s.fail("blob-leak", "blob %s is served from %s although it was only pushed/mounted to %q", short(d), rn, owner)
			}
			g = s.req("HEAD", "/v2/"+rn+"/manifests/"+d, nil, hdr("Accept", acceptAll))
			if _, ok := mr.mans[d]; !ok && g.code == 200 {
				s.fail("manifest-leak", "manifest %s is served from %s, which never received it", short(d), rn)
			}
			if s.subjects[d] {
				rr := s.req("GET", "/v2/"+rn+"/referrers/"+d, nil, nil)
				var idx mbody
				_ = json.Unmarshal(rr.body, &idx)
				for _, x := range idx.Manifests {
					if m, ok := mr.mans[x.Digest]; !ok || m.subject != d {
						s.fail("referrer-leak", "referrers of %s in %s lists %s, which that repository does not hold with that subject", short(d), rn, short(x.Digest))
					}
				}
				// follow the Link chain; remember the page links that were handed out
				for hop := 0; hop < 8; hop++ {
					l := rr.hdr.Get("Link")
					if l == "" || !strings.Contains(l, "<") {
						break
					}
					lu, err := url.Parse(l[strings.Index(l, "<")+1 : strings.Index(l, ">")])
					if err != nil {
						break
					}
					if !contains(s.pages, lu.RawQuery) {
						s.pages = append(s.pages, lu.RawQuery)
						if len(s.pages) > 4 {
							s.pages = s.pages[1:]
						}
					}
					s.class("paged-referrers")
					rr = s.req("GET", lu.RequestURI(), nil, nil)
					idx = mbody{}
					_ = json.Unmarshal(rr.body, &idx)
					for _, x := range idx.Manifests {
						if m, ok := mr.mans[x.Digest]; !ok || m.subject != d {
							s.fail("referrer-leak", "page %s of the referrers of %s in %s lists %s, which that repository does not hold with that subject", lu.RawQuery, short(d), rn, short(x.Digest))
						}
					}
				}
				// a page link handed out for another repository or subject must not carry that listing over here
				for _, pq := range s.pages {
					pr := s.req("GET", "/v2/"+rn+"/referrers/"+d+"?"+pq, nil, nil)
					pidx := mbody{}
					_ = json.Unmarshal(pr.body, &pidx)
					for _, x := range pidx.Manifests {
						if m, ok := mr.mans[x.Digest]; !ok || m.subject != d {
							s.fail("referrer-page-leak", "GET /v2/%s/referrers/%s?%s lists %s, which that repository does not hold with that subject (the page parameters came from another listing)", rn, short(d), pq, short(x.Digest))
						}
					}
				}
			}
		}
		for _, tg := range []string{"t1", "t2"} {
			g := s.req("HEAD", "/v2/"+rn+"/manifests/"+tg, nil, hdr("Accept", acceptAll))
			if d, ok := mr.tags[tg]; ok {
				if g.code != 200 || g.hdr.Get("Docker-Content-Digest") != d {
					s.abandon("own tag not served (C03)")
				}
			} else if g.code == 200 {
				s.fail("tag-leak", "tag %s resolves in %s (to %s) although it was never pushed there", tg, rn, short(g.hdr.Get("Docker-Content-Digest")))
			}
		}
	}
	if snap := treeSnapshot(s.outside, true); snap != s.sentinel {
		s.fail("sentinel-changed", "the directory tree outside the root changed:\n--- before\n%s--- after\n%s", s.sentinel, snap)
	}
}

// relatedWithContent: two repositories where one name is a path prefix of the other both hold content.
func (s *c16State) relatedWithContent() bool {
	for _, a := range s.repoPool {
		for _, b := range s.repoPool {
			if a != b && (strings.HasPrefix(b, a+"/") || strings.HasPrefix(b, a)) && len(s.repo(a).blobs) > 0 && len(s.repo(b).blobs) > 0 {
				return true
			}
		}
	}
	return false
}

func c16Property(t *rapid.T, st *Stats) {
	storeKind := rapid.SampledFrom([]string{"dir", "dir", "mem+root"}).Draw(t, "store")
	tmp := mkTemp("c16")
	defer os.RemoveAll(tmp)
	root := filepath.Join(tmp, "root")
	outside := filepath.Join(tmp, "outside")
	_ = os.MkdirAll(root, 0o755)
	// a valid layout with a known blob, an empty canary directory and a file, all outside the root
	secretBytes := []byte("secret outside the root")
	secret := dig("sha256", secretBytes)
	_ = os.MkdirAll(filepath.Join(outside, "priv", "blobs", "sha256"), 0o755)
	_ = os.WriteFile(filepath.Join(outside, "priv", "oci-layout"), []byte(`{"imageLayoutVersion":"1.0.0"}`), 0o644)
	_ = os.WriteFile(filepath.Join(outside, "priv", "index.json"), []byte(`{"schemaVersion":2,"mediaType":"application/vnd.oci.image.index.v1+json","manifests":[]}`), 0o644)
	_ = os.WriteFile(filepath.Join(outside, "priv", "blobs", "sha256", secret[7:]), secretBytes, 0o644)
	_ = os.MkdirAll(filepath.Join(outside, "canary"), 0o755)
	_ = os.MkdirAll(filepath.Join(outside, "canary2", "blobs"), 0o755)
	_ = os.WriteFile(filepath.Join(outside, "file.txt"), []byte("do not touch"), 0o644)

	e := &env{t: t, st: st, repos: map[string]*mrepo{}, classes: map[string]bool{}, counts: map[string]int{}, universe: map[string]bool{}, subjects: map[string]bool{}}
	e.root = root
	store := config.StoreDir
	if storeKind == "mem+root" {
		store = config.StoreMem
	}
	e.conf = baseConf(store, root)
	e.conf.Storage.GC.EmptyRepo = bp(true) // the empty-repository cleanup is one of the paths that removes directories
	if rapid.Bool().Draw(t, "smallReferrerPages") {
		e.conf.API.Referrer.Limit = 600 // a listing of two or more referrers is split and served from the page cache
	}
	e.srv = olareg.New(e.conf)
	s := &c16State{env: e, tmp: tmp, outside: outside, secret: secret, reserved: map[string]bool{}}
	s.sentinel = treeSnapshot(outside, true)
	e.universe[secret] = true
	defer func() {
		vfs.Reset("", false)
		done := make(chan struct{})
		go func() { _ = e.srv.Close(); close(done) }()
		<-done
	}()
	// repositories of the case
	names := rapid.SliceOfNDistinct(rapid.SampledFrom(c16NamePool), 3, 5, func(x string) string { return x }).Draw(t, "repos")
	sort.Strings(names)
	if rapid.Bool().Draw(t, "withReserved") {
		rn := rapid.SampledFrom(c16Reserved).Draw(t, "reservedName")
		names = append(names, rn)
		s.reserved[rn] = true // both stores refuse them when there is a directory underneath
	}
	e.repoPool = names
	e.logf("store=%s repos=%v", storeKind, names)
	defer func() {
		if e.abandoned {
			return
		}
		nt := e.classes["related-with-content"] || e.classes["hostile-reached-store"]
		st.Case(e.trace, nt, e.classList()...)
	}()
	e.class(storeKind)
	hostileFrom := []string{"../outside/priv", "a/../../outside/priv", "../../../../../../" + strings.TrimPrefix(outside, "/") + "/priv", outside + "/priv", "..", ".", "", "a/..", "A", "a//b", "index.json", "a/blobs", "%2e%2e/outside/priv", "..%2foutside%2fpriv", "a/b/../../../outside/priv"}
	t.Repeat(e.actions(map[string]func(*rapid.T){
		"pushBlob": func(t *rapid.T) {
			rn := rapid.SampledFrom(names).Draw(t, "repo")
			b := rapid.SampledFrom(blobPool).Draw(t, "blob")
			d := dig("sha256", b)
			proto := rapid.IntRange(0, 1).Draw(t, "proto")
			var r resp
			if proto == 0 {
				r = s.req("POST", "/v2/"+rn+"/blobs/uploads/?digest="+d, b, nil)
			} else {
				r = s.req("POST", "/v2/"+rn+"/blobs/uploads/", nil, nil)
				if r.code == 202 {
					r = s.req("PUT", r.hdr.Get("Location")+"&digest="+d, b, nil)
				}
			}
			e.logf("pushBlob %s %s proto=%d -> %d", rn, short(d), proto, r.code)
			e.universe[d] = true
			if s.reserved[rn] {
				if r.code < 400 || r.code >= 500 {
					s.fail("reserved-name-written", "upload to reserved name %s answered %d", rn, r.code)
				}
				return
			}
			if r.code != 201 {
				e.abandon("blob push refused")
			}
			e.repo(rn).blobs[d] = b
			if s.relatedWithContent() {
				e.class("related-with-content")
			}
		},
		"pushManifest": func(t *rapid.T) {
			rn := rapid.SampledFrom(names).Draw(t, "repo")
			mr := e.repo(rn)
			blobs := mr.plainBlobs()
			if len(blobs) == 0 || s.reserved[rn] {
				t.Skip("no blobs")
			}
			cfg := rapid.SampledFrom(blobs).Draw(t, "config")
			var subj *mdesc
			if rapid.IntRange(0, 2).Draw(t, "artifact") == 0 {
				pool := sortedKeys(e.universe)
				if len(e.subjects) > 0 && rapid.IntRange(0, 2).Draw(t, "knownSubject") > 0 {
					pool = sortedKeys(e.subjects) // several referrers of one subject: listings that are split into pages
				}
				sd := rapid.SampledFrom(pool).Draw(t, "subject")
				subj = &mdesc{MediaType: mtImage, Digest: sd, Size: 3}
				e.subjects[sd] = true
			}
			raw, mm := buildImage(mtImage, mtConfig, cfg, len(mr.blobs[cfg]), nil, nil, subj, "application/vnd.x", map[string]string{"salt": fmt.Sprint(rapid.IntRange(0, 2).Draw(t, "salt"))})
			p := manifestPlan{repo: rn, raw: raw, mm: mm, ct: mtImage, alg: "sha256", digest: dig("sha256", raw)}
			p.ref = p.digest
			if rapid.Bool().Draw(t, "byTag") {
				p.tag = rapid.SampledFrom([]string{"t1", "t2"}).Draw(t, "tag")
				p.ref = p.tag
			}
			vfs.Reset(s.root, true)
			r := e.putManifest(p, nil)
			vfs.Reset(s.root, false)
			e.logf("pushManifest %s %s ref=%s subject=%v -> %d", rn, short(p.digest), p.ref[:min(8, len(p.ref))], subj != nil, r.code)
			if r.code != 201 {
				e.abandon("manifest refused")
			}
			e.acceptManifest(p)
		},
		"mount": func(t *rapid.T) {
			tgt := rapid.SampledFrom(names).Draw(t, "target")
			d := rapid.SampledFrom(sortedKeys(e.universe)).Draw(t, "digest")
			hostile := rapid.IntRange(0, 2).Draw(t, "hostile") == 0
			from := ""
			addressed := []string{tgt}
			if hostile {
				from = rapid.SampledFrom(hostileFrom).Draw(t, "from")
				if rapid.Bool().Draw(t, "secret") {
					d = secret
				}
				// a hostile source names no repository of the grammar (or a reserved one): nothing but the target may be touched
				if c16NameRE.MatchString(from) {
					addressed = append(addressed, from)
				}
			} else {
				from = rapid.SampledFrom(names).Draw(t, "source")
				addressed = append(addressed, from)
			}
			u := "/v2/" + tgt + "/blobs/uploads/?mount=" + url.QueryEscape(d) + "&from=" + url.QueryEscape(from)
			r := s.req("POST", u, nil, nil, addressed...)
			e.logf("mount %s from=%q -> %s : %d", short(d), from, tgt, r.code)
			e.class("mount")
			if hostile {
				e.class("hostile-from")
			}
			if s.reserved[tgt] {
				if r.code < 400 || r.code >= 500 {
					s.fail("reserved-name-written", "mount into reserved name %s answered %d", tgt, r.code)
				}
				return
			}
			_, tgtHas := e.repo(tgt).blobs[d]
			var srcBytes []byte
			srcHas := false
			if contains(names, from) && !s.reserved[from] {
				srcBytes, srcHas = e.repo(from).blobs[d]
			}
			switch {
			case r.code == 201:
				if !tgtHas && !srcHas {
					s.fail("mount-without-source", "mount of %s from %q into %s answered 201 although neither the source repository nor the target holds the blob", short(d), from, tgt)
				}
				if !tgtHas {
					e.repo(tgt).blobs[d] = srcBytes
				}
				if s.relatedWithContent() {
					e.class("related-with-content")
				}
			case r.code == 202:
				// fell back to an upload session: cancel it
				_ = s.req("DELETE", sessionPath(r.hdr.Get("Location")), nil, nil)
			case r.code >= 500:
				e.abandon("mount 5xx (C15)")
			}
		},
		"sessionCross": func(t *rapid.T) {
			x := rapid.SampledFrom(names).Draw(t, "owner")
			y := rapid.SampledFrom(names).Draw(t, "other")
			if x == y || s.reserved[x] {
				t.Skip("same repo")
			}
			r := s.req("POST", "/v2/"+x+"/blobs/uploads/", nil, nil)
			if r.code != 202 {
				e.abandon("session refused")
			}
			loc := r.hdr.Get("Location")
			lu, _ := url.Parse(loc)
			id := path.Base(lu.Path)
			chunk := []byte("partial-data")
			r = s.req("PATCH", loc, chunk, hdr("Content-Range", "0-11"))
			if r.code != 202 {
				e.abandon("patch refused")
			}
			loc = r.hdr.Get("Location")
			lu, _ = url.Parse(loc)
			foreign := "/v2/" + y + "/blobs/uploads/" + id + "?" + lu.RawQuery
			e.logf("sessionCross owner=%s other=%s", x, y)
			e.class("session-cross")
			for _, m := range []string{"GET", "PATCH", "PUT", "DELETE"} {
				fu := foreign
				var body []byte
				o := &reqOpt{hdr: map[string]string{}}
				if m == "PATCH" || m == "PUT" {
					body = []byte("X")
					o.hdr["Content-Range"] = "12-12"
				}
				if m == "PUT" {
					fu += "&digest=" + dig("sha256", append(append([]byte{}, chunk...), 'X'))
				}
				fr := s.req(m, fu, body, o)
				if fr.code < 400 || fr.code >= 500 {
					if fr.code >= 500 {
						e.abandon("5xx (C15)")
					}
					s.fail("session-leak", "%s on session %s of repository %s through repository %s answered %d", m, id, x, y, fr.code)
				}
			}
			// the owner still sees its session untouched, then cancels it
			g := s.req("GET", loc, nil, nil)
			if g.code != 204 || g.hdr.Get("Range") != "0-11" {
				s.fail("session-disturbed", "after foreign use, status of session in %s is %d Range=%q (want 204, 0-11)", x, g.code, g.hdr.Get("Range"))
			}
			_ = s.req("DELETE", sessionPath(loc), nil, nil)
			d := dig("sha256", append(append([]byte{}, chunk...), 'X'))
			e.universe[d] = true
		},
		"hostileRequest": func(t *rapid.T) {
			rn := rapid.SampledFrom(names).Draw(t, "repo")
			other := rapid.SampledFrom(names).Draw(t, "other")
			d := rapid.SampledFrom(sortedKeys(e.universe)).Draw(t, "digest")
			hex := d[strings.Index(d, ":")+1:]
			tmpl := rapid.SampledFrom([]string{
				"/v2/%R/blobs/sha256:../../../outside/priv/blobs/sha256/%H",
				"/v2/%R/blobs/sha256:..%2f..%2f%O%2fblobs%2fsha256%2f%H",
				"/v2/%R/../%O/blobs/%D",
				"/v2/%R/%2e%2e/%O/blobs/%D",
				"/v2/%R/..%2f%O/blobs/%D",
				"/v2/%R/./blobs/%D",
				"/v2//%R//blobs//%D",
				"/v2/%R/blobs/uploads/../../../%O/blobs/%D",
				"/v2/%R/blobs/uploads/..%2f..%2f_uploads",
				"/v2/%R/blobs/uploads/..",
				"/v2/%R/blobs/uploads/%2e%2e%2f%2e%2e%2findex.json",
				"/v2/%R/manifests/..%2f..%2f%O%2findex.json",
				"/v2/%R/manifests/sha256:..%2f..%2findex.json",
				"/v2/../outside/priv/blobs/" + secret,
				"/v2/%R/../../outside/priv/blobs/" + secret,
				"/v2/%R/blobs/" + "sha256:" + strings.Repeat("%2e%2e%2f", 4) + "etc%2fpasswd",
				"/v2/%R/referrers/sha256:..%2f..%2f%O",
				"/v2/%R/tags/list/../../%O/tags/list",
			}).Draw(t, "template")
			u := strings.NewReplacer("%R", rn, "%O", other, "%D", d, "%H", hex).Replace(tmpl)
			m := rapid.SampledFrom([]string{"GET", "HEAD", "DELETE", "PUT", "PATCH", "POST"}).Draw(t, "method")
			var body []byte
			if m == "PUT" || m == "PATCH" || m == "POST" {
				body = []byte("{}")
			}
			r := s.req(m, u, body, hdr("Content-Type", mtImage))
			e.logf("hostile %s %s (routes to %q) -> %d", m, u, c16Route(u), r.code)
			e.class("hostile-request")
			if r.code == 200 && sameBytes(r.body, secretBytes) {
				s.fail("read-outside-root", "%s %s returned the blob stored outside the root", m, u)
			}
			if r.code == 202 && m == "POST" {
				_ = s.req("DELETE", sessionPath(r.hdr.Get("Location")), nil, nil)
			}
		},
		"hostileDescriptor": func(t *rapid.T) {
			// path elements inside a manifest BODY: the digest of a config, layer, child or subject descriptor is joined
			// into a blob path by the store just like a digest from the URL
			rn := rapid.SampledFrom(names).Draw(t, "repo")
			other := rapid.SampledFrom(names).Draw(t, "other")
			if s.reserved[rn] {
				t.Skip("reserved")
			}
			d := rapid.SampledFrom(sortedKeys(e.universe)).Draw(t, "digest")
			hex := d[strings.Index(d, ":")+1:]
			up := strings.Repeat("../", strings.Count(rn, "/")+3)
			hd := strings.NewReplacer("%O", other, "%H", hex, "%U", up, "%S", secret[strings.Index(secret, ":")+1:]).Replace(rapid.SampledFrom([]string{
				"sha256:0/%U%O/blobs/sha256/%H",
				"sha256:%U%O/blobs/sha256/%H",
				"sha256:%H/../../../%U%O/blobs/sha256/%H",
				"sha256:0/%U../outside/priv/blobs/sha256/%S",
				"sha256:%U../outside/priv/blobs/sha256/%S",
				"sha256:%H/../%H",
				"sha256:../sha256/%H",
				"%U%O/blobs/sha256:%H",
			}).Draw(t, "hostileDigest"))
			good := map[string]any{"mediaType": mtConfig, "digest": d, "size": 2}
			bad := map[string]any{"mediaType": mtImage, "digest": hd, "size": 2}
			ct := mtImage
			var obj map[string]any
			switch rapid.SampledFrom([]string{"config", "layer", "child", "subject"}).Draw(t, "where") {
			case "config":
				bad["mediaType"] = mtConfig
				obj = map[string]any{"schemaVersion": 2, "mediaType": mtImage, "config": bad, "layers": []any{}}
			case "layer":
				bad["mediaType"] = mtLayer
				obj = map[string]any{"schemaVersion": 2, "mediaType": mtImage, "config": good, "layers": []any{bad}}
			case "child":
				ct = mtIndex
				obj = map[string]any{"schemaVersion": 2, "mediaType": mtIndex, "manifests": []any{bad}}
			case "subject":
				obj = map[string]any{"schemaVersion": 2, "mediaType": mtImage, "config": good, "layers": []any{}, "subject": bad}
			}
			raw, _ := json.Marshal(obj)
			tag := "hx"
			r := s.req("PUT", "/v2/"+rn+"/manifests/"+tag, raw, hdr("Content-Type", ct))
			e.logf("hostileDescriptor %s %s -> %d", rn, hd, r.code)
			e.class("hostile-descriptor")
			e.universe[dig("sha256", raw)] = true
			if r.code >= 500 {
				e.abandon("5xx (C15)")
			}
			if r.code == 201 {
				e.repo(rn).blobs[dig("sha256", raw)] = raw // the manifest is deleted again below, its blob stays until a collection
				// whatever was acknowledged, reading it back (also through the negotiation that follows a child) stays in rn
				for _, acc := range []string{acceptAll, mtImage, mtIndex} {
					g := s.req("GET", "/v2/"+rn+"/manifests/"+tag, nil, hdr("Accept", acc))
					if g.code == 200 && (sameBytes(g.body, secretBytes) || (!sameBytes(g.body, raw) && e.repo(rn).blobs[dig("sha256", g.body)] == nil && e.repo(rn).mans[dig("sha256", g.body)] == nil)) {
						s.fail("descriptor-digest-leaves-repo", "manifest with descriptor digest %q acknowledged in %s; GET by tag (Accept %s) serves %d bytes that were never pushed to %s", hd, rn, acc, len(g.body), rn)
					}
				}
				_ = s.req("DELETE", "/v2/"+rn+"/manifests/"+tag, nil, nil)
				_ = s.req("DELETE", "/v2/"+rn+"/manifests/"+dig("sha256", raw), nil, nil)
			}
		},
		"collect": func(t *rapid.T) {
			rn := rapid.SampledFrom(names).Draw(t, "repo")
			if s.reserved[rn] {
				t.Skip("reserved")
			}
			vfs.Reset(s.root, true)
			_ = e.srv.VerifGC(rn)
			log := vfs.Log()
			vfs.Reset(s.root, false)
			e.logf("collect %s", rn)
			for _, op := range log {
				if !strings.HasPrefix(op.Path, filepath.Join(s.root, rn)+"/") && op.Path != filepath.Join(s.root, rn) {
					s.fail("gc-path-outside-repo", "collection of %s made the store call %s(%s)", rn, op.Kind, op.Path)
				}
			}
		},
		"": func(*rapid.T) { s.sweep() },
	}))
	if e.abandoned {
		return
	}
	// Close collects every open repository: still nothing outside may change, and no path may leave the root
	vfs.Reset(s.root, true)
	_ = e.srv.Close()
	log := vfs.Log()
	vfs.Reset(s.root, false)
	e.srv = olareg.New(e.conf)
	e.guard(func() {
		for _, op := range log {
			if !strings.HasPrefix(op.Path, s.root+"/") && op.Path != s.root {
				s.fail("path-outside-root", "Close made the store call %s(%s) outside the root", op.Kind, op.Path)
			}
		}
		if snap := treeSnapshot(s.outside, true); snap != s.sentinel {
			s.fail("sentinel-changed", "after Close the directory tree outside the root changed:\n--- before\n%s--- after\n%s", s.sentinel, snap)
		}
	})
}

func TestC16(t *testing.T) {
	st := newStats("TestC16", "C16", c16Rule)
	rapid.Check(t, func(t *rapid.T) { c16Property(t, st) })
}
