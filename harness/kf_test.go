package vh

// Deterministic reproducers of the OPEN findings listed in /verif/known_findings.json.
// Each test fails (through Fail, with the finding's signature) iff the finding still reproduces on the tree
// under test. The driver runs them after the main search and prints a KNOWN-FINDING line for those that fail.
// They do not use the generators, so they keep working when generators change.

import (
	"encoding/json"
	"fmt"
	"os"
	"path/filepath"
	"testing"
	"time"

	"github.com/olareg/olareg"
	"github.com/olareg/olareg/config"
)

type kfT struct{ *testing.T }

func newServerForKF(root string) *olareg.Server { return olareg.New(baseConf(config.StoreDir, root)) }

func kfPush(t *testing.T, h *olareg.Server, rn string, b []byte) string {
	d := dig("sha256", b)
	if r := doReq(h, "POST", "/v2/"+rn+"/blobs/uploads/?digest="+d, b, nil); r.code != 201 {
		t.Fatalf("setup: blob push answered %d", r.code)
	}
	return d
}

func kfPut(t *testing.T, h *olareg.Server, rn, ref, mt string, raw []byte) {
	if r := doReq(h, "PUT", "/v2/"+rn+"/manifests/"+ref, raw, hdr("Content-Type", mt)); r.code != 201 {
		t.Fatalf("setup: manifest PUT %s answered %d %s", ref, r.code, trunc(r.body, 200))
	}
}

// orphanScenario: child pushed by digest, index over it pushed by tag, index deleted by digest.
// Returns the child's digest and raw bytes.
func orphanScenario(t *testing.T, h *olareg.Server, rn string) (string, []byte) {
	cd := kfPush(t, h, rn, []byte("{}"))
	child, _ := buildImage(mtImage, mtConfig, cd, 2, nil, nil, nil, "", map[string]string{"role": "child"})
	childD := dig("sha256", child)
	kfPut(t, h, rn, childD, mtImage, child)
	idx, _ := buildIndex(mtIndex, []mdesc{{MediaType: mtImage, Digest: childD, Size: int64(len(child))}}, nil, "", nil)
	idxD := dig("sha256", idx)
	kfPut(t, h, rn, "multi", mtIndex, idx)
	if r := doReq(h, "DELETE", "/v2/"+rn+"/manifests/"+idxD, nil, nil); r.code != 202 {
		t.Fatalf("setup: index delete answered %d", r.code)
	}
	return childD, child
}

// Finding 12 as C02 sees it: an acknowledged, never deleted manifest stops being readable after a restart.
func TestKF_C02_OrphanedChild(t *testing.T) {
	st := newStats("TestKF_C02_OrphanedChild", "C02", "reproducer")
	root := mkTemp("kf")
	defer os.RemoveAll(root)
	conf := baseConf(config.StoreDir, root)
	h := olareg.New(conf)
	childD, child := orphanScenario(t, h, "r")
	_ = h.Close()
	h = olareg.New(conf)
	defer h.Close()
	r := doReq(h, "GET", "/v2/r/manifests/"+childD, nil, hdr("Accept", acceptAll))
	if r.code != 200 || !sameBytes(r.body, child) {
		Fail(kfT{t}, st, "orphaned-child", fmt.Sprintf("manifest %s was pushed by digest and never deleted; after its parent index was deleted and the server restarted, GET by digest answers %d", short(childD), r.code),
			[]string{"push child by digest", "push index [child] by tag", "delete index by digest", "restart", "GET child by digest"}, nil)
	}
}

// Finding 12 as C10 sees it: by-digest visibility of a manifest differs before and after Close+reopen.
func TestKF_C10_OrphanedChild(t *testing.T) {
	st := newStats("TestKF_C10_OrphanedChild", "C10", "reproducer")
	root := mkTemp("kf")
	defer os.RemoveAll(root)
	conf := baseConf(config.StoreDir, root)
	h := olareg.New(conf)
	childD, _ := orphanScenario(t, h, "r")
	before := doReq(h, "HEAD", "/v2/r/manifests/"+childD, nil, hdr("Accept", acceptAll)).code
	_ = h.Close()
	h = olareg.New(conf)
	defer h.Close()
	after := doReq(h, "HEAD", "/v2/r/manifests/"+childD, nil, hdr("Accept", acceptAll)).code
	if before != after {
		Fail(kfT{t}, st, "orphaned-child", fmt.Sprintf("HEAD manifests/%s answers %d before Close and %d after re-opening the same directory", short(childD), before, after),
			[]string{"push child by digest", "push index [child] by tag", "delete index by digest", "HEAD child", "restart", "HEAD child"}, nil)
	}
}

// Finding 12 as C05 sees it: with untagged collection OFF an untagged manifest is removed by a collection.
func TestKF_C05_OrphanedChild(t *testing.T) {
	st := newStats("TestKF_C05_OrphanedChild", "C05", "reproducer")
	for _, dirStore := range []bool{true, false} {
		root := ""
		store := config.StoreMem
		if dirStore {
			root = mkTemp("kf")
			defer os.RemoveAll(root)
			store = config.StoreDir
		}
		conf := baseConf(store, root)
		conf.Storage.GC.GracePeriod = -1
		h := olareg.New(conf)
		childD, _ := orphanScenario(t, h, "r")
		_ = h.VerifGC("r")
		r := doReq(h, "GET", "/v2/r/blobs/"+childD, nil, nil)
		_ = h.Close()
		if r.code != 200 {
			Fail(kfT{t}, st, "orphaned-child", fmt.Sprintf("untagged collection is off, yet after deleting the parent index a collection removed the untagged manifest %s (blob GET %d, dir=%v)", short(childD), r.code, dirStore),
				[]string{"Untagged=false grace=-1", "push child by digest", "push index [child] by tag", "delete index by digest", "collect", "GET child blob"}, nil)
		}
	}
}

// Finding 22: a read-only directory store cannot serve a legacy layout whose conversion needs a regenerated response.
func TestKF_C14_ReadOnlyLegacy(t *testing.T) {
	st := newStats("TestKF_C14_ReadOnlyLegacy", "C14", "reproducer")
	root := mkTemp("kf")
	defer os.RemoveAll(root)
	l := &legacyLayout{root: root, repo: "r", dir: filepath.Join(root, "r"), blobs: map[string][]byte{}, tags: map[string]string{}, manifests: map[string]string{}, want: map[string]map[string]mdesc{}}
	cfg := l.blob("sha256", []byte("{}"))
	subj, _ := buildImage(mtImage, mtConfig, cfg, 2, nil, nil, nil, "", map[string]string{"subject": "0"})
	sd := l.blob("sha256", subj)
	l.index = append(l.index, mdesc{MediaType: mtImage, Digest: sd, Size: int64(len(subj)), Annotations: map[string]string{annRefNameL: "subj"}})
	art, _ := buildImage(mtImage, "application/vnd.x.config", cfg, 2, nil, nil, &mdesc{MediaType: mtImage, Digest: sd, Size: 10}, "application/vnd.x.a", nil)
	ad := l.blob("sha256", art)
	// the fallback index records a wrong size: the response has to be regenerated
	fb := marshalIndex([]mdesc{{MediaType: mtImage, Digest: ad, Size: int64(len(art)) + 1, ArtifactType: "application/vnd.x.a"}})
	fd := l.blob("sha256", fb)
	l.index = append(l.index, mdesc{MediaType: mtIndex, Digest: fd, Size: int64(len(fb)), Annotations: map[string]string{annRefNameL: fallbackTag(sd)}})
	l.finish()
	conf := baseConf(config.StoreDir, root)
	conf.Storage.ReadOnly = bp(true)
	h := olareg.New(conf)
	defer h.Close()
	r := doReq(h, "GET", "/v2/r/manifests/subj", nil, hdr("Accept", acceptAll))
	if r.code != 200 {
		Fail(kfT{t}, st, "ro-legacy-regeneration", fmt.Sprintf("read-only dir store over a legacy layout whose fallback index needs regeneration: GET of the pre-existing tag answers %d %s", r.code, trunc(r.body, 120)),
			[]string{"legacy layout: subject tagged 'subj', artifact, fallback index with a wrong size", "open dir store read-only", "GET manifests/subj"}, nil)
	}
}

var _ = json.Marshal
var _ = time.Now

// Finding 27: a manifest pushed with the exact bytes of a referrers listing shares digest, index entry and blob with the
// stored response; deleting it by digest deletes the response, and the subject's referrers disappear.
func TestKF_C07_ResponseCopyDeleted(t *testing.T) {
	st := newStats("TestKF_C07_ResponseCopyDeleted", "C07", "reproducer")
	root := mkTemp("kf")
	defer os.RemoveAll(root)
	h := newServerForKF(root)
	defer h.Close()
	cfg := []byte("{}")
	cd := dig("sha256", cfg)
	if r := doReq(h, "POST", "/v2/r/blobs/uploads/?digest="+cd, cfg, nil); r.code != 201 {
		t.Fatalf("setup: %d", r.code)
	}
	subject := dig("sha256", []byte("some subject"))
	art, _ := buildImage(mtImage, mtConfig, cd, 2, nil, nil, &mdesc{MediaType: mtImage, Digest: subject, Size: 10}, "application/vnd.x.a", nil)
	ad := dig("sha256", art)
	if r := doReq(h, "PUT", "/v2/r/manifests/"+ad, art, hdr("Content-Type", mtImage)); r.code != 201 {
		t.Fatalf("setup artifact: %d", r.code)
	}
	l := doReq(h, "GET", "/v2/r/referrers/"+subject, nil, nil)
	ld := dig("sha256", l.body)
	p := doReq(h, "PUT", "/v2/r/manifests/"+ld, l.body, hdr("Content-Type", mtIndex))
	d := doReq(h, "DELETE", "/v2/r/manifests/"+ld, nil, nil)
	g := doReq(h, "GET", "/v2/r/referrers/"+subject, nil, nil)
	var idx mbody
	_ = json.Unmarshal(g.body, &idx)
	if p.code == 201 && d.code == 202 && len(idx.Manifests) == 0 {
		Fail(kfT{t}, st, "response-copy-deleted", fmt.Sprintf("the referrers of %s are empty after a copy of the listing was pushed and deleted by digest; the artifact %s is still present", short(subject), short(ad)),
			[]string{"PUT artifact A (subject S) -> 201", "GET referrers/S -> listing L [A]", "PUT manifests/<digest of L> with the bytes of L as an OCI index -> 201", "DELETE manifests/<digest of L> -> 202", "GET referrers/S -> []"}, nil)
	}
}

// Listed finding C15/range-error-body-not-oci: an unsatisfiable Range on a blob or manifest GET.
func TestKF_C15_RangeErrorBody(t *testing.T) {
	st := newStats("TestKF_C15_RangeErrorBody", "C15", "reproducer")
	h := olareg.New(baseConf(config.StoreMem, ""))
	defer h.Close()
	cd := kfPush(t, h, "r", []byte("{}"))
	r := doReq(h, "GET", "/v2/r/blobs/"+cd, nil, hdr("Range", "bytes=100-200"))
	var doc struct {
		Errors []struct{ Code string } `json:"errors"`
	}
	if r.code >= 400 && len(r.body) > 0 && (json.Unmarshal(r.body, &doc) != nil || len(doc.Errors) == 0) {
		Fail(kfT{t}, st, "range-error-body-not-oci", fmt.Sprintf("GET of a 2 byte blob with Range: bytes=100-200 answers %d with Content-Type %s and body %q, not an OCI error document", r.code, r.hdr.Get("Content-Type"), trunc(r.body, 100)),
			[]string{"push a 2 byte blob", "GET it with Range: bytes=100-200"}, nil)
	}
}

// Listed finding C14/referrers-off-on-converted-layout (the C14 face of finding 30): a read-only directory store, and a
// memory store over the directory, with the referrers API off do not serve what a default server wrote.
func TestKF_C14_ReferrersOffConvertedLayout(t *testing.T) {
	st := newStats("TestKF_C14_ReferrersOffConvertedLayout", "C14", "reproducer")
	root := mkTemp("kf14")
	defer os.RemoveAll(root)
	ws := olareg.New(baseConf(config.StoreDir, root))
	cd := kfPush(t, ws, "pre", []byte("{}"))
	child, _ := buildImage(mtImage, mtConfig, cd, 2, nil, nil, nil, "", map[string]string{"role": "child"})
	childD := dig("sha256", child)
	kfPut(t, ws, "pre", childD, mtImage, child)
	idx, _ := buildIndex(mtIndex, []mdesc{{MediaType: mtImage, Digest: childD, Size: int64(len(child))}}, nil, "", nil)
	kfPut(t, ws, "pre", "multi", mtIndex, idx)
	_ = ws.Close()
	before := treeSnapshot(root, true)
	for _, kind := range []config.Store{config.StoreDir, config.StoreMem} {
		c := baseConf(kind, root)
		c.Storage.ReadOnly, c.API.Referrer.Enabled = bp(true), bp(false)
		srv := olareg.New(c)
		codes := []int{doReq(srv, "GET", "/v2/pre/manifests/multi", nil, hdr("Accept", acceptAll)).code, doReq(srv, "GET", "/v2/pre/manifests/multi", nil, hdr("Accept", acceptAll)).code,
			doReq(srv, "GET", "/v2/pre/manifests/"+childD, nil, hdr("Accept", acceptAll)).code}
		_ = srv.Close()
		if codes[0] != 200 || codes[1] != 200 || codes[2] != 200 {
			Fail(kfT{t}, st, "referrers-off-on-converted-layout", fmt.Sprintf("read-only store (type %v) with the referrers API off over a directory that a default server wrote: GET index by tag, again, GET its child by digest answer %v, want 200 each (the directory itself stays untouched: %v)", kind, codes, treeSnapshot(root, true) == before),
				[]string{"default server: push child by digest, index [child] under tag multi, Close", "read-only server with API.Referrer.Enabled=false on the same directory", "GET index by tag twice, GET child by digest"}, nil)
		}
	}
}
