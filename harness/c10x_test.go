//go:build verifvfs

package vh

// C10 after an I/O error: "At every quiescent point a repository directory that holds content is a valid OCI layout
// describing exactly the API-visible state ... Closing the server and opening a new one on the same directory ...
// yields the same answer to every read request." A request that fails on a file-system error may be refused, but what
// the running server believes afterwards and what the directory says must still be the same thing: an index update
// that reached memory and not the disk is visible until the restart and gone after it. TestC10 never sees a failing
// file-system call. Here the k-th mutating call of a generated history fails (vfs.FailAt), the history goes on, and at
// the end the directory is validated and every read is compared with the same read after Close + New.

import (
	"encoding/json"
	"fmt"
	"os"
	"sort"
	"strings"
	"testing"
	"time"

	"pgregory.net/rapid"

	"github.com/olareg/olareg"
	"github.com/olareg/olareg/config"
	"github.com/olareg/olareg/internal/vfs"
)

const c10xRule = "TestC10Faults: directory store, no collection policy; request history as in TestC12Faults (4-14 requests over 2 repositories, pushes by three upload protocols, mounts, cancelled uploads, images by tag and digest, " +
	"indexes, artifacts, tag/manifest/blob deletes, tag lists, reads) run once without fault to count the mutating file-system calls N, then on a fresh directory with call k (uniform in 1..N) failing with EIO, optionally a second one; " +
	"oracle at the quiescent end: the tree is a valid OCI layout (oci-layout, parseable index.json with unique tags, every entry backed by a blob of the recorded size and digest), and tag list, every tag, every manifest digest of the case that " +
	"never was a child of an index (finding 12), every blob and the referrers of the subject answer the same (status, digest, body hash) before Close and after a new server opened the directory; " +
	"non-trivial = the fault was delivered inside a request that changes the index (manifest push/delete, tag delete, artifact push); distinct = (history, k)"

func c10xSweep(h *olareg.Server, repos []string, tags []string, mans []string, blobs []string, subject string) string {
	var sb strings.Builder
	for _, rn := range repos {
		// blobs first: what a blob request answers must not depend on whether the index was looked at before
		for _, d := range blobs {
			g := doReq(h, "HEAD", "/v2/"+rn+"/blobs/"+d, nil, nil)
			fmt.Fprintf(&sb, "%s blob-first %s %d\n", rn, short(d), g.code)
		}
		r := doReq(h, "GET", "/v2/"+rn+"/tags/list", nil, nil)
		fmt.Fprintf(&sb, "%s tags %d %s\n", rn, r.code, strings.TrimSpace(string(r.body)))
		for _, tg := range tags {
			g := doReq(h, "GET", "/v2/"+rn+"/manifests/"+tg, nil, hdr("Accept", acceptAll))
			fmt.Fprintf(&sb, "%s tag %s %d %s %s\n", rn, tg, g.code, short(g.hdr.Get("Docker-Content-Digest")), short(dig("sha256", g.body)))
		}
		for _, d := range mans {
			g := doReq(h, "GET", "/v2/"+rn+"/manifests/"+d, nil, hdr("Accept", acceptAll))
			fmt.Fprintf(&sb, "%s man %s %d %s\n", rn, short(d), g.code, g.hdr.Get("Content-Type"))
		}
		for _, d := range blobs {
			g := doReq(h, "GET", "/v2/"+rn+"/blobs/"+d, nil, nil)
			fmt.Fprintf(&sb, "%s blob %s %d %d\n", rn, short(d), g.code, len(g.body))
		}
		g := doReq(h, "GET", "/v2/"+rn+"/referrers/"+subject, nil, nil)
		var idx mbody
		_ = json.Unmarshal(g.body, &idx)
		ds := []string{}
		for _, m := range idx.Manifests {
			ds = append(ds, short(m.Digest))
		}
		sort.Strings(ds)
		fmt.Fprintf(&sb, "%s referrers %d %v\n", rn, g.code, ds)
	}
	return sb.String()
}

func c10xProperty(t *rapid.T, st *Stats) {
	tmp := mkTemp("c10x")
	defer os.RemoveAll(tmp)
	steps := c12fHistoryOpt(t, rapid.Bool().Draw(t, "epilogue"))
	// the epilogue of the C12 generator collects; here nothing is collected (the policy is off), the steps stay harmless
	trace := []string{}
	fail := func(key, f string, a ...any) { Fail(t, st, key, fmt.Sprintf(f, a...), trace, nil) }
	// half of the cases collect for real (untagged manifests, empty repositories, no grace period): the collections of
	// the history and the one at every Close then remove files, and a fault can hit a removal
	collecting := rapid.Bool().Draw(t, "collecting")
	conf := func(root string) config.Config {
		c := baseConf(config.StoreDir, root)
		if collecting {
			c.Storage.GC.GracePeriod = -1
			c.Storage.GC.Untagged, c.Storage.GC.EmptyRepo = bp(true), bp(true)
		}
		return c
	}
	root0 := tmp + "/count"
	vfs.Reset(root0, true)
	h0 := olareg.New(conf(root0))
	for _, s := range steps {
		if s.run == nil {
			_ = h0.Close()
			h0 = olareg.New(conf(root0))
			continue
		}
		_ = s.run(h0)
	}
	total, totalReads := vfs.MutCount(), vfs.ReadCount()
	indexReads := c12fReadOrdinals(vfs.Log(), root0, "/index.json")
	probeReads := c12fReadOrdinals(vfs.Log(), root0, "probes")
	_ = h0.Close()
	if total == 0 {
		st.Case([]string{"history without mutating call"}, false)
		return
	}
	// the fault: a mutating call (write side) or a reading call (open, stat, readfile, readdir) of the history
	readFault := totalReads > 0 && rapid.IntRange(0, 2).Draw(t, "readFault") == 0
	limit := total
	if readFault {
		limit = totalReads
	}
	k := rapid.IntRange(1, limit).Draw(t, "faultAt")
	if readFault && len(indexReads) > 0 && len(probeReads) > 0 {
		// a third of the reading faults goes to the opens of the file everything else hangs on, a third to the probes
		// the store makes when it meets a repository (uniform within the class), a third anywhere
		switch rapid.IntRange(0, 2).Draw(t, "readClass") {
		case 1:
			k = rapid.SampledFrom(indexReads).Draw(t, "indexRead")
		case 2:
			k = rapid.SampledFrom(probeReads).Draw(t, "probeRead")
		}
	}
	k2 := 0
	if !readFault && rapid.IntRange(0, 3).Draw(t, "secondFault") == 0 {
		k2 = k + rapid.IntRange(1, 12).Draw(t, "secondFaultAfter")
	}
	root := tmp + "/fault"
	failingCalls := 1
	vfs.Reset(root, true)
	if readFault {
		vfs.FailReadAt(k)
	} else {
		// one failing call, or (one case in four) a run of 2-6 failing mutating calls: a disk that is full for a while
		failingCalls = rapid.SampledFrom([]int{1, 1, 1, 2, 3, 6}).Draw(t, "failingCalls")
		vfs.FailRun(k, failingCalls)
		vfs.FailShort(rapid.Bool().Draw(t, "shortWrite")) // a failing write may have taken half of its buffer
	}
	h := olareg.New(conf(root))
	trace = append(trace, fmt.Sprintf("%d mutating and %d reading file-system calls without fault; fault at %s call %d (second at %d)", total, totalReads, map[bool]string{true: "reading", false: "mutating"}[readFault], k, k2))
	faultStep, faultOp := -1, ""
	hasIndexPut := false
	for i, s := range steps {
		s := s
		if strings.HasPrefix(s.name, "indexPut") {
			hasIndexPut = true
		}
		before := c12fCount(readFault)
		res := ""
		if s.run == nil {
			if !withWatchdog(30*time.Second, func() { _ = h.Close() }) {
				st.Case(trace, false, "abandoned-stuck-close")
				return
			}
			h = olareg.New(conf(root))
			trace = append(trace, "restart")
			// the collection at Close makes file-system calls too: a fault delivered there belongs to this step
			if faultStep < 0 {
				for _, op := range vfs.Log() {
					if strings.HasSuffix(op.Kind, "!fault") {
						faultStep, faultOp = i, fmt.Sprintf("%s(%s)", op.Kind, strings.TrimPrefix(op.Path, root))
						trace = append(trace, "  fault delivered: "+faultOp)
					}
				}
			}
			continue
		}
		if !withWatchdog(30*time.Second, func() { res = s.run(h) }) {
			vfs.Kill(root)
			st.Case(trace, false, "abandoned-stuck-request") // C12's business
			return
		}
		after := c12fCount(readFault)
		if faultStep < 0 && before < k && after >= k {
			faultStep = i
			for _, op := range vfs.Log() {
				if strings.HasSuffix(op.Kind, "!fault") {
					faultOp = fmt.Sprintf("%s(%s)", op.Kind, strings.TrimPrefix(op.Path, root))
				}
			}
			trace = append(trace, "  fault delivered: "+faultOp)
			if k2 > after {
				vfs.FailAt(k2)
			}
		}
		trace = append(trace, fmt.Sprintf("%s -> %s", s.name, res))
	}
	vfs.Reset(root, false)
	// ---- quiescent point
	if collecting && avoid("C10/gc-save-failed-entries-without-blob") {
		// listed finding: a collection removes the blob files first and saves index.json afterwards; when that save
		// fails the entries of the removed blobs stay listed until the next collection. The directory is judged
		// after that next collection (below) while the finding is listed.
		st.Exclude("C10/gc-save-failed-entries-without-blob: layout judged after the next collection")
	} else if _, problems := validateLayoutTree(root, layoutOpts{allowTemp: failingCalls > 1}); len(problems) > 0 {
		fail("layout-invalid-after-io-error", "after a history with an I/O error (%s in %q) the directory is not a valid layout: %s", faultOp, stepName(steps, faultStep), strings.Join(problems, "; "))
	}
	u := c12fUniverse()
	mans := u.mans
	if hasIndexPut && avoid("C10/orphaned-child") {
		st.Exclude("C10/orphaned-child: by-digest reads of manifests that were children of an index")
		mans = nil
	}
	if collecting {
		// Close collects under the configured policy: the comparison is between the collected running server and the reopened one
		_ = h.VerifGC("r")
		_ = h.VerifGC("r/n")
		if _, problems := validateLayoutTree(root, layoutOpts{allowTemp: failingCalls > 1}); len(problems) > 0 {
			fail("layout-invalid-after-io-error", "after a history with an I/O error (%s in %q) and a collection the directory is not a valid layout: %s", faultOp, stepName(steps, faultStep), strings.Join(problems, "; "))
		}
	}
	live := c10xSweep(h, []string{"r", "r/n"}, u.tags, mans, u.blobs, u.subject)
	if !withWatchdog(30*time.Second, func() { _ = h.Close() }) {
		st.Case(trace, false, "abandoned-stuck-close")
		return
	}
	h2 := olareg.New(conf(root))
	again := c10xSweep(h2, []string{"r", "r/n"}, u.tags, mans, u.blobs, u.subject)
	_ = h2.Close()
	if live != again {
		fail("restart-differs-after-io-error", "after a history with an I/O error (%s in %q) the running server and a new server on the same directory answer differently:\n%s\ndirectory:\n%s", faultOp, stepName(steps, faultStep), lineDiff(live, again), treeSnapshot(root, false))
	}
	classes := []string{}
	if collecting {
		classes = append(classes, "collecting")
	}
	nt := false
	if faultStep >= 0 {
		kind := strings.Fields(steps[faultStep].name)[0]
		classes = append(classes, "fault-delivered", "fault-in:"+kind, "fault-op:"+strings.SplitN(faultOp, "(", 2)[0])
		nt = strings.HasPrefix(kind, "image") || kind == "indexPut" || kind == "artifactPut" || kind == "tagDelete" || kind == "manifestDelete" || (kind == "epilogue" && strings.Contains(steps[faultStep].name, "push"))
	}
	st.Case(append([]string{fmt.Sprintf("k=%d", k)}, trace...), nt, classes...)
}

// lineDiff renders the lines that differ between two sweeps.
func lineDiff(a, b string) string {
	la, lb := strings.Split(a, "\n"), strings.Split(b, "\n")
	var sb strings.Builder
	for i := 0; i < len(la) || i < len(lb); i++ {
		x, y := "", ""
		if i < len(la) {
			x = la[i]
		}
		if i < len(lb) {
			y = lb[i]
		}
		if x != y {
			fmt.Fprintf(&sb, "  running: %s\n  reopened: %s\n", x, y)
		}
	}
	return sb.String()
}

func TestC10Faults(t *testing.T) {
	st := newStats("TestC10Faults", "C10", c10xRule)
	rapid.Check(t, func(rt *rapid.T) { c10xProperty(rt, st) })
}

// TestKF_C10_GCSaveFailed reproduces the listed finding: the collector removes blob files, then saves index.json; when
// the save fails, index.json keeps entries without a blob file.
func TestKF_C10_GCSaveFailed(t *testing.T) {
	st := newStats("TestKF_C10_GCSaveFailed", "C10", "reproducer")
	root := mkTemp("kf")
	defer os.RemoveAll(root)
	conf := baseConf(config.StoreDir, root)
	conf.Storage.GC.GracePeriod = -1
	conf.Storage.GC.Untagged = bp(true)
	h := olareg.New(conf)
	defer func() { _ = h.Close() }()
	cfg := []byte("{}")
	cd := kfPush(t, h, "r", cfg)
	keep, _ := buildImage(mtImage, mtConfig, cd, 2, nil, nil, nil, "", map[string]string{"keep": "1"})
	gone, _ := buildImage(mtImage, mtConfig, cd, 2, nil, nil, nil, "", map[string]string{"untagged": "1"})
	if c := doReq(h, "PUT", "/v2/r/manifests/keep", keep, hdr("Content-Type", mtImage)).code; c != 201 {
		t.Fatalf("setup: %d", c)
	}
	if c := doReq(h, "PUT", "/v2/r/manifests/"+dig("sha256", gone), gone, hdr("Content-Type", mtImage)).code; c != 201 {
		t.Fatalf("setup: %d", c)
	}
	// the mutating calls of this collection: remove of the untagged manifest's blob, then createtemp / write / rename of index.json
	vfs.Reset(root, true)
	vfs.FailAt(4)
	err := h.VerifGC("r")
	failed := ""
	for _, op := range vfs.Log() {
		if strings.HasSuffix(op.Kind, "!fault") {
			failed = op.Kind + " " + strings.TrimPrefix(op.Path, root)
		}
	}
	vfs.Reset("", false)
	if _, problems := validateLayoutTree(root, layoutOpts{}); len(problems) > 0 && strings.Contains(failed, "index.json") {
		Fail(kfT{t}, st, "gc-save-failed-entries-without-blob", fmt.Sprintf("collection with %s failing (%v): %s", failed, err, strings.Join(problems, "; ")),
			[]string{"push image by tag keep", "push image by digest (untagged)", "collect with untagged collection on, the rename of index.json fails", "validate the directory"}, nil)
	}
}
