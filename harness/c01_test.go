package vh

// C01 — served content always hashes to the digest it is served under (DESIGN.md §3 C01).

import (
	"fmt"
	"net/url"
	"strings"
	"testing"

	"pgregory.net/rapid"
)

const c01Rule = "rapid state machine: uploads by monolithic POST / POST+PUT / POST+PATCH*+PUT with drawn chunking, session and final algorithm in {sha256,sha384,sha512}, " +
	"interleaved sessions, mounts, manifests by tag/digest/?digest=, wrong digests of 4 kinds; oracle re-hashes every served body, refuses wrong digests, scans blob files; " +
	"non-trivial = (>=1 upload with >=2 non-empty chunks or an algorithm change) and >=1 wrong-digest attempt; distinct = hash of the op trace"

var c01Repos = []string{"r1", "r2/n"}
var c01Tags = []string{"t1", "t2", "v1.0"}

// c01Sweep re-hashes everything the registry serves for the digests and tags of the case.
func (e *env) c01Sweep(digs []string) {
	for _, rn := range e.repoPool {
		for _, d := range digs {
			for _, kind := range []string{"blobs", "manifests"} {
				r := e.do("GET", "/v2/"+rn+"/"+kind+"/"+d, nil, hdr("Accept", acceptAll))
				if r.panicV != nil {
					e.abandon("panic")
				}
				if r.code == 200 || r.code == 206 {
					if !hashesTo(d, r.body) {
						e.fail("served-body-mismatch", "GET /v2/%s/%s/%s returned %d bytes that do not hash to it (%q)", rn, kind, d, len(r.body), trunc(r.body, 60))
					}
					if h := r.hdr.Get("Docker-Content-Digest"); h != "" && h != d {
						e.fail("digest-header-mismatch", "GET /v2/%s/%s/%s reports Docker-Content-Digest %s", rn, kind, d, h)
					}
				}
			}
		}
		for _, tg := range c01Tags {
			// several Accept lists: with an index behind the tag and no index type accepted, the registry negotiates
			// down to a child manifest - whatever it serves must hash to the digest it reports
			for _, acc := range []string{acceptAll, mtImage, mtDImage + ", " + mtImage, mtIndex} {
				r := e.do("GET", "/v2/"+rn+"/manifests/"+tg, nil, hdr("Accept", acc))
				if r.code == 200 {
					h := r.hdr.Get("Docker-Content-Digest")
					if h == "" {
						e.fail("tag-no-digest-header", "GET /v2/%s/manifests/%s (Accept: %s) has no Docker-Content-Digest", rn, tg, acc)
					}
					if !hashesTo(h, r.body) {
						e.fail("tag-body-mismatch", "GET /v2/%s/manifests/%s (Accept: %s): the %d-byte body (%s) does not hash to the reported digest %s", rn, tg, acc, len(r.body), r.hdr.Get("Content-Type"), h)
					}
					if acc != acceptAll {
						e.class("tag-get-restricted-accept")
					}
				}
			}
		}
	}
}

// c01Refused checks a wrong-digest push: 4xx, and the declared digest is not retrievable.
func (e *env) c01Refused(what string, r resp, rn, declared string) {
	if r.panicV != nil {
		e.abandon("panic")
	}
	if r.code < 400 || r.code >= 500 {
		e.fail("wrong-digest-not-refused", "%s with a digest that does not match the content answered %d", what, r.code)
	}
	for _, rep := range e.repos {
		if _, ok := rep.blobs[declared]; ok {
			return // the model really holds content with that digest
		}
	}
	for _, kind := range []string{"blobs", "manifests"} {
		g := e.do("GET", "/v2/"+rn+"/"+kind+"/"+declared, nil, hdr("Accept", acceptAll))
		if g.code == 200 || g.code == 206 {
			e.fail("wrong-digest-retrievable", "after refused %s, GET %s/%s is %d", what, kind, declared, g.code)
		}
	}
}

func c01Property(t *rapid.T, st *Stats) {
	dirStore := rapid.Bool().Draw(t, "dirStore")
	e, cleanup := newEnv(t, st, dirStore, nil)
	defer cleanup()
	e.repoPool = c01Repos
	defer func() {
		if e.abandoned {
			return
		}
		nt := (e.classes["chunked>=2"] || e.classes["alg-change"]) && e.classes["wrong-digest"]
		st.Case(e.trace, nt, e.classList()...)
	}()
	if dirStore {
		e.class("dir")
	} else {
		e.class("mem")
	}
	touched := []string{}
	t.Repeat(e.actions(map[string]func(*rapid.T){
		"upload": func(t *rapid.T) {
			rn := rapid.SampledFrom(c01Repos).Draw(t, "repo")
			p := drawUploadPlan(t, rn, drawContent(t), true)
			// declared digest = the digest of OTHER content that this repository already holds
			if have := sortedKeys(e.repo(rn).blobs); len(have) > 0 && rapid.IntRange(0, 5).Draw(t, "declareExisting") == 0 {
				d := rapid.SampledFrom(have).Draw(t, "existingDigest")
				if !hashesTo(d, p.content) {
					p.declared, p.wrongKind = d, "existing"
					p.finalAlg = d[:strings.Index(d, ":")]
					e.class("wrong-digest-of-existing-blob")
				}
			}
			e.logf("upload %s len=%d proto=%d postAlg=%q finalAlg=%s cuts=%v lastInPut=%v wrong=%q unknownCL=%v", rn, len(p.content), p.proto, p.postAlg, p.finalAlg, p.cuts, p.lastInPut, p.wrongKind, p.unknownCL)
			ur := e.runUpload(p)
			e.universe[p.declared] = true
			touched = append(touched, p.declared)
			if ur.chunks >= 2 {
				e.class("chunked>=2")
			}
			if ur.algoSwap {
				e.class("alg-change")
			}
			if len(p.content) > 32*1024 {
				e.class("big")
			}
			if p.wrongKind != "" {
				e.class("wrong-digest")
				if ur.step == "PUT" || ur.step == "POST(monolithic)" {
					e.c01Refused("upload "+ur.step, ur.final, rn, p.declared)
				} else {
					e.abandon("upload step " + ur.step + " failed")
				}
				return
			}
			if ur.final.panicV != nil || ur.final.code != 201 {
				// a refused correct upload is C02/C08 territory
				e.abandon(fmt.Sprintf("correct upload answered %d at %s", ur.final.code, ur.step))
			}
			e.repo(rn).blobs[p.declared] = p.content
		},
		"sessOpen": func(t *rapid.T) {
			if len(e.sessions) >= 4 {
				t.Skip("enough sessions")
			}
			rn := rapid.SampledFrom(c01Repos).Draw(t, "repo")
			alg := rapid.SampledFrom([]string{"", "sha256", "sha512"}).Draw(t, "alg")
			u := "/v2/" + rn + "/blobs/uploads/"
			if alg != "" {
				u += "?digest-algorithm=" + alg
			}
			r := e.do("POST", u, nil, nil)
			if r.code != 202 {
				e.abandon("session POST refused")
			}
			e.sessions = append(e.sessions, &msession{repo: rn, loc: r.hdr.Get("Location"), alg: alg})
			e.logf("sessOpen %s alg=%q -> #%d", rn, alg, len(e.sessions)-1)
			if len(e.sessions) >= 2 {
				e.class("interleaved-sessions")
			}
		},
		"sessPatch": func(t *rapid.T) {
			live := []*msession{}
			for _, s := range e.sessions {
				if !s.dead {
					live = append(live, s)
				}
			}
			if len(live) == 0 {
				t.Skip("no session")
			}
			s := rapid.SampledFrom(live).Draw(t, "sess")
			chunk := rapid.SliceOfN(rapid.Byte(), 0, 24).Draw(t, "chunk")
			r := e.do("PATCH", s.loc, chunk, hdr("Content-Range", fmt.Sprintf("%d-%d", len(s.buf), len(s.buf)+len(chunk)-1)))
			e.logf("sessPatch %s +%d bytes at %d -> %d", s.repo, len(chunk), len(s.buf), r.code)
			if r.code != 202 {
				s.dead = true
				e.abandon("in-order PATCH refused")
			}
			s.buf = append(s.buf, chunk...)
			s.loc = r.hdr.Get("Location")
		},
		"sessFinish": func(t *rapid.T) {
			live := []*msession{}
			for _, s := range e.sessions {
				if !s.dead {
					live = append(live, s)
				}
			}
			if len(live) == 0 {
				t.Skip("no session")
			}
			s := rapid.SampledFrom(live).Draw(t, "sess")
			alg := rapid.SampledFrom(algPool).Draw(t, "finalAlg")
			last := rapid.SliceOfN(rapid.Byte(), 0, 16).Draw(t, "last")
			wrong := ""
			if rapid.IntRange(0, 2).Draw(t, "wrong") == 0 {
				wrong = rapid.SampledFrom([]string{"flip", "other-content", "wrong-prefix"}).Draw(t, "wrongKind")
			}
			// a classic mistake: the digest of only the first part, or only the last chunk
			content := append(append([]byte{}, s.buf...), last...)
			declared := wrongDigest(wrong, alg, content)
			if wrong == "" && len(s.buf) > 0 && len(last) > 0 && rapid.IntRange(0, 3).Draw(t, "partial") == 0 {
				declared, wrong = dig(alg, s.buf), "digest-of-prefix"
			}
			sessAlg := s.alg
			if sessAlg == "" {
				sessAlg = "sha256"
			}
			if sessAlg != alg {
				e.class("alg-change")
				if len(s.buf) > 0 {
					e.class("alg-change-after-write")
				}
			}
			r := e.do("PUT", s.loc+"&digest="+url.QueryEscape(declared), last, nil)
			e.logf("sessFinish %s total=%d alg=%s wrong=%q -> %d", s.repo, len(content), alg, wrong, r.code)
			s.dead = true
			e.universe[declared] = true
			touched = append(touched, declared)
			if wrong != "" {
				e.class("wrong-digest")
				e.c01Refused("session PUT", r, s.repo, declared)
				return
			}
			if r.code != 201 {
				e.abandon(fmt.Sprintf("correct session PUT answered %d", r.code))
			}
			e.repo(s.repo).blobs[declared] = content
		},
		"mount": func(t *rapid.T) {
			digs := sortedKeys(e.universe)
			if len(digs) == 0 {
				t.Skip("nothing to mount")
			}
			d := rapid.SampledFrom(digs).Draw(t, "digest")
			tgt := rapid.SampledFrom(c01Repos).Draw(t, "target")
			src := rapid.SampledFrom(c01Repos).Draw(t, "source")
			q := "?mount=" + url.QueryEscape(d) + "&from=" + url.QueryEscape(src)
			switch rapid.IntRange(0, 5).Draw(t, "fromForm") {
			case 0:
				q, src = "?mount="+url.QueryEscape(d), "(no from)" // the source is left to the registry
			case 1:
				q, src = "?mount="+url.QueryEscape(d)+"&from=Not%20A%20Name", "(invalid from)"
			}
			r := e.do("POST", "/v2/"+tgt+"/blobs/uploads/"+q, nil, nil)
			e.logf("mount %s from %s to %s -> %d", short(d), src, tgt, r.code)
			e.class("mount")
			touched = append(touched, d)
			// a mount carries no content: it can fall back to a session (202), it is never a mismatching upload. In
			// particular a mount of content the target already holds is not refused (guards the repair 834dec7, which
			// must verify the body of monolithic uploads only)
			if _, held := e.repo(tgt).blobs[d]; held && c04DigRE.MatchString(d) && (r.code < 200 || r.code > 299) {
				e.fail("mount-of-held-content-refused", "POST %s on %s, which holds %s, answered %d %s", q, tgt, short(d), r.code, trunc(r.body, 160))
			}
			switch r.code {
			case 201:
				if sr, known := e.repos[src]; known && sr.blobs[d] != nil {
					e.repo(tgt).blobs[d] = sr.blobs[d]
				} else if _, ok := e.repo(tgt).blobs[d]; !ok {
					// C16 decides whether this mount may succeed; here only the served bytes matter (sweep)
					e.st.Add("mount-201-without-source", 1)
				}
			case 202:
				// fallback session: cancel it so that it cannot linger
				_ = e.do("DELETE", sessionPath(r.hdr.Get("Location")), nil, nil)
			}
		},
		"manifest": func(t *rapid.T) {
			rn := rapid.SampledFrom(c01Repos).Draw(t, "repo")
			mr := e.repo(rn)
			blobs := mr.plainBlobs()
			if len(blobs) == 0 {
				t.Skip("no blobs")
			}
			cfg := rapid.SampledFrom(blobs).Draw(t, "config")
			nl := rapid.IntRange(0, 2).Draw(t, "nLayers")
			layers, sizes := []string{}, []int{}
			for i := 0; i < nl; i++ {
				l := rapid.SampledFrom(blobs).Draw(t, "layer")
				layers = append(layers, l)
				sizes = append(sizes, len(mr.blobs[l]))
			}
			ann := map[string]string{"n": fmt.Sprint(rapid.IntRange(0, 3).Draw(t, "salt"))}
			raw, mm := buildImage(mtImage, mtConfig, cfg, len(mr.blobs[cfg]), layers, sizes, nil, "", ann)
			ctype := mtImage
			if ms := sortedKeys(mr.mans); len(ms) > 0 && rapid.IntRange(0, 2).Draw(t, "asIndex") == 0 {
				// an index over manifests already pushed (negotiation by Accept happens on by-tag GETs of indexes)
				kids := []mdesc{}
				for i, n := 0, rapid.IntRange(1, 2).Draw(t, "nChildren"); i < n; i++ {
					c := rapid.SampledFrom(ms).Draw(t, "child")
					kids = append(kids, mdesc{MediaType: mr.mans[c].mt, Digest: c, Size: int64(len(mr.mans[c].raw))})
				}
				raw, mm = buildIndex(mtIndex, kids, nil, "", ann)
				ctype = mtIndex
				e.class("index-pushed")
			}
			alg := rapid.SampledFrom(algPool).Draw(t, "alg")
			p := manifestPlan{repo: rn, raw: raw, mm: mm, ct: ctype, alg: alg, digest: dig(alg, raw)}
			mode := rapid.SampledFrom([]string{"tag", "tag", "digest", "tag+digest"}).Draw(t, "mode")
			wrong := ""
			if rapid.IntRange(0, 2).Draw(t, "wrong") == 0 && mode != "tag" {
				wrong = rapid.SampledFrom([]string{"flip", "other-content", "wrong-prefix"}).Draw(t, "wrongKind")
			}
			declared := wrongDigest(wrong, alg, raw)
			switch mode {
			case "tag":
				p.tag = rapid.SampledFrom(c01Tags).Draw(t, "tag")
				p.ref = p.tag
				p.alg, p.digest = "sha256", dig("sha256", raw)
			case "digest":
				p.ref = declared
			case "tag+digest":
				p.tag = rapid.SampledFrom(c01Tags).Draw(t, "tag")
				p.ref = p.tag
				p.qdig = declared
			}
			r := e.putManifest(p, nil)
			e.logf("manifest %s mode=%s alg=%s wrong=%q tag=%q -> %d", rn, mode, p.alg, wrong, p.tag, r.code)
			e.class("manifest-" + mode)
			e.universe[declared] = true
			e.universe[p.digest] = true
			touched = append(touched, declared, p.digest)
			if wrong != "" {
				e.class("wrong-digest")
				e.class("wrong-digest-manifest")
				before := ""
				if p.tag != "" {
					before = mr.tags[p.tag]
				}
				e.c01Refused("manifest PUT", r, rn, declared)
				if p.tag != "" {
					g := e.do("GET", "/v2/"+rn+"/manifests/"+p.tag, nil, hdr("Accept", acceptAll))
					if g.code == 200 && g.hdr.Get("Docker-Content-Digest") != before {
						e.fail("wrong-digest-moved-tag", "refused manifest PUT moved tag %s to %s", p.tag, g.hdr.Get("Docker-Content-Digest"))
					}
				}
				return
			}
			if r.code != 201 {
				e.abandon(fmt.Sprintf("correct manifest answered %d", r.code))
			}
			if h := r.hdr.Get("Docker-Content-Digest"); h != p.digest {
				e.fail("put-digest-header", "manifest PUT reports digest %s, content hashes to %s", h, p.digest)
			}
			e.acceptManifest(p)
		},
		"": func(*rapid.T) {
			if len(touched) > 0 {
				e.c01Sweep(touched)
				touched = touched[:0]
			}
		},
	}))
	if e.abandoned {
		return
	}
	e.guard(func() {
		e.c01Sweep(sortedKeys(e.universe))
		if e.root != "" {
			if bad := scanBlobFiles(e.root); bad != "" {
				e.fail("blob-file-mismatch", "%s", bad)
			}
		}
	})
	_ = strings.TrimSpace
}

func TestC01(t *testing.T) {
	st := newStats("TestC01", "C01", c01Rule)
	rapid.Check(t, func(t *rapid.T) { c01Property(t, st) })
}
