//go:build verifvfs

package vh

// C02 under injected faults: "After a blob or manifest push has been acknowledged with 201, GET and HEAD on it ... return
// 200 with exactly the pushed bytes ... until the item is explicitly deleted or removed by the configured
// garbage-collection policy." A later request that fails on a file-system error is neither. The k-th mutating call of
// a generated history fails (vfs.FailAt); every push the registry acknowledged - before or after the fault - and that
// no later request of the history deleted, moved or may have deleted must read back byte-identical from the running
// server and from a new server on the same directory.

import (
	"encoding/json"
	"fmt"
	"os"
	"sort"
	"strings"
	"testing"
	"time"

	"pgregory.net/rapid"

	"github.com/olareg/olareg"
	"github.com/olareg/olareg/config"
	"github.com/olareg/olareg/internal/vfs"
)

const c02xRule = "TestC02Faults: directory store, no collection policy; request history as in TestC12Faults, run once without fault to count the mutating file-system calls N, then on a fresh directory with call k (uniform in 1..N) " +
	"failing with EIO, optionally a second one; bookkeeping from the answers alone: a 201 acknowledges the blob, manifest and tag of that step, a delete / tag move / index push over a child makes the objects it addresses uncertain whatever it " +
	"answered; oracle = every acknowledged and not uncertain blob, manifest and tag reads back 200 with the pushed bytes (and digest header for tags) from the running server and after Close + New; " +
	"non-trivial = at least 3 objects were acknowledged before the step that received the fault and at least one after it; distinct = (history, k)"

func c02xProperty(t *rapid.T, st *Stats, owner string) {
	tmp := mkTemp("c02x")
	defer os.RemoveAll(tmp)
	steps := c12fHistoryOpt(t, rapid.Bool().Draw(t, "epilogue"))
	trace := []string{}
	fail := func(key, f string, a ...any) { Fail(t, st, key, fmt.Sprintf(f, a...), trace, nil) }
	conf := func(root string) config.Config { return baseConf(config.StoreDir, root) }
	root0 := tmp + "/count"
	vfs.Reset(root0, true)
	h0 := olareg.New(conf(root0))
	for _, s := range steps {
		if s.run == nil {
			_ = h0.Close()
			h0 = olareg.New(conf(root0))
			continue
		}
		_ = s.run(h0)
	}
	total, totalReads := vfs.MutCount(), vfs.ReadCount()
	indexReads := c12fReadOrdinals(vfs.Log(), root0, "/index.json")
	probeReads := c12fReadOrdinals(vfs.Log(), root0, "probes")
	_ = h0.Close()
	if total == 0 {
		st.Case([]string{"history without mutating call"}, false)
		return
	}
	// the fault: a mutating call (write side) or a reading call (open, stat, readfile, readdir) of the history
	readFault := totalReads > 0 && rapid.IntRange(0, 2).Draw(t, "readFault") == 0
	limit := total
	if readFault {
		limit = totalReads
	}
	k := rapid.IntRange(1, limit).Draw(t, "faultAt")
	if readFault && len(indexReads) > 0 && len(probeReads) > 0 {
		// a third of the reading faults goes to the opens of the file everything else hangs on, a third to the probes
		// the store makes when it meets a repository (uniform within the class), a third anywhere
		switch rapid.IntRange(0, 2).Draw(t, "readClass") {
		case 1:
			k = rapid.SampledFrom(indexReads).Draw(t, "indexRead")
		case 2:
			k = rapid.SampledFrom(probeReads).Draw(t, "probeRead")
		}
	}
	k2 := 0
	if !readFault && rapid.IntRange(0, 3).Draw(t, "secondFault") == 0 {
		k2 = k + rapid.IntRange(1, 12).Draw(t, "secondFaultAfter")
	}
	root := tmp + "/fault"
	vfs.Reset(root, true)
	if readFault {
		vfs.FailReadAt(k)
	} else {
		// one failing call, or (one case in four) a run of 2-6 failing mutating calls: a disk that is full for a while
		vfs.FailRun(k, rapid.SampledFrom([]int{1, 1, 1, 2, 3, 6}).Draw(t, "failingCalls"))
		vfs.FailShort(rapid.Bool().Draw(t, "shortWrite")) // a failing write may have taken half of its buffer
	}
	h := olareg.New(conf(root))
	trace = append(trace, fmt.Sprintf("%d mutating and %d reading file-system calls without fault; fault at %s call %d (second at %d)", total, totalReads, map[bool]string{true: "reading", false: "mutating"}[readFault], k, k2))
	acked := map[string]c12fObj{}
	ackedAt := map[string]int{}
	faultStep, faultOp := -1, ""
	beforeFault, afterFault := 0, 0
	for i, s := range steps {
		s := s
		before := c12fCount(readFault)
		res := ""
		if s.run == nil {
			if !withWatchdog(30*time.Second, func() { _ = h.Close() }) {
				st.Case(trace, false, "abandoned-stuck-close")
				return
			}
			h = olareg.New(conf(root))
			trace = append(trace, "restart")
			// the collection at Close makes file-system calls too: a fault delivered there belongs to this step
			if faultStep < 0 {
				for _, op := range vfs.Log() {
					if strings.HasSuffix(op.Kind, "!fault") {
						faultStep, faultOp = i, fmt.Sprintf("%s(%s)", op.Kind, strings.TrimPrefix(op.Path, root))
						trace = append(trace, "  fault delivered: "+faultOp)
					}
				}
			}
			continue
		}
		if !withWatchdog(30*time.Second, func() { res = s.run(h) }) {
			vfs.Kill(root)
			st.Case(trace, false, "abandoned-stuck-request") // C12's business
			return
		}
		after := c12fCount(readFault)
		if faultStep < 0 && before < k && after >= k {
			faultStep = i
			for _, op := range vfs.Log() {
				if strings.HasSuffix(op.Kind, "!fault") {
					faultOp = fmt.Sprintf("%s(%s)", op.Kind, strings.TrimPrefix(op.Path, root))
				}
			}
			trace = append(trace, "  fault delivered: "+faultOp)
			beforeFault = len(acked)
			if k2 > after {
				vfs.FailAt(k2)
			}
		}
		trace = append(trace, fmt.Sprintf("%s -> %s", s.name, res))
		if s.eff == nil {
			continue
		}
		acks, touches := s.eff(res)
		for _, key := range touches {
			if strings.HasSuffix(key, ":*") {
				for k2 := range acked {
					if strings.HasPrefix(k2, strings.TrimSuffix(key, "*")) {
						delete(acked, k2)
					}
				}
			}
			delete(acked, key)
		}
		for key, o := range acks {
			acked[key], ackedAt[key] = o, i
			if faultStep >= 0 && i > faultStep {
				afterFault++
			}
		}
	}
	vfs.Reset(root, false)
	check := func(srv *olareg.Server, when string) {
		if owner == "C01" {
			// whatever is served under a digest hashes to it, whatever lies in blobs/<alg>/<hex> hashes to its name -
			// acknowledged or not, whatever failed on the way
			if bad := scanBlobFiles(root); bad != "" {
				fail("blob-file-wrong-content-after-io-error", "%s: %s (fault %s in step %d %q)", when, bad, faultOp, faultStep, stepName(steps, faultStep))
			}
			u := c12fUniverse()
			for _, rn := range []string{"r", "r/n"} {
				for _, d := range append(append([]string{}, u.blobs...), u.mans...) {
					for _, what := range []string{"blobs", "manifests"} {
						g := doReq(srv, "GET", "/v2/"+rn+"/"+what+"/"+d, nil, hdr("Accept", acceptAll))
						if g.code == 200 && !hashesTo(d, g.body) {
							fail("served-under-wrong-digest-after-io-error", "%s: GET /v2/%s/%s/%s returns %d bytes that do not hash to it (fault %s in step %d %q)", when, rn, what, short(d), len(g.body), faultOp, faultStep, stepName(steps, faultStep))
						}
					}
				}
				for _, tg := range u.tags {
					g := doReq(srv, "GET", "/v2/"+rn+"/manifests/"+tg, nil, hdr("Accept", acceptAll))
					if g.code == 200 && !hashesTo(g.hdr.Get("Docker-Content-Digest"), g.body) {
						fail("served-under-wrong-digest-after-io-error", "%s: tag %s of %s reports %s, the body does not hash to it (fault %s in step %d %q)", when, tg, rn, short(g.hdr.Get("Docker-Content-Digest")), faultOp, faultStep, stepName(steps, faultStep))
					}
				}
			}
			return
		}
		if owner == "C03" {
			// the listing is exactly the set of tags that resolve, each once, in lexical order
			u := c12fUniverse()
			for _, rn := range []string{"r", "r/n"} {
				resolvable := []string{}
				for _, tg := range u.tags {
					if g := doReq(srv, "HEAD", "/v2/"+rn+"/manifests/"+tg, nil, hdr("Accept", acceptAll)); g.code == 200 {
						resolvable = append(resolvable, tg)
					}
				}
				sort.Strings(resolvable)
				l := doReq(srv, "GET", "/v2/"+rn+"/tags/list", nil, nil)
				var tl struct{ Tags []string }
				_ = json.Unmarshal(l.body, &tl)
				if l.code == 200 && fmt.Sprint(tl.Tags) != fmt.Sprint(resolvable) && !(len(tl.Tags) == 0 && len(resolvable) == 0) {
					fail("tag-list-inexact-after-io-error", "%s: tags/list of %s is %v, the tags that resolve are %v (fault %s in step %d %q)", when, rn, tl.Tags, resolvable, faultOp, faultStep, stepName(steps, faultStep))
				}
			}
		}
		for _, key := range sortedKeys(acked) {
			o := acked[key]
			p := strings.SplitN(key, ":", 3)
			if owner == "C03" && p[0] != "tag" {
				continue
			}
			var r resp
			switch p[0] {
			case "blob":
				r = doReq(srv, "GET", "/v2/"+p[1]+"/blobs/"+o.digest, nil, nil)
			case "man":
				r = doReq(srv, "GET", "/v2/"+p[1]+"/manifests/"+o.digest, nil, hdr("Accept", acceptAll))
			case "tag":
				r = doReq(srv, "GET", "/v2/"+p[1]+"/manifests/"+p[2], nil, hdr("Accept", acceptAll))
				if r.code == 200 && r.hdr.Get("Docker-Content-Digest") != o.digest {
					fail("acknowledged-tag-moved-after-io-error", "%s: tag %s of %s was acknowledged for %s in step %d (%q), no later step addressed it; it now resolves to %s (fault %s in step %d %q)", when, p[2], p[1], short(o.digest), ackedAt[key], steps[ackedAt[key]].name, short(r.hdr.Get("Docker-Content-Digest")), faultOp, faultStep, stepName(steps, faultStep))
				}
			}
			if r.code != 200 || !sameBytes(r.body, o.body) {
				fail("acknowledged-lost-after-io-error", "%s: %s (%s) was acknowledged with 201 in step %d (%q), no later step deleted or moved it; GET answers %d with %d bytes, %d were pushed (fault %s in step %d %q)", when, key, short(o.digest), ackedAt[key], steps[ackedAt[key]].name, r.code, len(r.body), len(o.body), faultOp, faultStep, stepName(steps, faultStep))
			}
		}
	}
	check(h, "running server")
	if !withWatchdog(30*time.Second, func() { _ = h.Close() }) {
		st.Case(trace, false, "abandoned-stuck-close")
		return
	}
	h2 := olareg.New(conf(root))
	check(h2, "after Close and New on the same directory")
	_ = h2.Close()
	classes := []string{}
	if faultStep >= 0 {
		classes = append(classes, "fault-delivered", "fault-in:"+strings.Fields(steps[faultStep].name)[0])
	}
	st.Add("acknowledged-objects-checked", len(acked))
	st.Case(append([]string{fmt.Sprintf("k=%d", k)}, trace...), faultStep >= 0 && beforeFault >= 3 && afterFault >= 1, classes...)
}

func TestC02Faults(t *testing.T) {
	st := newStats("TestC02Faults", "C02", c02xRule)
	rapid.Check(t, func(rt *rapid.T) { c02xProperty(rt, st, "C02") })
}

// C03 on the same histories: a tag that was acknowledged and that no later request addressed still resolves to the
// manifest pushed under it, and the listing is exactly the set of resolvable tags - whatever failed in between.
const c03xRule = "TestC03Faults: the histories and faults of TestC02Faults (directory store, reading and mutating faults, short writes, restarts); oracle = every tag acknowledged with 201 that no later tag push, tag delete or manifest delete " +
	"addressed resolves to the manifest pushed under it, and tags/list of both repositories equals the sorted set of tags that resolve, on the running server and after Close + New; " +
	"non-trivial = at least 3 objects were acknowledged before the step that received the fault and at least one after it; distinct = (history, k)"

const c01xRule = "TestC01Faults: the histories and faults of TestC02Faults (directory store, reading and mutating faults, short writes, a client that resumes a failed chunk, restarts); oracle = every file under blobs/<alg>/<hex> " +
	"hashes to its name, and every 200 for a blob, manifest or tag of the case carries bytes that hash to the digest it is served under, on the running server and after Close + New - acknowledged or not; " +
	"non-trivial = at least 3 objects were acknowledged before the step that received the fault and at least one after it; distinct = (history, k)"

func TestC01Faults(t *testing.T) {
	st := newStats("TestC01Faults", "C01", c01xRule)
	rapid.Check(t, func(rt *rapid.T) { c02xProperty(rt, st, "C01") })
}

func TestC03Faults(t *testing.T) {
	st := newStats("TestC03Faults", "C03", c03xRule)
	rapid.Check(t, func(rt *rapid.T) { c02xProperty(rt, st, "C03") })
}
