package vh

// C01 at the component that computes digests: the upload object of both stores (store.BlobCreator).
// The HTTP handlers call Write / Verify / ChangeAlgorithm / Close in a fixed order; other orders are reachable when
// requests on one session overlap (finding 26) and from other callers of the package. Whatever the order, the name a
// blob is committed under must be the digest of all the bytes written to it.

import (
	"context"
	"fmt"
	"io"
	"os"
	"testing"

	"github.com/opencontainers/go-digest"
	"pgregory.net/rapid"

	"github.com/olareg/olareg/config"
	"github.com/olareg/olareg/internal/store"
)

const c01sRule = "rapid state machine over one store.BlobCreator (mem and dir): Write of 0-200 byte chunks, Verify with the right or a wrong digest under sha256/sha384/sha512, ChangeAlgorithm, Size, Digest, in any order, " +
	"sessions created plain, for an algorithm or for an expected digest (right or wrong), then Close, Cancel, or Cancel followed by Close (a cancel overlapping the completing request); oracle = Size/Digest agree with the bytes written, Verify succeeds exactly for the digest of those bytes, " +
	"a successful Close leaves exactly one new blob, named by the digest of all bytes written, reading back identical; a failed Close or a Cancel leaves none; " +
	"non-trivial = a Verify or ChangeAlgorithm under another algorithm than the session's happened after the first Write and the session was closed; distinct = hash of the op trace"

func c01sProperty(t *rapid.T, st *Stats) {
	dirStore := rapid.Bool().Draw(t, "dirStore")
	root := ""
	kind := config.StoreMem
	if dirStore {
		root = mkTemp("c01s")
		defer os.RemoveAll(root)
		kind = config.StoreDir
	}
	conf := baseConf(kind, root)
	conf.SetDefaults()
	var s store.Store
	if dirStore {
		s = store.NewDir(conf)
	} else {
		s = store.NewMem(conf)
	}
	defer s.Close()
	repo, err := s.RepoGet(context.Background(), "r")
	if err != nil {
		t.Fatalf("RepoGet: %v", err)
	}
	defer repo.Done()
	algs := []digest.Algorithm{digest.SHA256, digest.SHA384, digest.SHA512}
	content := []byte{}
	planned := rapid.SliceOfN(rapid.SliceOfN(rapid.Byte(), 0, 200), 0, 4).Draw(t, "plannedContent")
	full := []byte{}
	for _, c := range planned {
		full = append(full, c...)
	}
	trace := []string{fmt.Sprintf("dir=%v", dirStore)}
	fail := func(key, f string, a ...any) { Fail(t, st, key, fmt.Sprintf(f, a...), trace, nil) }
	opts := []store.BlobOpt{}
	cur := digest.SHA256
	expect := digest.Digest("")
	switch rapid.SampledFrom([]string{"plain", "plain", "algorithm", "expect-right", "expect-wrong"}).Draw(t, "create") {
	case "algorithm":
		cur = rapid.SampledFrom(algs).Draw(t, "createAlg")
		opts = append(opts, store.BlobWithAlgorithm(cur))
	case "expect-right":
		cur = rapid.SampledFrom(algs).Draw(t, "createAlg")
		expect = cur.FromBytes(full)
		opts = append(opts, store.BlobWithDigest(expect))
	case "expect-wrong":
		cur = rapid.SampledFrom(algs).Draw(t, "createAlg")
		expect = cur.FromBytes(append([]byte("other"), full...))
		opts = append(opts, store.BlobWithDigest(expect))
	}
	trace = append(trace, fmt.Sprintf("BlobCreate alg=%s expect=%s", cur, short(string(expect))))
	bc, _, err := repo.BlobCreate(opts...)
	if err != nil {
		t.Fatalf("BlobCreate: %v", err)
	}
	crossAlg := false
	next := 0
	check := func(after string) {
		if int(bc.Size()) != len(content) {
			fail("size", "after %s: Size()=%d, %d bytes were written", after, bc.Size(), len(content))
		}
		if got := bc.Digest(); got != cur.FromBytes(content) {
			fail("digest", "after %s: Digest()=%s, the bytes written hash to %s", after, got, cur.FromBytes(content))
		}
	}
	t.Repeat(map[string]func(*rapid.T){
		"write": func(t *rapid.T) {
			var c []byte
			if next < len(planned) {
				c = planned[next]
				next++
			} else {
				c = rapid.SliceOfN(rapid.Byte(), 0, 50).Draw(t, "extra")
			}
			n, err := bc.Write(c)
			trace = append(trace, fmt.Sprintf("Write(%d bytes) -> %d,%v", len(c), n, err))
			if err != nil || n != len(c) {
				fail("write", "Write of %d bytes returned %d, %v", len(c), n, err)
			}
			content = append(content, c...)
			check("Write")
		},
		"verify": func(t *rapid.T) {
			a := rapid.SampledFrom(algs).Draw(t, "alg")
			right := rapid.Bool().Draw(t, "right")
			d := a.FromBytes(content)
			if !right {
				d = a.FromBytes(append([]byte("x"), content...))
			}
			err := bc.Verify(d)
			trace = append(trace, fmt.Sprintf("Verify(%s right=%v) -> %v", a, right, err))
			// a session created for an expected digest verifies only that digest
			want := right && (expect == "" || d == expect)
			if (err == nil) != want {
				fail("verify", "Verify(%s) = %v, the bytes written hash to %s (session expects %q)", d, err, a.FromBytes(content), expect)
			}
			if a != cur && len(content) > 0 {
				crossAlg = true
			}
			// the implementation switches to the algorithm asked about; what Digest() reports afterwards tells which
			cur = bc.Digest().Algorithm()
			check("Verify")
		},
		"changeAlgorithm": func(t *rapid.T) {
			a := rapid.SampledFrom(algs).Draw(t, "alg")
			err := bc.ChangeAlgorithm(a)
			trace = append(trace, fmt.Sprintf("ChangeAlgorithm(%s) -> %v", a, err))
			if err == nil {
				cur = a
			} else if len(content) == 0 {
				fail("change-algorithm", "ChangeAlgorithm(%s) before the first write failed: %v", a, err)
			}
			check("ChangeAlgorithm")
		},
	})
	final := cur.FromBytes(content)
	ending := rapid.SampledFrom([]string{"close", "close", "close", "close", "cancel", "cancel-then-close"}).Draw(t, "ending")
	closeIt := ending == "close"
	if ending == "cancel-then-close" {
		// a DELETE of the session that overlaps the PUT completing it: the handler of the PUT holds the object and goes
		// on to Verify and Close after the other request has cancelled it. Whether the blob is stored is the outcome
		// of a race and not asserted; what is stored must hash to its name (swept below).
		err := bc.Cancel()
		trace = append(trace, fmt.Sprintf("Cancel -> %v", err))
		if rapid.Bool().Draw(t, "verifyAfterCancel") {
			err = bc.Verify(final)
			trace = append(trace, fmt.Sprintf("Verify(%s) after Cancel -> %v", short(string(final)), err))
		}
		err = bc.Close()
		trace = append(trace, fmt.Sprintf("Close after Cancel -> %v", err))
	} else if !closeIt {
		err := bc.Cancel()
		trace = append(trace, fmt.Sprintf("Cancel -> %v", err))
	} else {
		err := bc.Close()
		trace = append(trace, fmt.Sprintf("Close -> %v (bytes written hash to %s)", err, final))
		wantOK := expect == "" || expect == final
		if (err == nil) != wantOK {
			fail("close", "Close = %v; session expects %q, the bytes written hash to %s", err, expect, final)
		}
		if err == nil {
			r, err := repo.BlobGet(final)
			if err != nil {
				fail("committed-under-other-name", "after a successful Close the blob is not stored under %s, the digest of the %d bytes written: %v", final, len(content), err)
			}
			got, _ := io.ReadAll(r)
			_ = r.Close()
			if string(got) != string(content) {
				fail("committed-content", "blob %s reads back %d bytes, %d were written", final, len(got), len(content))
			}
		}
	}
	// nothing may be stored under a name its content does not hash to
	for _, a := range algs {
		for _, cand := range [][]byte{content, full, {}} {
			d := a.FromBytes(cand)
			r, err := repo.BlobGet(d)
			if err != nil {
				continue
			}
			got, _ := io.ReadAll(r)
			_ = r.Close()
			if a.FromBytes(got) != d {
				fail("served-under-wrong-digest", "blob %s holds %d bytes that hash to %s", d, len(got), a.FromBytes(got))
			}
			if ending == "cancel" {
				fail("cancelled-upload-stored", "after Cancel a blob %s exists", d)
			}
		}
	}
	st.Case(trace, crossAlg && closeIt)
}

func TestC01Store(t *testing.T) {
	st := newStats("TestC01Store", "C01", c01sRule)
	rapid.Check(t, func(rt *rapid.T) { c01sProperty(rt, st) })
}
