//go:build verifvfs

package vh

// C09 — a crash at any filesystem step loses nothing acknowledged and tears nothing (DESIGN.md §3 C09).
// Histories are generated as abstract operations, interpreted once without faults to count the mutating
// file-system calls, then re-interpreted with the vfs shim armed at each crash point.

import (
	"encoding/json"
	"fmt"
	"net/url"
	"os"
	"path/filepath"
	"sort"
	"strings"
	"testing"
	"time"

	"pgregory.net/rapid"

	"github.com/olareg/olareg"
	"github.com/olareg/olareg/config"
	"github.com/olareg/olareg/internal/vfs"
)

const c09Rule = "generated histories of 3-10 operations on the dir store (blob uploads by three protocols, images, artifacts, indexes by tag/digest, tag moves, tag/manifest/blob deletes, collections with Untagged on and grace off, " +
	"first pushes to new and nested repositories); every mutating file-system call k of the fault-free run is a crash point in three modes (before k, after k, torn write at k): the history is re-executed on a fresh root with the " +
	"vfs shim armed, the process 'dies' (further mutations suppressed, goroutine parked), a new server opens the tree it left; oracle = layout validator + acknowledged-prefix model + all-or-nothing on the interrupted request " +
	"+ tagged closure intact and convergence after a crash inside a collection; non-trivial = crash point inside a request that changes index.json or renames a blob, after >=1 acknowledged write; distinct = (history hash, k, mode)"

var c09Repos = []string{"r1", "r2/n"}
var c09Tags = []string{"t1", "t2"}
var c09Contents = [][]byte{[]byte("{}"), []byte("layer-one"), []byte("layer-two"), bigBlob(40*1024, 7)}

type c09Op struct {
	Kind     string // blob image artifact index deleteTag deleteManifest deleteBlob collect
	Repo     string
	Content  int   // blob: content index
	Proto    int   // blob: 0 mono, 1 post+put, 2 post+patch+put
	Layers   []int // image: layer content indexes
	Salt     int
	Tag      string // "" = by digest
	Target   int    // index into the manifests pushed so far (subject / child / delete target), modulo
	Missing  bool   // artifact: subject that does not exist
	Children int    // index: number of children
}

func (o c09Op) String() string {
	return fmt.Sprintf("%s{repo=%s content=%d proto=%d layers=%v salt=%d tag=%q target=%d missing=%v children=%d}", o.Kind, o.Repo, o.Content, o.Proto, o.Layers, o.Salt, o.Tag, o.Target, o.Missing, o.Children)
}

func c09GenOps(t *rapid.T) []c09Op {
	n := rapid.IntRange(3, 10).Draw(t, "nOps")
	ops := []c09Op{}
	for i := 0; i < n; i++ {
		o := c09Op{Repo: rapid.SampledFrom(c09Repos).Draw(t, "repo")}
		o.Kind = rapid.SampledFrom([]string{"blob", "image", "image", "image", "artifact", "artifact", "index", "retag", "retag", "deleteTag", "deleteManifest", "deleteBlob", "collect"}).Draw(t, "kind")
		o.Content = rapid.IntRange(0, len(c09Contents)-1).Draw(t, "content")
		o.Proto = rapid.IntRange(0, 2).Draw(t, "proto")
		o.Salt = rapid.IntRange(0, 2).Draw(t, "salt")
		o.Target = rapid.IntRange(0, 7).Draw(t, "target")
		if rapid.IntRange(0, 2).Draw(t, "byTag") > 0 {
			o.Tag = rapid.SampledFrom(c09Tags).Draw(t, "tag")
		}
		if o.Kind == "image" {
			for j, k := 0, rapid.IntRange(0, 2).Draw(t, "nLayers"); j < k; j++ {
				o.Layers = append(o.Layers, rapid.IntRange(1, 2).Draw(t, "layer"))
			}
		}
		o.Missing = rapid.IntRange(0, 4).Draw(t, "missingSubject") == 0
		o.Children = rapid.IntRange(0, 2).Draw(t, "nChildren")
		ops = append(ops, o)
	}
	return ops
}

type c09Snap map[string]string

type crashSignal struct{}

type c09Run struct {
	srv       *olareg.Server
	root      string
	repos     map[string]*mrepo
	order     map[string][]string // repo -> manifests in push order
	snaps     []c09Snap           // state after request i (index 0 = initial)
	gcReq     map[int]bool        // request indexes that are collections
	reqDesc   []string
	crashReq  int // request index during which the crash happened (0 = none)
	subjects  map[string]bool
	trace     []string
	failStat  string
	noFinding bool
}

func newC09Run(root string, emptyRepo bool) *c09Run {
	conf := baseConf(config.StoreDir, root)
	conf.Storage.GC.Untagged, conf.Storage.GC.GracePeriod, conf.Storage.GC.EmptyRepo = bp(true), -1, bp(emptyRepo)
	r := &c09Run{srv: olareg.New(conf), root: root, repos: map[string]*mrepo{}, order: map[string][]string{}, gcReq: map[int]bool{}, subjects: map[string]bool{}}
	for _, rn := range c09Repos {
		r.repos[rn] = newMRepo()
	}
	r.snaps = []c09Snap{r.snap()}
	r.reqDesc = []string{"(start)"}
	return r
}

func (r *c09Run) snap() c09Snap {
	s := c09Snap{}
	for rn, mr := range r.repos {
		for tg, d := range mr.tags {
			s[rn+"|tag|"+tg] = d
		}
		for d, m := range mr.mans {
			s[rn+"|man|"+d] = "1"
			if m.subject != "" {
				s[rn+"|ref|"+m.subject+"|"+d] = "1"
			}
		}
		for d := range mr.blobs {
			s[rn+"|blob|"+d] = "1"
		}
	}
	return s
}

// req sends one request on its own goroutine; a crash of the simulated process unwinds the interpreter.
// effect is applied to the model when the request is acknowledged with one of the ok codes.
func (r *c09Run) req(method, u string, body []byte, o *reqOpt, effect func(resp), ok ...int) resp {
	idx := len(r.snaps)
	r.reqDesc = append(r.reqDesc, fmt.Sprintf("%s %s", method, trunc([]byte(u), 90)))
	done := make(chan resp, 1)
	go func() { done <- doReq(r.srv, method, u, body, o) }()
	var res resp
	select {
	case res = <-done:
	case <-vfs.Crashed():
		r.crashReq = idx
		panic(crashSignal{})
	case <-time.After(60 * time.Second):
		r.failStat = fmt.Sprintf("request %d (%s %s) did not return within 60 s", idx, method, u)
		panic(crashSignal{})
	}
	if res.panicV != nil || res.code >= 500 {
		r.failStat = fmt.Sprintf("request %d (%s %s) answered %d %v", idx, method, u, res.code, res.panicV)
	}
	for _, c := range ok {
		if res.code == c && effect != nil {
			effect(res)
		}
	}
	r.trace = append(r.trace, fmt.Sprintf("#%d %s %s -> %d", idx, method, trunc([]byte(u), 90), res.code))
	r.snaps = append(r.snaps, r.snap())
	return res
}

func (r *c09Run) pushBlob(rn string, b []byte, proto int) {
	d := dig("sha256", b)
	mr := r.repos[rn]
	eff := func(resp) { mr.blobs[d] = b }
	base := "/v2/" + rn + "/blobs/uploads/"
	switch proto {
	case 0:
		r.req("POST", base+"?digest="+d, b, nil, eff, 201)
	case 1:
		p := r.req("POST", base, nil, nil, nil)
		if p.code == 202 {
			r.req("PUT", p.hdr.Get("Location")+"&digest="+d, b, nil, eff, 201)
		}
	default:
		p := r.req("POST", base, nil, nil, nil)
		if p.code != 202 {
			return
		}
		cut := len(b) / 2
		q := r.req("PATCH", p.hdr.Get("Location"), b[:cut], hdr("Content-Range", fmt.Sprintf("0-%d", cut-1)), nil)
		if q.code == 202 {
			r.req("PUT", q.hdr.Get("Location")+"&digest="+d, b[cut:], nil, eff, 201)
		}
	}
}

func (r *c09Run) ensureBlob(rn string, b []byte) string {
	d := dig("sha256", b)
	if _, ok := r.repos[rn].blobs[d]; !ok {
		r.pushBlob(rn, b, 0)
	}
	return d
}

func (r *c09Run) putManifest(rn string, raw []byte, mm *mman, tag string) {
	mr := r.repos[rn]
	d := dig("sha256", raw)
	ref := d
	if tag != "" {
		ref = tag
	}
	r.req("PUT", "/v2/"+rn+"/manifests/"+ref, raw, hdr("Content-Type", mm.mt), func(resp) {
		mr.blobs[d] = raw
		mr.mans[d] = mm
		mr.everMans[d] = mm
		if tag != "" {
			mr.tags[tag] = d
		}
		r.order[rn] = append(r.order[rn], d)
		if mm.isIndex {
			for _, c := range mm.refs {
				mr.markFuzzy(c) // finding 12: children leave index.json; their by-digest visibility is not asserted
			}
		}
	}, 201)
}

func (r *c09Run) exec(ops []c09Op) {
	defer func() {
		if p := recover(); p != nil {
			if _, ok := p.(crashSignal); !ok {
				panic(p)
			}
		}
	}()
	for _, o := range ops {
		mr := r.repos[o.Repo]
		switch o.Kind {
		case "blob":
			r.pushBlob(o.Repo, c09Contents[o.Content], o.Proto)
		case "image", "artifact":
			cfg := r.ensureBlob(o.Repo, c09Contents[0])
			layers, sizes := []string{}, []int{}
			for _, l := range o.Layers {
				layers = append(layers, r.ensureBlob(o.Repo, c09Contents[l]))
				sizes = append(sizes, len(c09Contents[l]))
			}
			var subj *mdesc
			if o.Kind == "artifact" {
				sd := dig("sha256", []byte("subject that was never pushed"))
				if l := r.order[o.Repo]; len(l) > 0 && !o.Missing {
					sd = l[o.Target%len(l)]
				}
				subj = &mdesc{MediaType: mtImage, Digest: sd, Size: 7}
				r.subjects[sd] = true
			}
			raw, mm := buildImage(mtImage, mtConfig, cfg, 2, layers, sizes, subj, "application/vnd.x.c09", map[string]string{"salt": fmt.Sprint(o.Salt)})
			r.putManifest(o.Repo, raw, mm, o.Tag)
		case "index":
			kids := []mdesc{}
			l := r.order[o.Repo]
			for i := 0; i < o.Children && len(l) > 0; i++ {
				c := l[(o.Target+i)%len(l)]
				if m := mr.mans[c]; m != nil {
					kids = append(kids, mdesc{MediaType: m.mt, Digest: c, Size: int64(len(m.raw))})
				}
			}
			raw, mm := buildIndex(mtIndex, kids, nil, "", map[string]string{"salt": fmt.Sprint(o.Salt)})
			r.putManifest(o.Repo, raw, mm, o.Tag)
		case "retag":
			// an existing manifest gets (another) tag: an in-place update of its index entry, or a tag move
			l := r.order[o.Repo]
			if len(l) == 0 {
				continue
			}
			d := l[o.Target%len(l)]
			m := mr.mans[d]
			if m == nil {
				continue
			}
			tg := o.Tag
			if tg == "" {
				tg = c09Tags[o.Salt%len(c09Tags)]
			}
			r.putManifest(o.Repo, m.raw, m, tg)
		case "deleteTag":
			tg := o.Tag
			if tg == "" {
				tg = c09Tags[o.Target%len(c09Tags)]
			}
			r.req("DELETE", "/v2/"+o.Repo+"/manifests/"+tg, nil, nil, func(resp) { delete(mr.tags, tg) }, 202)
		case "deleteManifest":
			l := r.order[o.Repo]
			if len(l) == 0 {
				continue
			}
			d := l[o.Target%len(l)]
			r.req("DELETE", "/v2/"+o.Repo+"/manifests/"+d, nil, nil, func(resp) {
				x := mr.mans[d]
				delete(mr.mans, d)
				for tg, td := range mr.tags {
					if td == d {
						delete(mr.tags, tg)
					}
				}
				if x != nil && x.isIndex {
					for _, c := range x.refs {
						mr.markFuzzy(c)
					}
				}
				// finding 12: a deleted manifest that is still a child of a present index comes back after a restart
				for _, o := range mr.mans {
					if o.isIndex {
						for _, c := range o.refs {
							if c == d {
								mr.markFuzzy(d)
							}
						}
					}
				}
			}, 202)
		case "deleteBlob":
			d := dig("sha256", c09Contents[o.Content])
			r.req("DELETE", "/v2/"+o.Repo+"/blobs/"+d, nil, nil, func(resp) { delete(mr.blobs, d) }, 202)
		case "collect":
			r.collect(o.Repo)
		}
		if r.failStat != "" {
			return
		}
	}
}

// collect runs a collection like a request (its own goroutine, crash aware) and re-synchronises the model.
func (r *c09Run) collect(rn string) {
	idx := len(r.snaps)
	r.gcReq[idx] = true
	r.reqDesc = append(r.reqDesc, "collect "+rn)
	done := make(chan error, 1)
	go func() { done <- r.srv.VerifGC(rn) }()
	select {
	case <-done:
	case <-vfs.Crashed():
		r.crashReq = idx
		panic(crashSignal{})
	case <-time.After(60 * time.Second):
		r.failStat = "collection did not return within 60 s"
		panic(crashSignal{})
	}
	r.resync(rn)
	r.trace = append(r.trace, fmt.Sprintf("#%d collect %s", idx, rn))
	r.snaps = append(r.snaps, r.snap())
}

// keepSet: tagged manifests and everything they reference (the part a collection may never touch).
func (r *c09Run) keepSet(rn string) map[string]bool {
	mr := r.repos[rn]
	keep := map[string]bool{}
	var walk func(d string)
	walk = func(d string) {
		if keep[d] {
			return
		}
		keep[d] = true
		if m := mr.everMans[d]; m != nil {
			for _, c := range m.refs {
				walk(c)
			}
		}
	}
	for _, d := range mr.tags {
		walk(d)
	}
	return keep
}

// resync drops from the model what a collection removed outside the keep set.
func (r *c09Run) resync(rn string) {
	mr := r.repos[rn]
	keep := r.keepSet(rn)
	for d := range mr.blobs {
		if !keep[d] {
			if g := doReq(r.srv, "HEAD", "/v2/"+rn+"/blobs/"+d, nil, nil); g.code == 404 {
				delete(mr.blobs, d)
			}
		}
	}
	for d := range mr.mans {
		if !keep[d] || mr.fuzzy[d] {
			if g := doReq(r.srv, "HEAD", "/v2/"+rn+"/manifests/"+d, nil, hdr("Accept", acceptAll)); g.code == 404 {
				delete(mr.mans, d)
			}
		}
	}
}

// c09Observe reads the components of universe from a (restarted) server.
func c09Observe(h *olareg.Server, universe map[string]bool) (c09Snap, string) {
	obs := c09Snap{}
	for k := range universe {
		p := strings.Split(k, "|")
		rn := p[0]
		switch p[1] {
		case "tag":
			g := doReq(h, "GET", "/v2/"+rn+"/manifests/"+p[2], nil, hdr("Accept", acceptAll))
			if g.code >= 500 || g.panicV != nil {
				return nil, fmt.Sprintf("GET tag %s/%s answered %d %v", rn, p[2], g.code, g.panicV)
			}
			if g.code == 200 {
				d := g.hdr.Get("Docker-Content-Digest")
				if !hashesTo(d, g.body) {
					return nil, fmt.Sprintf("tag %s/%s: body does not hash to %s", rn, p[2], d)
				}
				obs[k] = d
			}
		case "man":
			g := doReq(h, "GET", "/v2/"+rn+"/manifests/"+p[2], nil, hdr("Accept", acceptAll))
			if g.code >= 500 || g.panicV != nil {
				return nil, fmt.Sprintf("GET manifest %s/%s answered %d %v", rn, short(p[2]), g.code, g.panicV)
			}
			if g.code == 200 {
				if !hashesTo(p[2], g.body) {
					return nil, fmt.Sprintf("manifest %s/%s: body does not hash to its digest", rn, short(p[2]))
				}
				obs[k] = "1"
			}
		case "blob":
			g := doReq(h, "GET", "/v2/"+rn+"/blobs/"+p[2], nil, nil)
			if g.code >= 500 || g.panicV != nil {
				return nil, fmt.Sprintf("GET blob %s/%s answered %d %v", rn, short(p[2]), g.code, g.panicV)
			}
			if g.code == 200 {
				if !hashesTo(p[2], g.body) {
					return nil, fmt.Sprintf("blob %s/%s: half-written content served (%d bytes)", rn, short(p[2]), len(g.body))
				}
				obs[k] = "1"
			}
		case "ref":
			g := doReq(h, "GET", "/v2/"+rn+"/referrers/"+p[2], nil, nil)
			if g.code >= 500 || g.panicV != nil {
				return nil, fmt.Sprintf("GET referrers %s/%s answered %d %v", rn, short(p[2]), g.code, g.panicV)
			}
			var idx mbody
			_ = json.Unmarshal(g.body, &idx)
			for _, x := range idx.Manifests {
				if x.Digest == p[3] {
					obs[k] = "1"
				}
			}
		}
	}
	return obs, ""
}

func c09Property(t *rapid.T, st *Stats) {
	ops := c09GenOps(t)
	emptyRepo := rapid.Bool().Draw(t, "emptyRepo")
	tmp := mkTemp("c09")
	defer os.RemoveAll(tmp)
	opsDesc := []string{fmt.Sprintf("emptyRepo=%v", emptyRepo)}
	for _, o := range ops {
		opsDesc = append(opsDesc, o.String())
	}
	// ---- fault-free run: count the mutating calls, record the model after every request
	root0 := filepath.Join(tmp, "run0")
	_ = os.MkdirAll(root0, 0o755)
	vfs.Reset(root0, true)
	run0 := newC09Run(root0, emptyRepo)
	run0.exec(ops)
	nMut := vfs.MutCount()
	log0 := vfs.Log()
	vfs.Reset(root0, false)
	fail := func(key string, trace []string, f string, a ...any) {
		Fail(t, st, key, fmt.Sprintf(f, a...), append(append([]string{}, opsDesc...), trace...), nil)
	}
	if run0.failStat != "" {
		_ = run0.srv.Close()
		fail("fault-free-run", run0.trace, "the fault-free run already misbehaves: %s", run0.failStat)
	}
	universe := map[string]bool{}
	for _, s := range run0.snaps {
		for k := range s {
			universe[k] = true
		}
	}
	// the last crash point of every history: the process dies right after the final acknowledgement (no Close)
	{
		rz := filepath.Join(tmp, "after-last")
		copyTree(root0, rz)
		_ = run0.srv.Close()
		vfs.Reset(rz, false)
		conf := baseConf(config.StoreDir, rz)
		conf.Storage.GC.Untagged, conf.Storage.GC.GracePeriod, conf.Storage.GC.EmptyRepo = bp(true), -1, bp(emptyRepo)
		sz := olareg.New(conf)
		obs, problem := c09Observe(sz, universe)
		_ = sz.Close()
		trace := append(append([]string{}, run0.trace...), "CRASH right after the last acknowledgement (server dropped without Close)")
		if problem != "" {
			fail("restart-read-fails", trace, "after the last request, a crash and a restart: %s", problem)
		}
		final := run0.snaps[len(run0.snaps)-1]
		for key := range universe {
			p := strings.Split(key, "|")
			if p[1] == "man" && run0.repos[p[0]].fuzzy[p[2]] {
				continue
			}
			if p[1] == "blob" && final[key] == "" {
				continue // leftovers of deleted or collected items are invisible through the index
			}
			if obs[key] != final[key] {
				fail("acknowledged-state-lost", trace, "%s: every request was acknowledged and the state was %q; after a crash right behind the last acknowledgement and a restart it is %q", key, final[key], obs[key])
			}
		}
		st.Add("crash-after-last-acknowledgement", 1)
		_ = os.RemoveAll(rz)
	}
	// which request owns which mutating call (for the non-triviality rule)
	interesting := map[int]bool{}
	for _, op := range log0 {
		if op.Mut && (op.Kind == "rename" || strings.Contains(op.Path, "index.json")) {
			interesting[op.N] = true
		}
	}
	points := []int{}
	for k := 1; k <= nMut; k++ {
		points = append(points, k)
	}
	limit := envInt("VERIF_C09_CRASH_POINTS", 14)
	if tierName == "thorough" {
		limit = 100000
	}
	exhaustive := len(points) <= limit
	if !exhaustive {
		picked := map[int]bool{}
		for len(picked) < limit {
			picked[rapid.IntRange(1, nMut).Draw(t, "crashPoint")] = true
		}
		points = points[:0]
		for k := range picked {
			points = append(points, k)
		}
		sort.Ints(points)
	}
	avoidTorn := avoid("C09/torn-referrers-update")
	hist := fmt.Sprint(hashStrings(opsDesc))
	for _, k := range points {
		for _, mode := range []int{vfs.ModeBefore, vfs.ModeAfter, vfs.ModeTorn} {
			rk := filepath.Join(tmp, fmt.Sprintf("crash-%d-%d", k, mode))
			_ = os.MkdirAll(rk, 0o755)
			vfs.Reset(rk, false)
			vfs.Arm(k, mode)
			run := newC09Run(rk, emptyRepo)
			run.exec(ops)
			st.Add("crash-runs", 1)
			if run.crashReq == 0 {
				// the armed call was not reached (it belonged to Close or the order of calls differed): no crash happened
				_ = run.srv.Close()
				_ = os.RemoveAll(rk)
				st.Add("crash-point-not-reached", 1)
				continue
			}
			trace := append(append([]string{}, run.trace...), fmt.Sprintf("CRASH at mutating call %d of %d (mode %d) during request #%d: %s", k, nMut, mode, run.crashReq, run.reqDesc[run.crashReq]))
			before := run.snaps[len(run.snaps)-1]
			var after c09Snap
			if run.crashReq < len(run0.snaps) {
				after = run0.snaps[run.crashReq]
			} else {
				after = before
			}
			isGC := run.gcReq[run.crashReq]
			// ---- a new process opens what the dead one left behind
			ra := rk + "-after"
			copyTree(rk, ra)
			vfs.Reset(ra, false)
			conf := baseConf(config.StoreDir, ra)
			conf.Storage.GC.Untagged, conf.Storage.GC.GracePeriod, conf.Storage.GC.EmptyRepo = bp(true), -1, bp(emptyRepo)
			sa := olareg.New(conf)
			obs, problem := c09Observe(sa, universe)
			if problem != "" {
				fail("restart-read-fails", trace, "after the crash and a restart: %s", problem)
			}
			// (1)-(3) layout
			if _, problems := validateLayoutTree(ra, layoutOpts{allowTemp: true}); len(problems) > 0 {
				// an index entry without blob is tolerated only for untagged entries after a crash inside a collection
				real := []string{}
				for _, p := range problems {
					if isGC && strings.Contains(p, "has no blob file") {
						continue
					}
					// a torn oci-layout can only exist in a repository whose very first write was interrupted: nothing
					// acknowledged lives there and the next write re-initialises it
					if strings.Contains(p, "oci-layout") {
						rn := strings.SplitN(p, ":", 2)[0]
						has := false
						for key := range before {
							if strings.HasPrefix(key, rn+"|") {
								has = true
							}
						}
						if !has {
							continue
						}
					}
					real = append(real, p)
				}
				if len(real) > 0 {
					fail("layout-after-crash", trace, "after the crash the directory is not a loadable layout: %s", strings.Join(real, "; "))
				}
			}
			// every tag of every index.json resolves to an intact manifest and pulls completely (what the interrupted
			// request itself was deleting may already be gone)
			inFlight := map[string]bool{}
			for key := range universe {
				if p := strings.Split(key, "|"); p[1] == "blob" && before[key] != after[key] {
					inFlight[p[0]+"|"+p[2]] = true
				}
			}
			for key, d := range obs {
				p := strings.Split(key, "|")
				if p[1] != "tag" {
					continue
				}
				if msg := c09Pull(sa, run.repos[p[0]], p[0], d, inFlight); msg != "" {
					fail("tag-points-at-missing-content", trace, "after the crash tag %s/%s -> %s: %s", p[0], p[2], short(d), msg)
				}
			}
			// (4) acknowledged prefix and (5) all-or-nothing
			keepK := map[string]bool{}
			if isGC {
				for rn := range run.repos {
					for d := range run.keepSet(rn) {
						keepK[rn+"|"+d] = true
					}
				}
			}
			changed := []string{}
			for key := range universe {
				p := strings.Split(key, "|")
				rn, kind := p[0], p[1]
				b, a, o := before[key], after[key], obs[key]
				fuzzy := (kind == "man" && run.repos[rn].fuzzy[p[2]])
				if isGC {
					// only what the collection may never touch is asserted
					tagged := kind == "tag"
					inKeep := (kind == "man" || kind == "blob") && keepK[rn+"|"+p[2]]
					if (tagged || inKeep) && !fuzzy && b != "" && o != b {
						fail("crash-in-collection-lost-retained", trace, "crash inside a collection: %s was %q before and is %q after the restart", key, b, o)
					}
					continue
				}
				if b == a {
					if o != b && !fuzzy && !(kind == "blob" && b == "" && o == "1") {
						fail("acknowledged-state-lost", trace, "%s: acknowledged state %q, after crash+restart %q (the interrupted request does not touch it)", key, b, o)
					}
					continue
				}
				if fuzzy {
					continue
				}
				if o != b && o != a {
					fail("torn-request", trace, "%s is %q after the crash; before the interrupted request it was %q, had it completed it would be %q", key, o, b, a)
				}
				if kind == "blob" {
					continue // an unreferenced blob is an invisible leftover
				}
				if kind == "ref" && avoidTorn {
					st.Exclude("C09/torn-referrers-update")
					continue
				}
				changed = append(changed, key)
			}
			if !isGC && len(changed) > 1 {
				nb, na := 0, 0
				for _, key := range changed {
					if obs[key] == before[key] {
						nb++
					} else {
						na++
					}
				}
				if nb > 0 && na > 0 {
					sort.Strings(changed)
					detail := []string{}
					refTorn := false
					for _, key := range changed {
						detail = append(detail, fmt.Sprintf("%s: before=%q after=%q observed=%q", key, before[key], after[key], obs[key]))
						if strings.Contains(key, "|ref|") {
							refTorn = true
						}
					}
					sig := "torn-request"
					if refTorn {
						sig = "torn-referrers-update"
					}
					fail(sig, trace, "the interrupted request is present only in part after the restart:\n  %s", strings.Join(detail, "\n  "))
				}
			}
			// a collection after the crash converges and leaves the retained content alone
			if isGC {
				rn := strings.TrimPrefix(run.reqDesc[run.crashReq], "collect ")
				_ = sa.VerifGC(rn)
				_ = sa.VerifGC(rn)
				obs2, problem2 := c09Observe(sa, universe)
				if problem2 != "" {
					fail("restart-read-fails", trace, "after crash, restart and two collections: %s", problem2)
				}
				for key, b := range before {
					p := strings.Split(key, "|")
					if p[0] != rn {
						continue
					}
					if (p[1] == "tag" || ((p[1] == "man" || p[1] == "blob") && keepK[rn+"|"+p[2]] && !(p[1] == "man" && run.repos[rn].fuzzy[p[2]]))) && obs2[key] != b {
						fail("crash-in-collection-lost-retained", trace, "after a crash inside a collection and a repeated collection %s is %q, was %q", key, obs2[key], b)
					}
				}
			}
			_ = sa.Close()
			nontrivial := interesting[k] && len(run.snaps) > 1 && len(before) > 0
			st.CaseSample([]string{hist, fmt.Sprint(k), fmt.Sprint(mode)}, append(append([]string{}, opsDesc...), trace...), nontrivial, fmt.Sprintf("mode-%d", mode), map[bool]string{true: "in-collection", false: "in-request"}[isGC])
			_ = os.RemoveAll(rk)
			_ = os.RemoveAll(ra)
			vfs.Forget(rk)
		}
	}
	if exhaustive {
		st.Add("histories-fully-enumerated", 1)
	}
	st.Add("histories", 1)
	st.Add("mutating-calls", nMut)
}

// c09Pull fetches a manifest and everything it references; "" = complete.
func c09Pull(h *olareg.Server, mr *mrepo, rn, d string, inFlight map[string]bool) string {
	if _, ok := mr.blobs[d]; !ok || inFlight[rn+"|"+d] {
		return "" // deleted through the API (or never acknowledged): not part of the claim
	}
	g := doReq(h, "GET", "/v2/"+rn+"/manifests/"+d, nil, hdr("Accept", acceptAll))
	if g.code != 200 {
		// children are fetched as blobs when they have no entry of their own (finding 12)
		g = doReq(h, "GET", "/v2/"+rn+"/blobs/"+d, nil, nil)
		if g.code != 200 {
			return fmt.Sprintf("%s answers %d", short(d), g.code)
		}
	}
	if !hashesTo(d, g.body) {
		return fmt.Sprintf("%s: content does not match the digest", short(d))
	}
	var b mbody
	if json.Unmarshal(g.body, &b) != nil {
		return ""
	}
	for _, c := range b.Manifests {
		if msg := c09Pull(h, mr, rn, c.Digest, inFlight); msg != "" {
			return msg
		}
	}
	refs := []string{}
	if b.Config != nil {
		refs = append(refs, b.Config.Digest)
	}
	for _, l := range b.Layers {
		refs = append(refs, l.Digest)
	}
	for _, x := range refs {
		if _, ok := mr.blobs[x]; !ok || inFlight[rn+"|"+x] {
			continue
		}
		br := doReq(h, "GET", "/v2/"+rn+"/blobs/"+x, nil, nil)
		if br.code != 200 || !hashesTo(x, br.body) {
			return fmt.Sprintf("config/layer %s of %s answers %d", short(x), short(d), br.code)
		}
	}
	return ""
}

func TestC09(t *testing.T) {
	st := newStats("TestC09", "C09", c09Rule)
	st.maxSamples = 3
	rapid.Check(t, func(t *rapid.T) { c09Property(t, st) })
}

var _ = url.Parse

// TestKF_C09_TornReferrers reproduces open finding 25: an artifact push is two separate index saves (manifest entry,
// then referrers response); a crash between them leaves the manifest and its tag stored but missing from the
// referrers of its subject for good. The fixed history is crash-enumerated; the test fails iff some crash point
// shows that half state.
func TestKF_C09_TornReferrers(t *testing.T) {
	st := newStats("TestKF_C09_TornReferrers", "C09", "reproducer")
	tmp := mkTemp("kf09")
	defer os.RemoveAll(tmp)
	ops := []c09Op{{Kind: "image", Repo: "r1", Tag: "base"}, {Kind: "artifact", Repo: "r1", Tag: "art", Target: 0}}
	root0 := filepath.Join(tmp, "run0")
	_ = os.MkdirAll(root0, 0o755)
	vfs.Reset(root0, false)
	run0 := newC09Run(root0, false)
	run0.exec(ops)
	nMut := vfs.MutCount()
	_ = run0.srv.Close()
	final := run0.snaps[len(run0.snaps)-1]
	var manKey, refKey string
	for k := range final {
		if strings.Contains(k, "|ref|") {
			refKey = k
			p := strings.Split(k, "|")
			manKey = p[0] + "|man|" + p[3]
		}
	}
	if refKey == "" {
		t.Fatalf("setup: the artifact was not acknowledged")
	}
	for k := 1; k <= nMut; k++ {
		rk := filepath.Join(tmp, fmt.Sprintf("crash-%d", k))
		_ = os.MkdirAll(rk, 0o755)
		vfs.Reset(rk, false)
		vfs.Arm(k, vfs.ModeBefore)
		run := newC09Run(rk, false)
		run.exec(ops)
		if run.crashReq == 0 {
			_ = run.srv.Close()
			continue
		}
		ra := rk + "-after"
		copyTree(rk, ra)
		vfs.Reset(ra, false)
		sa := olareg.New(baseConf(config.StoreDir, ra))
		obs, _ := c09Observe(sa, map[string]bool{manKey: true, refKey: true})
		_ = sa.Close()
		if obs[manKey] == "1" && obs[refKey] == "" {
			vfs.Reset("", false)
			Fail(kfT{t}, st, "torn-referrers-update", fmt.Sprintf("crash before mutating call %d of %d (inside the artifact PUT): after a restart the artifact is served as a manifest but its subject's referrers do not list it", k, nMut),
				[]string{"push image by tag base", "push artifact (subject = base) by tag art", fmt.Sprintf("crash before mutating file-system call %d", k), "restart", "GET manifest (200) / GET referrers (not listed)"}, nil)
		}
	}
	vfs.Reset("", false)
}
