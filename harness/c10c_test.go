package vh

// C10 / C09 boundary: "Closing the server and opening a new one on the same directory ... yields the same answer to
// every read request". That presupposes that a closed server is done with the directory: whatever timers it had
// (repository cache expiry = grace period, collection ticker, upload expiry) must not write after Close has returned -
// otherwise the old process image and the new server are two writers on one layout. The other restart checks use a
// grace period of one hour, under which no timer of the old server can still be pending.

import (
	"fmt"
	"os"
	"testing"
	"time"

	"pgregory.net/rapid"

	"github.com/olareg/olareg"
	"github.com/olareg/olareg/config"
)

const c10cRule = "TestC10CloseFinal: directory store with grace period 20-60 ms (repository cache expiry and upload expiry fall inside the case), collection ticker idle or 10 ms, aggressive or retaining policy; pushes of blobs, tagged and " +
	"untagged images and open upload sessions spread over 0-3 grace periods, then Close at a generated moment; oracle = the directory tree (names, sizes, modification times) right after Close returned equals the tree 4 grace periods later, " +
	"and a new server opened at once on the same directory keeps everything it acknowledges while the old server's timers would still be due; non-trivial = at least one repository was written within one grace period before Close; distinct = hash of the trace"

func c10cProperty(t *rapid.T, st *Stats) {
	grace := time.Duration(rapid.SampledFrom([]int{20, 40, 60}).Draw(t, "graceMs")) * time.Millisecond
	root := mkTemp("c10c")
	defer func() { go func() { time.Sleep(500 * time.Millisecond); _ = os.RemoveAll(root) }() }()
	conf := baseConf(config.StoreDir, root)
	conf.Storage.GC.GracePeriod = grace
	if rapid.Bool().Draw(t, "ticker") {
		conf.Storage.GC.Frequency = 10 * time.Millisecond
	}
	aggressive := rapid.Bool().Draw(t, "aggressivePolicy")
	conf.Storage.GC.Untagged, conf.Storage.GC.EmptyRepo, conf.Storage.GC.ReferrersDangling = bp(aggressive), bp(aggressive), bp(aggressive)
	srv := olareg.New(conf)
	trace := []string{fmt.Sprintf("grace=%v ticker=%v aggressive=%v", grace, conf.Storage.GC.Frequency, aggressive)}
	fail := func(key, f string, a ...any) { Fail(t, st, key, fmt.Sprintf(f, a...), trace, nil) }
	cfg := []byte("{}")
	cd := dig("sha256", cfg)
	lastWrite := time.Time{}
	n := rapid.IntRange(1, 8).Draw(t, "ops")
	for i := 0; i < n; i++ {
		rn := rapid.SampledFrom([]string{"a", "b", "c/d"}).Draw(t, "repo")
		switch rapid.SampledFrom([]string{"blob", "tagged", "untagged", "session", "pause", "read"}).Draw(t, "op") {
		case "blob":
			b := []byte(fmt.Sprintf("blob %d", i))
			r := doReq(srv, "POST", "/v2/"+rn+"/blobs/uploads/?digest="+dig("sha256", b), b, nil)
			trace = append(trace, fmt.Sprintf("upload blob to %s -> %d", rn, r.code))
			lastWrite = time.Now()
		case "tagged", "untagged":
			_ = doReq(srv, "POST", "/v2/"+rn+"/blobs/uploads/?digest="+cd, cfg, nil)
			raw, _ := buildImage(mtImage, mtConfig, cd, 2, nil, nil, nil, "", map[string]string{"i": fmt.Sprint(i)})
			ref := fmt.Sprintf("t%d", i)
			if rapid.Bool().Draw(t, "byDigest") {
				ref = dig("sha256", raw)
			}
			r := doReq(srv, "PUT", "/v2/"+rn+"/manifests/"+ref, raw, hdr("Content-Type", mtImage))
			trace = append(trace, fmt.Sprintf("push image %s:%s -> %d", rn, short(ref), r.code))
			lastWrite = time.Now()
		case "session":
			r := doReq(srv, "POST", "/v2/"+rn+"/blobs/uploads/", nil, nil)
			if r.code == 202 {
				_ = doReq(srv, "PATCH", r.hdr.Get("Location"), []byte("partial"), nil)
			}
			trace = append(trace, fmt.Sprintf("open upload session in %s with data -> %d", rn, r.code))
			lastWrite = time.Now()
		case "pause":
			d := time.Duration(rapid.IntRange(1, 3).Draw(t, "halfGraces")) * grace / 2
			trace = append(trace, fmt.Sprintf("pause %v", d))
			time.Sleep(d)
		case "read":
			_ = doReq(srv, "GET", "/v2/"+rn+"/tags/list", nil, nil)
		}
	}
	if d := time.Duration(rapid.IntRange(0, 4).Draw(t, "quarterGracesBeforeClose")) * grace / 4; d > 0 {
		trace = append(trace, fmt.Sprintf("pause %v", d))
		time.Sleep(d)
	}
	recent := !lastWrite.IsZero() && time.Since(lastWrite) < grace
	_ = srv.Close()
	trace = append(trace, "Close returned")
	before := treeSnapshot(root, true)
	restart := rapid.Bool().Draw(t, "newServerAtOnce")
	var acked []string
	var srv2 *olareg.Server
	if restart {
		c2 := conf
		c2.Storage.GC.GracePeriod = time.Hour // the new server itself changes nothing behind the harness' back
		c2.Storage.GC.Frequency = gcIdle
		c2.Storage.GC.Untagged, c2.Storage.GC.EmptyRepo, c2.Storage.GC.ReferrersDangling = bp(false), bp(false), bp(false)
		srv2 = olareg.New(c2)
		for _, rn := range []string{"a", "b", "c/d"} {
			_ = doReq(srv2, "POST", "/v2/"+rn+"/blobs/uploads/?digest="+cd, cfg, nil)
			raw, _ := buildImage(mtImage, mtConfig, cd, 2, nil, nil, nil, "", map[string]string{"pushed": "to the new server", "repo": rn})
			if r := doReq(srv2, "PUT", "/v2/"+rn+"/manifests/after", raw, hdr("Content-Type", mtImage)); r.code == 201 {
				acked = append(acked, rn)
			}
		}
		trace = append(trace, fmt.Sprintf("a new server on the same directory acknowledged tag 'after' in %v", acked))
		before = treeSnapshot(root, true)
	}
	time.Sleep(4 * grace)
	after := treeSnapshot(root, true)
	if restart {
		for _, rn := range acked {
			if r := doReq(srv2, "GET", "/v2/"+rn+"/manifests/after", nil, hdr("Accept", acceptAll)); r.code != 200 {
				fail("closed-server-still-writes", "the new server acknowledged %s:after; %v later it answers %d", rn, 4*grace, r.code)
			}
		}
		_ = srv2.Close()
		srv3 := olareg.New(baseConf(config.StoreDir, root))
		for _, rn := range acked {
			if r := doReq(srv3, "GET", "/v2/"+rn+"/manifests/after", nil, hdr("Accept", acceptAll)); r.code != 200 {
				fail("closed-server-still-writes", "the new server acknowledged %s:after; after its own restart the tag answers %d - index.json was written by someone else in between", rn, r.code)
			}
		}
		_ = srv3.Close()
	}
	if after != before {
		fail("closed-server-still-writes", "the directory changed during the %v after Close had returned (no request was sent in that time):\n%s", 4*grace, diffLines(before, after))
	}
	st.Case(trace, recent, fmt.Sprintf("restart:%v", restart))
}

func TestC10CloseFinal(t *testing.T) {
	st := newStats("TestC10CloseFinal", "C10", c10cRule)
	rapid.Check(t, func(rt *rapid.T) { c10cProperty(rt, st) })
}
