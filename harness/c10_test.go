package vh

// C10 — the directory is always a valid OCI layout equal to the API state (DESIGN.md §3 C10).

import (
	"crypto/sha256"
	"encoding/hex"
	"encoding/json"
	"fmt"
	"os"
	"path/filepath"
	"sort"
	"strings"
	"testing"

	"pgregory.net/rapid"

	"github.com/olareg/olareg"
	"github.com/olareg/olareg/config"
)

const c10Rule = "rapid state machine on the dir store with a mem store driven in lock-step: flat and nested names, sha256/sha384/sha512 blobs and manifests, indexes, artifacts, sessions, deletes, " +
	"collections (EmptyRepo on/off) at any step, restarts anywhere; oracle = OCI-layout validator after every step + index.json vs API equality + dir/mem differential + restart differential + mem-over-dir differential; " +
	"non-trivial = >=1 restart or collection with content present in a case with a nested name or a non-sha256 digest; distinct = hash of the op trace"

var c10Repos = []string{"r1", "r2/n", "r2/n/deep", "r2"}
var c10Tags = []string{"t1", "t2"}

type c10State struct {
	*env
	mem      *olareg.Server
	open     map[string][]string // repo -> locations of open sessions (dir server)
	openMem  map[string][]string
	lastSwp  string
	nonSha   bool
	nested   bool
	content  bool
	emptyRep bool
}

func bodySum(b []byte) string {
	h := sha256.Sum256(b)
	return hex.EncodeToString(h[:6])
}

// sweepOf reads everything the case ever named from one server and renders it canonically.
func (s *c10State) sweepOf(h *olareg.Server) string {
	var sb strings.Builder
	digs := sortedKeys(s.universe)
	for _, rn := range c10Repos {
		mr := s.repo(rn)
		r := doReq(h, "GET", "/v2/"+rn+"/tags/list", nil, nil)
		fmt.Fprintf(&sb, "%s tags=%d %s\n", rn, r.code, strings.TrimSpace(string(r.body)))
		for _, tg := range c10Tags {
			g := doReq(h, "GET", "/v2/"+rn+"/manifests/"+tg, nil, hdr("Accept", acceptAll))
			if g.code != 404 {
				fmt.Fprintf(&sb, " tag %s=%d %s %s %s %s\n", tg, g.code, short(g.hdr.Get("Docker-Content-Digest")), g.hdr.Get("Content-Type"), g.hdr.Get("Content-Length"), bodySum(g.body))
			}
		}
		for _, d := range digs {
			g := doReq(h, "GET", "/v2/"+rn+"/blobs/"+d, nil, nil)
			if g.code != 404 {
				fmt.Fprintf(&sb, " blob %s=%d %s %s\n", short(d), g.code, g.hdr.Get("Content-Length"), bodySum(g.body))
			}
			if !mr.fuzzy[d] {
				g = doReq(h, "GET", "/v2/"+rn+"/manifests/"+d, nil, hdr("Accept", acceptAll))
				if g.code != 404 {
					fmt.Fprintf(&sb, " manifest %s=%d %s %s %s\n", short(d), g.code, g.hdr.Get("Content-Type"), g.hdr.Get("Content-Length"), bodySum(g.body))
				}
			}
			if s.subjects[d] {
				rr := doReq(h, "GET", "/v2/"+rn+"/referrers/"+d, nil, nil)
				var idx mbody
				_ = json.Unmarshal(rr.body, &idx)
				ds := []string{}
				for _, x := range idx.Manifests {
					ds = append(ds, short(x.Digest)+"/"+x.ArtifactType)
				}
				sort.Strings(ds)
				if len(ds) > 0 || rr.code != 200 {
					fmt.Fprintf(&sb, " referrers %s=%d %v\n", short(d), rr.code, ds)
				}
			}
		}
	}
	return sb.String()
}

func (s *c10State) both(method, u string, body []byte, o *reqOpt) (resp, resp) {
	rd := doReq(s.srv, method, u, body, o)
	rm := doReq(s.mem, method, u, body, o)
	if rd.panicV != nil || rm.panicV != nil {
		s.abandon("panic (C15)")
	}
	return rd, rm
}

func (s *c10State) check(step string) {
	// 1. layout validator
	openCnt := map[string]int{}
	for rn, l := range s.open {
		openCnt[rn] = len(l)
	}
	repos, problems := validateLayoutTree(s.root, layoutOpts{openUploads: openCnt, strictLayoutFile: true})
	if len(problems) > 0 {
		s.fail("layout-invalid", "after %s the directory is not a valid OCI layout:\n  %s", step, strings.Join(problems, "\n  "))
	}
	// 2. index.json == API state
	for _, rn := range c10Repos {
		mr := s.repo(rn)
		lr := repos[rn]
		if lr == nil && len(mr.blobs) == 0 && len(mr.mans) == 0 && len(mr.tags) == 0 && len(s.open[rn]) == 0 {
			// nobody has written to this repository yet: it is not probed either, so that its first request is a write
			// (a read would make the store set up its default index first, which hides what a first write saves)
			continue
		}
		var tl struct{ Tags []string }
		r := doReq(s.srv, "GET", "/v2/"+rn+"/tags/list", nil, nil)
		_ = json.Unmarshal(r.body, &tl)
		fileTags := []string{}
		if lr != nil {
			fileTags = sortedKeys(lr.tags)
		}
		if r.code != 200 || fmt.Sprint(tl.Tags) != fmt.Sprint(fileTags) {
			s.fail("index-vs-api-tags", "after %s: tags/list of %s is %d %v but index.json holds %v", step, rn, r.code, tl.Tags, fileTags)
		}
		if fmt.Sprint(fileTags) != fmt.Sprint(sortedKeys(mr.tags)) {
			s.fail("index-vs-model-tags", "after %s: index.json of %s holds tags %v, acknowledged pushes/deletes give %v", step, rn, fileTags, sortedKeys(mr.tags))
		}
		if lr != nil {
			for _, d := range lr.index.Manifests {
				g := doReq(s.srv, "HEAD", "/v2/"+rn+"/manifests/"+d.Digest, nil, hdr("Accept", acceptAll))
				if g.code != 200 {
					s.fail("index-entry-not-served", "after %s: index.json of %s lists %s (%s) but GET by digest answers %d", step, rn, short(d.Digest), d.MediaType, g.code)
				}
			}
		}
		for d := range mr.blobs {
			if lr == nil || lr.blobs[d] != int64(len(mr.blobs[d])) {
				if lr != nil {
					if _, ok := lr.blobs[d]; ok {
						s.fail("blob-file-size", "after %s: blob %s of %s has a file of %d bytes, pushed %d", step, short(d), rn, lr.blobs[d], len(mr.blobs[d]))
					}
				}
				s.fail("blob-file-missing", "after %s: acknowledged blob %s of %s has no file blobs/<alg>/<hex>", step, short(d), rn)
			}
		}
		if lr != nil {
			reach := layoutReachable(s.root, lr)
			for d := range mr.mans {
				if mr.fuzzy[d] {
					continue
				}
				// children live only in their parent (layout semantics): reachable from an index.json entry is enough
				if !reach[d] {
					s.fail("manifest-not-in-index", "after %s: acknowledged manifest %s of %s is not reachable from the entries of index.json", step, short(d), rn)
				}
			}
		}
	}
	// 3. dir vs mem
	sd, sm := s.sweepOf(s.srv), s.sweepOf(s.mem)
	if sd != sm {
		s.fail("dir-vs-mem", "after %s the directory store and the memory store answer differently:\n--- dir\n%s--- mem\n%s", step, sd, sm)
	}
	s.lastSwp = sd
}

// layoutReachable follows index.json entries through every index blob (nested indexes, referrers responses).
func layoutReachable(root string, lr *layoutRepo) map[string]bool {
	reach := map[string]bool{}
	queue := []mdesc{}
	queue = append(queue, lr.index.Manifests...)
	for len(queue) > 0 {
		d := queue[0]
		queue = queue[1:]
		if reach[d.Digest] {
			continue
		}
		reach[d.Digest] = true
		if !isIndexType(d.MediaType) {
			continue
		}
		alg, hexv, _ := strings.Cut(d.Digest, ":")
		b, err := os.ReadFile(filepath.Join(root, lr.name, "blobs", alg, hexv))
		if err != nil {
			continue
		}
		var idx mbody
		if json.Unmarshal(b, &idx) == nil {
			queue = append(queue, idx.Manifests...)
		}
	}
	return reach
}

func c10Property(t *rapid.T, st *Stats) {
	emptyRepo := rapid.Bool().Draw(t, "emptyRepo")
	e, cleanup := newEnv(t, st, true, func(c *config.Config) { c.Storage.GC.EmptyRepo = bp(emptyRepo) })
	defer cleanup()
	e.repoPool = c10Repos
	memConf := baseConf(config.StoreMem, "")
	memConf.Storage.GC.EmptyRepo = bp(emptyRepo)
	s := &c10State{env: e, mem: olareg.New(memConf), open: map[string][]string{}, openMem: map[string][]string{}, emptyRep: emptyRepo}
	defer func() { _ = s.mem.Close() }()
	defer func() {
		if e.abandoned {
			return
		}
		nt := e.classes["restart-or-collect-with-content"] && (s.nonSha || s.nested)
		st.Case(e.trace, nt, e.classList()...)
	}()
	e.logf("emptyRepo=%v", emptyRepo)
	hasContent := func() bool {
		for _, mr := range e.repos {
			if len(mr.blobs) > 0 {
				return true
			}
		}
		return false
	}
	t.Repeat(e.actions(map[string]func(*rapid.T){
		"pushBlob": func(t *rapid.T) {
			rn := rapid.SampledFrom(c10Repos).Draw(t, "repo")
			b := rapid.SampledFrom(blobPool).Draw(t, "blob")
			alg := rapid.SampledFrom(algPool).Draw(t, "alg")
			d := dig(alg, b)
			rd, rm := s.both("POST", "/v2/"+rn+"/blobs/uploads/?digest="+d, b, nil)
			e.logf("pushBlob %s %s -> %d/%d", rn, short(d), rd.code, rm.code)
			if rd.code != 201 || rm.code != 201 {
				e.abandon("blob push refused")
			}
			e.repo(rn).blobs[d] = b
			e.universe[d] = true
			if alg != "sha256" {
				s.nonSha = true
				e.class("non-sha256")
			}
			if strings.Contains(rn, "/") {
				s.nested = true
				e.class("nested-name")
			}
		},
		"sessionOpen": func(t *rapid.T) {
			rn := rapid.SampledFrom(c10Repos).Draw(t, "repo")
			if len(s.open[rn]) >= 2 {
				t.Skip("enough")
			}
			rd, rm := s.both("POST", "/v2/"+rn+"/blobs/uploads/", nil, nil)
			e.logf("sessionOpen %s -> %d/%d", rn, rd.code, rm.code)
			if rd.code != 202 || rm.code != 202 {
				e.abandon("session refused")
			}
			s.open[rn] = append(s.open[rn], rd.hdr.Get("Location"))
			s.openMem[rn] = append(s.openMem[rn], rm.hdr.Get("Location"))
			e.class("session")
		},
		"sessionEnd": func(t *rapid.T) {
			rn := rapid.SampledFrom(c10Repos).Draw(t, "repo")
			if len(s.open[rn]) == 0 {
				t.Skip("none")
			}
			finish := rapid.Bool().Draw(t, "finish")
			ld, lm := s.open[rn][0], s.openMem[rn][0]
			s.open[rn], s.openMem[rn] = s.open[rn][1:], s.openMem[rn][1:]
			if finish {
				b := []byte("session content " + rn)
				alg := rapid.SampledFrom(algPool).Draw(t, "alg")
				d := dig(alg, b)
				rd := doReq(e.srv, "PUT", ld+"&digest="+d, b, nil)
				rm := doReq(s.mem, "PUT", lm+"&digest="+d, b, nil)
				e.logf("sessionFinish %s %s -> %d/%d", rn, short(d), rd.code, rm.code)
				if rd.code != 201 || rm.code != 201 {
					e.abandon("session PUT refused")
				}
				e.repo(rn).blobs[d] = b
				e.universe[d] = true
				if alg != "sha256" {
					s.nonSha = true
				}
			} else {
				rd := doReq(e.srv, "DELETE", sessionPath(ld), nil, nil)
				rm := doReq(s.mem, "DELETE", sessionPath(lm), nil, nil)
				e.logf("sessionCancel %s -> %d/%d", rn, rd.code, rm.code)
				if rd.code != 202 || rm.code != 202 {
					e.abandon("session cancel refused")
				}
			}
		},
		"pushManifest": func(t *rapid.T) {
			rn := rapid.SampledFrom(c10Repos).Draw(t, "repo")
			mr := e.repo(rn)
			var raw []byte
			var mm *mman
			salt := map[string]string{"salt": fmt.Sprint(rapid.IntRange(0, 3).Draw(t, "salt"))}
			kind := rapid.SampledFrom([]string{"image", "image", "index", "index", "artifact"}).Draw(t, "kind")
			if kind == "index" {
				kids := []mdesc{}
				if ms := sortedKeys(mr.mans); len(ms) > 0 {
					// prefer children that are indexes themselves: nesting of depth >= 2 is where the child bookkeeping
					// (rebuilt from blob contents on every reload) has to recurse
					idxs := []string{}
					for _, d := range ms {
						if mr.mans[d].isIndex && len(mr.mans[d].refs) > 0 {
							idxs = append(idxs, d)
						}
					}
					for i, n := 0, rapid.IntRange(0, 2).Draw(t, "nChildren"); i < n; i++ {
						pool := ms
						if len(idxs) > 0 && rapid.Bool().Draw(t, "nestedChild") {
							pool = idxs
							e.class("nested-index-depth>=2")
						}
						c := rapid.SampledFrom(pool).Draw(t, "child")
						kids = append(kids, mdesc{MediaType: mr.mans[c].mt, Digest: c, Size: int64(len(mr.mans[c].raw))})
					}
				}
				raw, mm = buildIndex(mtIndex, kids, nil, "", salt)
				if len(kids) > 0 {
					e.class("index-with-children")
				}
			} else {
				blobs := mr.plainBlobs()
				if len(blobs) == 0 {
					t.Skip("no blobs")
				}
				cfg := rapid.SampledFrom(blobs).Draw(t, "config")
				layers, sizes := []string{}, []int{}
				for i, n := 0, rapid.IntRange(0, 2).Draw(t, "nLayers"); i < n; i++ {
					l := rapid.SampledFrom(blobs).Draw(t, "layer")
					layers = append(layers, l)
					sizes = append(sizes, len(mr.blobs[l]))
				}
				var subj *mdesc
				if kind == "artifact" {
					sd := rapid.SampledFrom(append(sortedKeys(mr.mans), dig("sha256", []byte("no such subject")))).Draw(t, "subject")
					subj = &mdesc{MediaType: mtImage, Digest: sd, Size: 2}
					e.subjects[sd] = true
					e.universe[sd] = true
					e.class("artifact")
				}
				raw, mm = buildImage(mtImage, mtConfig, cfg, len(mr.blobs[cfg]), layers, sizes, subj, "application/vnd.x.c10", salt)
			}
			alg := rapid.SampledFrom([]string{"sha256", "sha256", "sha512", "sha384"}).Draw(t, "alg")
			p := manifestPlan{repo: rn, raw: raw, mm: mm, ct: mm.mt, alg: alg, digest: dig(alg, raw)}
			p.ref = p.digest
			if rapid.Bool().Draw(t, "byTag") {
				p.tag = rapid.SampledFrom(c10Tags).Draw(t, "tag")
				p.ref = p.tag
				if alg != "sha256" {
					p.qdig = p.digest
				}
			}
			rd := e.putManifest(p, nil)
			es := *e
			es.srv = s.mem
			rm := (&es).putManifest(p, nil)
			e.logf("pushManifest %s kind=%s %s ref=%s -> %d/%d", rn, kind, short(p.digest), shortTag(p.ref), rd.code, rm.code)
			if rd.panicV != nil || rm.panicV != nil || rd.code != 201 || rm.code != 201 {
				e.abandon("manifest refused")
			}
			if alg != "sha256" {
				s.nonSha = true
				e.class("non-sha256")
			}
			if strings.Contains(rn, "/") {
				s.nested = true
				e.class("nested-name")
			}
			e.acceptManifest(p)
		},
		"delete": func(t *rapid.T) {
			rn := rapid.SampledFrom(c10Repos).Draw(t, "repo")
			mr := e.repo(rn)
			if rapid.Bool().Draw(t, "byTag") {
				if len(mr.tags) == 0 {
					t.Skip("no tags")
				}
				tg := rapid.SampledFrom(sortedKeys(mr.tags)).Draw(t, "tag")
				rd, rm := s.both("DELETE", "/v2/"+rn+"/manifests/"+tg, nil, nil)
				e.logf("deleteTag %s %s -> %d/%d", rn, tg, rd.code, rm.code)
				if rd.code != 202 || rm.code != 202 {
					e.abandon("tag delete refused")
				}
				delete(mr.tags, tg)
				return
			}
			if len(mr.mans) == 0 {
				t.Skip("no manifests")
			}
			d := rapid.SampledFrom(sortedKeys(mr.mans)).Draw(t, "digest")
			rd, rm := s.both("DELETE", "/v2/"+rn+"/manifests/"+d, nil, nil)
			e.logf("deleteDigest %s %s -> %d/%d", rn, short(d), rd.code, rm.code)
			if rd.code != rm.code && !mr.fuzzy[d] {
				s.fail("dir-vs-mem-delete", "DELETE manifest %s: dir answers %d, mem answers %d", short(d), rd.code, rm.code)
			}
			if rd.code != 202 && !mr.fuzzy[d] {
				e.abandon("digest delete refused")
			}
			if m := mr.mans[d]; m != nil && m.subject != "" && rd.code != 202 {
				mr.refFuzzy[m.subject] = true
			}
			e.modelDeleteDigest(rn, d)
			e.class("delete")
		},
		"collect": func(t *rapid.T) {
			rn := rapid.SampledFrom(c10Repos).Draw(t, "repo")
			e.logf("collect %s", rn)
			_ = e.srv.VerifGC(rn)
			_ = s.mem.VerifGC(rn)
			e.class("collect")
			if len(e.repo(rn).blobs) > 0 && len(e.repo(rn).mans) == 0 {
				e.class("collect-during-first-push")
			}
			if hasContent() {
				e.class("restart-or-collect-with-content")
			}
		},
		"restart": func(t *rapid.T) {
			before := s.sweepOf(e.srv)
			e.logf("restart")
			e.restart()
			s.open = map[string][]string{}
			// the mem store cannot restart; its open sessions are cancelled to stay in step
			for rn, l := range s.openMem {
				for _, loc := range l {
					_ = doReq(s.mem, "DELETE", sessionPath(loc), nil, nil)
				}
				delete(s.openMem, rn)
			}
			after := s.sweepOf(e.srv)
			if before != after {
				s.fail("restart-differs", "closing and re-opening the directory changed the answers:\n--- before\n%s--- after\n%s", before, after)
			}
			e.class("restart")
			if hasContent() {
				e.class("restart-or-collect-with-content")
			}
		},
		"": func(*rapid.T) { s.check("step " + fmt.Sprint(len(e.trace))) },
	}))
	if e.abandoned {
		return
	}
	// mem layered over the directory after Close
	e.guard(func() {
		before := s.sweepOf(e.srv)
		_ = e.srv.Close()
		over := baseConf(config.StoreMem, e.root)
		ms := olareg.New(over)
		after := s.sweepOf(ms)
		_ = ms.Close()
		if before != after {
			e.srv = olareg.New(e.conf)
			s.fail("mem-over-dir-differs", "a memory store layered over the closed directory answers differently:\n--- dir\n%s--- mem over dir\n%s", before, after)
		}
		// the same requests - deletes, uploads, re-pushes - against the directory store and against a memory store over a
		// copy of the directory get the same answers and leave the same readable state
		cp := mkTemp("c10over")
		defer os.RemoveAll(cp)
		copyTree(e.root, filepath.Join(cp, "root"))
		over.Storage.RootDir = filepath.Join(cp, "root")
		ms = olareg.New(over)
		defer func() { _ = ms.Close() }()
		e.srv = olareg.New(e.conf)
		digs := append(sortedKeys(s.universe), dig("sha256", []byte("a digest nobody ever pushed")))
		n := rapid.IntRange(0, 6).Draw(t, "epilogueOps")
		for i := 0; i < n; i++ {
			rn := rapid.SampledFrom(c10Repos).Draw(t, "repo")
			d := rapid.SampledFrom(digs).Draw(t, "digest")
			var method, u string
			var body []byte
			switch rapid.SampledFrom([]string{"deleteBlob", "deleteBlob", "headBlob", "deleteManifest", "deleteTag", "pushBlob", "getManifest"}).Draw(t, "epilogueOp") {
			case "deleteBlob":
				method, u = "DELETE", "/v2/"+rn+"/blobs/"+d
				if _, was := s.repo(rn).everMans[d]; was {
					// the blob of a manifest: what becomes of an index's children when the index loses its blob depends
					// on when the store next reads index.json (finding 12); C06 deletes such blobs
					method = "HEAD"
				}
			case "headBlob":
				method, u = "HEAD", "/v2/"+rn+"/blobs/"+d
			case "deleteManifest":
				method, u = "DELETE", "/v2/"+rn+"/manifests/"+d
			case "deleteTag":
				method, u = "DELETE", "/v2/"+rn+"/manifests/"+rapid.SampledFrom(c10Tags).Draw(t, "tag")
			case "pushBlob":
				body = rapid.SampledFrom(blobPool).Draw(t, "blob")
				method, u = "POST", "/v2/"+rn+"/blobs/uploads/?digest="+dig("sha256", body)
			case "getManifest":
				method, u = "GET", "/v2/"+rn+"/manifests/"+d
			}
			rd, ro := doReq(e.srv, method, u, body, hdr("Accept", acceptAll)), doReq(ms, method, u, body, hdr("Accept", acceptAll))
			e.logf("epilogue: %s %s -> dir %d, mem over a copy of the directory %d", method, short(u), rd.code, ro.code)
			e.class("mem-over-dir-epilogue")
			if rd.code != ro.code {
				s.fail("mem-over-dir-differs", "%s %s answers %d from the directory store and %d from a memory store layered over a copy of the same directory", method, u, rd.code, ro.code)
			}
		}
		if n > 0 {
			if b, a := s.sweepOf(e.srv), s.sweepOf(ms); b != a {
				s.fail("mem-over-dir-differs", "after the same requests the directory store and a memory store layered over a copy of the directory answer differently:\n--- dir\n%s--- mem over dir\n%s", b, a)
			}
		}
	})
}

func TestC10(t *testing.T) {
	st := newStats("TestC10", "C10", c10Rule)
	rapid.Check(t, func(t *rapid.T) { c10Property(t, st) })
}
