//go:build verifvfs

package vh

// C05, owned schedules: "every point at which a collection is triggered". The sampling of TestC05Concurrent cannot hit
// a window of a microsecond; here the harness owns the schedule. A collection of the directory store is paused at a
// chosen file-system step on the blob it is judging (its stat, or its removal), a client request is let in at that
// very moment, and the collection continues. Whatever the collection had decided before the pause, an upload that is
// acknowledged must find its blob afterwards.

import (
	"fmt"
	"io"
	"net/http/httptest"
	"os"
	"sync"
	"testing"
	"time"

	"pgregory.net/rapid"

	"github.com/olareg/olareg"
	"github.com/olareg/olareg/config"
	"github.com/olareg/olareg/internal/vfs"
)

const c05iRule = "TestC05Interleave: directory store, grace 1 h, a blob that is unreferenced and 3 h old (or a tagged image plus such a blob); a collection of the repository is paused before its stat or before its removal of that " +
	"blob (vfs pause point) and one client request runs at that moment: the body of a completing PUT that was already in flight (its handler had released the repository) arrives, completion of a prepared upload session of the same content, a monolithic upload of it, a mount of it from another repository, or a manifest push " +
	"that references it; the request gets 150 ms, then the collection continues (a request that needs the repository lock finishes after the collection); oracle = an acknowledged upload finds its blob afterwards, " +
	"an acknowledged manifest pulls completely; non-trivial = the request was acknowledged and the collection was really paused at the chosen step; distinct = (pause point, request, store content)"

func c05iProperty(t *rapid.T, st *Stats) {
	pauseAt := rapid.SampledFrom([]string{"stat", "remove"}).Draw(t, "pauseBefore")
	what := rapid.SampledFrom([]string{"session-complete", "put-in-flight", "put-in-flight", "monolithic", "mount", "manifest"}).Draw(t, "request")
	withTagged := rapid.Bool().Draw(t, "taggedImagePresent")
	root := mkTemp("c05i")
	defer os.RemoveAll(root)
	conf := baseConf(config.StoreDir, root)
	conf.Storage.GC.GracePeriod = time.Hour
	conf.Storage.GC.Untagged, conf.Storage.GC.ReferrersDangling, conf.Storage.GC.ReferrersWithSubj = bp(true), bp(true), bp(true)
	srv := olareg.New(conf)
	defer func() {
		vfs.Reset("", false)
		_ = srv.Close()
	}()
	trace := []string{fmt.Sprintf("pause the collection before its %s of the old blob; request at that moment: %s; tagged image present: %v", pauseAt, what, withTagged)}
	fail := func(key, f string, a ...any) { Fail(t, st, key, fmt.Sprintf(f, a...), trace, nil) }
	must := func(r resp, want int, whatReq string) {
		if r.code != want {
			t.Fatalf("setup: %s answered %d %s", whatReq, r.code, trunc(r.body, 200))
		}
	}
	content := []byte("a layer that an abandoned push left behind")
	d := dig("sha256", content)
	cfg := []byte("{}")
	cd := dig("sha256", cfg)
	must(doReq(srv, "POST", "/v2/img/blobs/uploads/?digest="+d, content, nil), 201, "old blob")
	must(doReq(srv, "POST", "/v2/other/blobs/uploads/?digest="+d, content, nil), 201, "copy in the other repository")
	if withTagged || what == "manifest" {
		must(doReq(srv, "POST", "/v2/img/blobs/uploads/?digest="+cd, cfg, nil), 201, "config")
	}
	if withTagged {
		raw, _ := buildImage(mtImage, mtConfig, cd, len(cfg), nil, nil, nil, "", nil)
		must(doReq(srv, "PUT", "/v2/img/manifests/keep", raw, hdr("Content-Type", mtImage)), 201, "tagged image")
	}
	// a prepared session that already holds the content
	loc := ""
	if what == "session-complete" {
		r := doReq(srv, "POST", "/v2/img/blobs/uploads/", nil, nil)
		must(r, 202, "session")
		r = doReq(srv, "PATCH", r.hdr.Get("Location"), content, hdr("Content-Range", fmt.Sprintf("0-%d", len(content)-1)))
		must(r, 202, "chunk")
		loc = r.hdr.Get("Location")
	}
	// a completing PUT that is already in flight when the collection starts: its handler has looked the session up and
	// released the repository, and waits for the body (a client on a slow link); the body arrives at the pause point
	var feed *io.PipeWriter
	inFlightDone := make(chan resp, 1)
	if what == "put-in-flight" {
		r := doReq(srv, "POST", "/v2/img/blobs/uploads/", nil, nil)
		must(r, 202, "session")
		pr, pw := io.Pipe()
		feed = pw
		req := httptest.NewRequest("PUT", r.hdr.Get("Location")+"&digest="+d, pr)
		req.ContentLength = -1
		go func() {
			w := httptest.NewRecorder()
			srv.ServeHTTP(w, req)
			inFlightDone <- resp{code: w.Code, hdr: w.Header(), body: w.Body.Bytes()}
		}()
		time.Sleep(5 * time.Millisecond) // let the handler reach the body
	}
	if err := srv.VerifAgeBlobs("img", 3*time.Hour); err != nil {
		t.Fatalf("ageing: %v", err)
	}
	// the request that is let in at the pause point
	var rmu sync.Mutex
	var answer *resp
	request := func() {
		var r resp
		switch what {
		case "put-in-flight":
			_, _ = feed.Write(content)
			_ = feed.Close()
			r = <-inFlightDone
		case "session-complete":
			r = doReq(srv, "PUT", loc+"&digest="+d, nil, nil)
		case "monolithic":
			r = doReq(srv, "POST", "/v2/img/blobs/uploads/?digest="+d, content, nil)
		case "mount":
			r = doReq(srv, "POST", "/v2/img/blobs/uploads/?mount="+d+"&from=other", nil, nil)
		case "manifest":
			raw, _ := buildImage(mtImage, mtConfig, cd, len(cfg), []string{d}, []int{len(content)}, nil, "", map[string]string{"pushed": "during the collection"})
			r = doReq(srv, "PUT", "/v2/img/manifests/new", raw, hdr("Content-Type", mtImage))
		}
		rmu.Lock()
		answer = &r
		rmu.Unlock()
	}
	paused := false
	reqDone := make(chan struct{})
	vfs.Reset(root, false)
	vfs.PauseAt(pauseAt, "/img/blobs/sha256/"+d[7:], func() {
		paused = true
		go func() { request(); close(reqDone) }()
		select {
		case <-reqDone:
		case <-time.After(150 * time.Millisecond): // it waits for the collection (repository lock): it will finish afterwards
		}
	})
	gcErr := srv.VerifGC("img")
	vfs.PauseAt("", "", nil)
	if !paused {
		// the collection never reached that step for this blob (e.g. no removal because the stat already protected it)
		go func() { request(); close(reqDone) }()
	}
	select {
	case <-reqDone:
	case <-time.After(20 * time.Second):
		fail("request-stuck", "the %s request did not finish within 20 s after the collection (err %v) continued", what, gcErr)
	}
	rmu.Lock()
	r := *answer
	rmu.Unlock()
	trace = append(trace, fmt.Sprintf("collection paused: %v, returned %v; request answered %d", paused, gcErr, r.code))
	if r.panicV != nil {
		fail("panic", "request panicked: %v", r.panicV)
	}
	acked := r.code == 201
	st.Case(trace, acked && paused, "pause:"+pauseAt, "request:"+what)
	if !acked {
		// a manifest push may be refused when the collection had legitimately removed the old blob before (C04); an upload
		// is never refused for that reason
		if what != "manifest" {
			fail("upload-refused", "the %s request answered %d %s", what, r.code, trunc(r.body, 200))
		}
		return
	}
	// one more collection over the quiescent repository
	_ = srv.VerifGC("img")
	if g := doReq(srv, "GET", "/v2/img/blobs/"+d, nil, nil); g.code != 200 || !sameBytes(g.body, content) {
		fail("acknowledged-upload-collected", "the %s request was acknowledged (201) while a collection was paused before its %s of the 3 h old blob %s; afterwards the blob answers %d - it was uploaded moments ago and the grace period is 1 h", what, pauseAt, short(d), g.code)
	}
	if what == "manifest" {
		if g := doReq(srv, "GET", "/v2/img/manifests/new", nil, hdr("Accept", acceptAll)); g.code != 200 {
			fail("acknowledged-upload-collected", "the manifest acknowledged during the collection answers %d", g.code)
		}
	}
	if withTagged {
		if g := doReq(srv, "GET", "/v2/img/manifests/keep", nil, hdr("Accept", acceptAll)); g.code != 200 {
			fail("retained-content-removed", "the tagged image answers %d after the collection", g.code)
		}
	}
}

func TestC05Interleave(t *testing.T) {
	st := newStats("TestC05Interleave", "C05", c05iRule)
	rapid.Check(t, func(rt *rapid.T) { c05iProperty(rt, st) })
}
