package vh

import (
	"os"
	"testing"
)

func TestMain(m *testing.M) {
	code := m.Run()
	flushStats()
	os.Exit(code)
}
