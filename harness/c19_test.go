//go:build verifbubble

package vh

// C19 — every setting has its documented effect, for every combination (DESIGN.md §3 C19).
// Four layers: defaults (in-process), rate limit (virtual time, exact), flag wiring and switch semantics through the
// built binary (engine E8), termination signals.

import (
	"bytes"
	"fmt"
	"io"
	"net"
	"net/http"
	"os"
	"os/exec"
	"path/filepath"
	"reflect"
	"sort"
	"strings"
	"sync"
	"syscall"
	"testing"
	"time"

	"pgregory.net/rapid"

	"github.com/olareg/olareg"
	"github.com/olareg/olareg/config"
)

const c19Rule = "layer 1: arbitrary config.Config values (nil/non-nil switches, zero/negative/positive numbers) through SetDefaults, twice; layer 2: generated 'olareg serve' flag vectors (--api-push --api-delete --api-blob-delete " +
	"--api-referrer --store-ro --store-type --dir --warning* --rate-limit --addr {IPv4, IPv6 literal with and without brackets, localhost} --gc-grace-period; --dir written by a server with the referrers API on or off) started as real processes on loopback, probed with a fixed battery, compared with the behaviour table derived from the flag help; layer 3: generated request " +
	"sequences from several client addresses with virtual delays against RateLimit 1-5 inside a synctest bubble, compared with the accounting-window model; layer 4: SIGTERM/SIGINT at a generated moment (idle, during a slow upload, " +
	"during a burst, with and without --rate-limit), exit status and storage checked; non-trivial = vector differs from all-defaults in >=2 flags / >=2 addresses of which >=1 exceeds the limit / a set and an unset field; distinct = hash of the case"

// ---------------------------------------------------------------- layer 1: defaults

func drawBoolPtr(t *rapid.T, label string) *bool {
	switch rapid.IntRange(0, 2).Draw(t, label) {
	case 1:
		return bp(false)
	case 2:
		return bp(true)
	}
	return nil
}

func c19DefaultsProperty(t *rapid.T, st *Stats) {
	num := func(label string, neg bool) int64 {
		vals := []int64{0, 0, 1, 5, 1000, 1 << 40}
		if neg {
			vals = append(vals, -1, -1000)
		}
		return rapid.SampledFrom(vals).Draw(t, label)
	}
	var c config.Config
	c.API.PushEnabled, c.API.DeleteEnabled, c.API.Blob.DeleteEnabled, c.API.Referrer.Enabled = drawBoolPtr(t, "push"), drawBoolPtr(t, "delete"), drawBoolPtr(t, "blobDelete"), drawBoolPtr(t, "referrer")
	c.Storage.ReadOnly = drawBoolPtr(t, "readOnly")
	c.Storage.GC.Untagged, c.Storage.GC.EmptyRepo, c.Storage.GC.ReferrersDangling, c.Storage.GC.ReferrersWithSubj = drawBoolPtr(t, "untagged"), drawBoolPtr(t, "emptyRepo"), drawBoolPtr(t, "refDangling"), drawBoolPtr(t, "refWithSubj")
	c.API.Manifest.Limit = num("manifestLimit", false)
	c.API.Referrer.Limit = num("referrerLimit", false)
	c.API.Referrer.PageCacheLimit = int(num("pageCacheLimit", false) % (1 << 30))
	c.API.Referrer.PageCacheExpire = time.Duration(num("pageCacheExpire", false))
	c.API.RateLimit = int(num("rateLimit", false) % (1 << 30))
	c.Storage.GC.Frequency = time.Duration(num("gcFrequency", true))
	c.Storage.GC.GracePeriod = time.Duration(num("gcGrace", true))
	c.Storage.GC.RepoUploadMax = int(num("repoUploadMax", true) % (1 << 30))
	c.Storage.StoreType = rapid.SampledFrom([]config.Store{config.StoreUndef, config.StoreMem, config.StoreDir}).Draw(t, "storeType")
	c.Storage.RootDir = rapid.SampledFrom([]string{"", "/data", "rel/dir"}).Draw(t, "rootDir")
	c.API.Warnings = rapid.SampledFrom([][]string{nil, {"w1"}, {"w1", "w2"}}).Draw(t, "warnings")
	c.HTTP.Addr = rapid.SampledFrom([]string{"", ":5000"}).Draw(t, "addr")
	in := c
	trace := []string{fmt.Sprintf("%+v", describeConf(in))}
	fail := func(key, f string, a ...any) { Fail(t, st, key, fmt.Sprintf(f, a...), trace, nil) }
	c.SetDefaults()
	set, unset := 0, 0
	chkBool := func(name string, was, now *bool, def bool) {
		if now == nil {
			fail("default-missing", "%s is nil after SetDefaults", name)
		}
		if was != nil {
			set++
			if *now != *was {
				fail("explicit-value-overridden", "%s was explicitly %v and is %v after SetDefaults", name, *was, *now)
			}
		} else {
			unset++
			if *now != def {
				fail("wrong-default", "%s unset: default is %v, documented default %v", name, *now, def)
			}
		}
	}
	chkBool("API.PushEnabled", in.API.PushEnabled, c.API.PushEnabled, true)
	chkBool("API.DeleteEnabled", in.API.DeleteEnabled, c.API.DeleteEnabled, false)
	chkBool("API.Blob.DeleteEnabled", in.API.Blob.DeleteEnabled, c.API.Blob.DeleteEnabled, false)
	chkBool("API.Referrer.Enabled", in.API.Referrer.Enabled, c.API.Referrer.Enabled, true)
	chkBool("Storage.ReadOnly", in.Storage.ReadOnly, c.Storage.ReadOnly, false)
	chkBool("GC.Untagged", in.Storage.GC.Untagged, c.Storage.GC.Untagged, false)
	chkBool("GC.EmptyRepo", in.Storage.GC.EmptyRepo, c.Storage.GC.EmptyRepo, true)
	chkBool("GC.ReferrersDangling", in.Storage.GC.ReferrersDangling, c.Storage.GC.ReferrersDangling, false)
	chkBool("GC.ReferrersWithSubj", in.Storage.GC.ReferrersWithSubj, c.Storage.GC.ReferrersWithSubj, true)
	chkNum := func(name string, was, now, def int64, negMeaningful bool) {
		switch {
		case was > 0 || (was < 0 && negMeaningful):
			set++
			if now != was {
				fail("explicit-value-overridden", "%s was explicitly %d and is %d after SetDefaults", name, was, now)
			}
		case was == 0:
			unset++
			if now != def {
				fail("wrong-default", "%s unset: default is %d, documented default %d", name, now, def)
			}
		}
	}
	chkNum("API.Manifest.Limit", in.API.Manifest.Limit, c.API.Manifest.Limit, 8*1024*1024, false)
	chkNum("API.Referrer.Limit", in.API.Referrer.Limit, c.API.Referrer.Limit, 4*1024*1024, false)
	chkNum("API.Referrer.PageCacheLimit", int64(in.API.Referrer.PageCacheLimit), int64(c.API.Referrer.PageCacheLimit), 1000, false)
	chkNum("API.Referrer.PageCacheExpire", int64(in.API.Referrer.PageCacheExpire), int64(c.API.Referrer.PageCacheExpire), int64(5*time.Minute), false)
	chkNum("GC.Frequency", int64(in.Storage.GC.Frequency), int64(c.Storage.GC.Frequency), int64(15*time.Minute), true)
	chkNum("GC.GracePeriod", int64(in.Storage.GC.GracePeriod), int64(c.Storage.GC.GracePeriod), int64(time.Hour), true)
	chkNum("GC.RepoUploadMax", int64(in.Storage.GC.RepoUploadMax), int64(c.Storage.GC.RepoUploadMax), 1000, true)
	if c.API.RateLimit != in.API.RateLimit || c.HTTP.Addr != in.HTTP.Addr || !reflect.DeepEqual(c.API.Warnings, in.API.Warnings) || c.Storage.StoreType != in.Storage.StoreType {
		fail("explicit-value-overridden", "RateLimit/Addr/Warnings/StoreType changed by SetDefaults: %+v -> %+v", describeConf(in), describeConf(c))
	}
	if in.Storage.RootDir != "" && c.Storage.RootDir != in.Storage.RootDir {
		fail("explicit-value-overridden", "RootDir %q became %q", in.Storage.RootDir, c.Storage.RootDir)
	}
	if in.Storage.RootDir == "" && in.Storage.StoreType == config.StoreDir && c.Storage.RootDir != "." {
		fail("wrong-default", "RootDir of a dir store defaults to %q, documented \".\"", c.Storage.RootDir)
	}
	again := c
	again.SetDefaults()
	if !reflect.DeepEqual(describeConf(again), describeConf(c)) {
		fail("not-idempotent", "a second SetDefaults changed the configuration: %+v -> %+v", describeConf(c), describeConf(again))
	}
	st.Case(trace, set > 0 && unset > 0)
}

func describeConf(c config.Config) map[string]any {
	b := func(p *bool) any {
		if p == nil {
			return nil
		}
		return *p
	}
	return map[string]any{"push": b(c.API.PushEnabled), "delete": b(c.API.DeleteEnabled), "blobDelete": b(c.API.Blob.DeleteEnabled), "referrer": b(c.API.Referrer.Enabled), "ro": b(c.Storage.ReadOnly),
		"untagged": b(c.Storage.GC.Untagged), "emptyRepo": b(c.Storage.GC.EmptyRepo), "dangling": b(c.Storage.GC.ReferrersDangling), "withSubj": b(c.Storage.GC.ReferrersWithSubj),
		"manifestLimit": c.API.Manifest.Limit, "referrerLimit": c.API.Referrer.Limit, "pageCacheLimit": c.API.Referrer.PageCacheLimit, "pageCacheExpire": c.API.Referrer.PageCacheExpire,
		"rate": c.API.RateLimit, "gcFreq": c.Storage.GC.Frequency, "grace": c.Storage.GC.GracePeriod, "uploadMax": c.Storage.GC.RepoUploadMax, "store": int(c.Storage.StoreType), "root": c.Storage.RootDir,
		"warnings": fmt.Sprint(c.API.Warnings), "addr": c.HTTP.Addr}
}

func TestC19Defaults(t *testing.T) {
	st := newStats("TestC19Defaults", "C19", c19Rule)
	rapid.Check(t, func(t *rapid.T) { c19DefaultsProperty(t, st) })
}

// ---------------------------------------------------------------- layer 3: rate limit on the virtual clock

func c19RateProperty(t *rapid.T, st *Stats) {
	limit := rapid.IntRange(1, 5).Draw(t, "rateLimit")
	conf := baseConf(config.StoreMem, "")
	conf.API.RateLimit = limit
	// "warning headers to include with all responses": also with the responses the limiter produces
	warnings := rapid.SampledFrom([][]string{nil, nil, {"maintenance at noon"}, {"one", "two"}}).Draw(t, "warnings")
	conf.API.Warnings = warnings
	srv := olareg.New(conf)
	defer srv.Close()
	type win struct {
		start time.Time
		count int
		fuzzy bool // the last decision fell exactly on the window boundary
	}
	wins := map[string]*win{}
	addrs := []string{"10.0.0.1", "10.0.0.2", "10.0.0.12", "192.168.1.9", "::1", "::2", "2001:db8::a", "2001:db8::b", "::ffff:10.0.0.1"}
	trace := []string{fmt.Sprintf("RateLimit=%d warnings=%q", limit, warnings)}
	fail := func(key, f string, a ...any) { Fail(t, st, key, fmt.Sprintf(f, a...), trace, nil) }
	used := map[string]bool{}
	exceeded := false
	n := rapid.IntRange(1, 30).Draw(t, "nRequests")
	for i := 0; i < n; i++ {
		d := rapid.SampledFrom([]time.Duration{0, 0, time.Millisecond, 300 * time.Millisecond, 999 * time.Millisecond, time.Second, 1001 * time.Millisecond, 2 * time.Second, 11 * time.Second}).Draw(t, "delay")
		time.Sleep(d)
		ip := rapid.SampledFrom(addrs).Draw(t, "address")
		how := rapid.SampledFrom([]string{"remote", "remote-other-port", "xff", "xff-chain"}).Draw(t, "via")
		o := &reqOpt{hdr: map[string]string{}}
		switch how {
		case "remote":
			o.remote = net.JoinHostPort(ip, "40000")
		case "remote-other-port":
			o.remote = net.JoinHostPort(ip, fmt.Sprint(40001+i))
		case "xff":
			o.hdr["X-Forwarded-For"] = ip
			o.remote = "203.0.113.7:1"
		case "xff-chain":
			o.hdr["X-Forwarded-For"] = ip + ", 198.51.100.1"
			o.remote = "203.0.113.7:1"
		}
		key := ip
		if strings.HasPrefix(how, "remote") && strings.Contains(ip, ":") {
			key = "[" + ip + "]" // an IPv6 remote address keeps its brackets when the port is cut off
		}
		now := time.Now()
		w := wins[key]
		boundary := false
		if w == nil || now.Sub(w.start) > time.Second {
			if w != nil && now.Sub(w.start) == time.Second {
				boundary = true
			}
			w = &win{start: now}
			wins[key] = w
		}
		if now.Sub(w.start) == time.Second {
			boundary = true
		}
		w.count++
		r := doReq(srv, "GET", "/v2/", nil, o)
		trace = append(trace, fmt.Sprintf("+%v %s via %s -> %d (model: request %d of the window opened %v ago)", d, ip, how, r.code, w.count, now.Sub(w.start)))
		used[key] = true
		if r.panicV != nil {
			fail("panic", "panic: %v", r.panicV)
		}
		if got := r.hdr.Values("Warning"); len(got) != len(warnings) {
			fail("warning-headers", "response %d to %s carries Warning headers %q, configured: %q", r.code, ip, got, warnings)
		} else {
			for wi, w := range warnings {
				if got[wi] != fmt.Sprintf("299 - %q", w) {
					fail("warning-headers", "response %d carries Warning %q, configured %q", r.code, got[wi], w)
				}
			}
		}
		wantRefused := w.count > limit
		if wantRefused {
			exceeded = true
		}
		if boundary || w.fuzzy {
			// exactly one second after the window opened: either reading of "one accounting second" is fine;
			// re-synchronise the model with what the server decided
			if r.code == 429 && !wantRefused {
				w.count = limit + 1
			}
			if r.code == 200 && wantRefused {
				w.start, w.count = now, 1
			}
			w.fuzzy = boundary
			continue
		}
		switch {
		case wantRefused && r.code != 429:
			fail("limit-exceeded", "address %s was served request %d within %v of its accounting window although RateLimit is %d (status %d)", ip, w.count, now.Sub(w.start), limit, r.code)
		case !wantRefused && r.code != 200:
			fail("limited-too-early", "address %s was refused (%d) at request %d of its window (opened %v ago), RateLimit is %d - other addresses or ports must not count against it", ip, r.code, w.count, now.Sub(w.start), limit)
		case r.code == 429 && r.hdr.Get("Retry-After") == "":
			fail("no-retry-after", "429 without Retry-After")
		}
	}
	st.Case(trace, len(used) >= 2 && exceeded)
}

func TestC19Rate(t *testing.T) {
	st := newStats("TestC19Rate", "C19", c19Rule)
	bubbleCheck(t, func(rt *rapid.T) { c19RateProperty(rt, st) })
}

// ---------------------------------------------------------------- layers 2 and 4: the built binary

var (
	c19BinOnce sync.Once
	c19Bin     string
	c19BinErr  error
)

// c19Binary builds cmd/olareg from the scratch copy of the tree under test (once per process).
func c19Binary() (string, error) {
	c19BinOnce.Do(func() {
		src := os.Getenv("VERIF_SRC")
		if src == "" {
			c19BinErr = fmt.Errorf("VERIF_SRC not set")
			return
		}
		dir, err := os.MkdirTemp(tmpBase(), "vh-olareg-bin-") // the shard's scratch directory: removed by the driver with everything else
		if err != nil {
			c19BinErr = err
			return
		}
		c19Bin = filepath.Join(dir, "olareg")
		cmd := exec.Command("go", "build", "-o", c19Bin, "./cmd/olareg")
		cmd.Dir = src
		cmd.Env = append(os.Environ(), "GOFLAGS=-mod=mod", "GOTOOLCHAIN=local")
		out, err := cmd.CombinedOutput()
		if err != nil {
			c19BinErr = fmt.Errorf("go build ./cmd/olareg: %v\n%s", err, out)
		}
	})
	return c19Bin, c19BinErr
}

func c19FreePort() int {
	l, err := net.Listen("tcp", "127.0.0.1:0")
	if err != nil {
		return 0
	}
	defer l.Close()
	return l.Addr().(*net.TCPAddr).Port
}

type c19Proc struct {
	cmd  *exec.Cmd
	base string
	out  *bytes.Buffer
	done chan error
}

// c19HasIPv6 tells whether this machine can listen on the IPv6 loopback address at all.
var c19HasIPv6 = sync.OnceValue(func() bool {
	l, err := net.Listen("tcp", "[::1]:0")
	if err != nil {
		return false
	}
	_ = l.Close()
	return true
})

// c19Start runs "olareg serve --addr <addr> --port <port> ..."; addr is what the flag help calls "listener interface or
// address": an IPv4 or IPv6 literal or a host name.
func c19Start(bin string, args []string, addr string, port int) (*c19Proc, error) {
	p := &c19Proc{base: "http://" + net.JoinHostPort(strings.Trim(addr, "[]"), fmt.Sprint(port)), out: &bytes.Buffer{}, done: make(chan error, 1)}
	p.cmd = exec.Command(bin, append([]string{"serve", "--addr", addr, "--port", fmt.Sprint(port)}, args...)...)
	p.cmd.Stdout, p.cmd.Stderr = p.out, p.out
	if err := p.cmd.Start(); err != nil {
		return nil, err
	}
	go func() { p.done <- p.cmd.Wait() }()
	for i := 0; i < 400; i++ {
		select {
		case err := <-p.done:
			return nil, fmt.Errorf("process ended at start: %v\n%s", err, p.out.String())
		default:
		}
		if r, err := http.Get(p.base + "/v2/"); err == nil {
			_ = r.Body.Close()
			// make sure it is this process that answers (and not another one that won the race for the port)
			select {
			case err := <-p.done:
				return nil, fmt.Errorf("process ended at start: %v\n%s", err, p.out.String())
			case <-time.After(30 * time.Millisecond):
			}
			return p, nil
		}
		time.Sleep(5 * time.Millisecond)
	}
	_ = p.cmd.Process.Kill()
	return nil, fmt.Errorf("listener did not come up\n%s", p.out.String())
}

// stop sends the signal and waits for the exit; returns (exit code, waited ok).
func (p *c19Proc) stop(sig syscall.Signal, wait time.Duration) (int, bool) {
	_ = p.cmd.Process.Signal(sig)
	select {
	case err := <-p.done:
		if err == nil {
			return 0, true
		}
		if ee, ok := err.(*exec.ExitError); ok {
			return ee.ExitCode(), true
		}
		return -1, true
	case <-time.After(wait):
		_ = p.cmd.Process.Kill()
		<-p.done
		return -1, false
	}
}

func httpDo(method, u string, body []byte, hdrs map[string]string) (int, http.Header, []byte, error) {
	req, err := http.NewRequest(method, u, bytes.NewReader(body))
	if err != nil {
		return 0, nil, nil, err
	}
	for k, v := range hdrs {
		req.Header.Set(k, v)
	}
	c := &http.Client{Timeout: 20 * time.Second}
	resp, err := c.Do(req)
	if err != nil {
		return 0, nil, nil, err
	}
	defer resp.Body.Close()
	b, _ := io.ReadAll(resp.Body)
	return resp.StatusCode, resp.Header, b, nil
}

type c19Vector struct {
	push, del, blobDel, referrer, ro bool
	store                             string
	warnings                          []string
	rate                              int
	shortGrace                        bool // --gc-grace-period 20ms: with garbage collection disabled (--gc-frequency=-1s) still nothing is removed
}

func (v c19Vector) args(dir string) []string {
	a := []string{"--dir", dir, "--store-type", v.store, "--gc-frequency=-1s",
		fmt.Sprintf("--api-push=%v", v.push), fmt.Sprintf("--api-delete=%v", v.del), fmt.Sprintf("--api-blob-delete=%v", v.blobDel), fmt.Sprintf("--api-referrer=%v", v.referrer), fmt.Sprintf("--store-ro=%v", v.ro)}
	for _, w := range v.warnings {
		a = append(a, "--warning", w)
	}
	if v.rate > 0 {
		a = append(a, "--rate-limit", fmt.Sprint(v.rate))
	}
	if v.shortGrace {
		a = append(a, "--gc-grace-period", "20ms")
	}
	return a
}

func (v c19Vector) nonDefault() int {
	n := 0
	for _, b := range []bool{!v.push, v.del, v.blobDel, !v.referrer, v.ro, v.store != "dir", len(v.warnings) > 0, v.rate > 0} {
		if b {
			n++
		}
	}
	return n
}

func c19CLIProperty(t *rapid.T, st *Stats) {
	bin, err := c19Binary()
	if err != nil {
		t.Fatalf("cannot build the binary: %v", err)
	}
	v := c19Vector{push: rapid.Bool().Draw(t, "push"), del: rapid.Bool().Draw(t, "delete"), blobDel: rapid.Bool().Draw(t, "blobDelete"), referrer: rapid.Bool().Draw(t, "referrer"), ro: rapid.Bool().Draw(t, "storeRO"),
		store: rapid.SampledFrom([]string{"dir", "dir", "mem"}).Draw(t, "storeType"), warnings: rapid.SampledFrom([][]string{nil, nil, {"first warning"}, {"w one", "w two"}}).Draw(t, "warnings"),
		rate: rapid.SampledFrom([]int{0, 0, 0, 3}).Draw(t, "rateLimit"), shortGrace: rapid.IntRange(0, 2).Draw(t, "shortGrace") == 0}
	sig := rapid.SampledFrom([]syscall.Signal{syscall.SIGTERM, syscall.SIGINT}).Draw(t, "signal")
	moment := rapid.SampledFrom([]string{"idle", "idle", "during-slow-upload", "during-burst"}).Draw(t, "signalMoment")
	tmp := mkTemp("c19")
	defer os.RemoveAll(tmp)
	dir := filepath.Join(tmp, "data")
	_ = os.MkdirAll(dir, 0o755)
	addrs := []string{"127.0.0.1", "127.0.0.1", "127.0.0.1"}
	if h, err := net.LookupHost("localhost"); err == nil && len(h) > 0 {
		addrs = append(addrs, "localhost")
	}
	if c19HasIPv6() {
		addrs = append(addrs, "::1", "[::1]")
	}
	addr := rapid.SampledFrom(addrs).Draw(t, "addr")
	trace := []string{fmt.Sprintf("olareg serve --addr %s %s ; signal %v %s", addr, strings.Join(v.args("<dir>"), " "), sig, moment)}
	// the directory was written by a server with the referrers API on (the default) or off, whatever the vector says
	preReferrer := rapid.IntRange(0, 2).Draw(t, "directoryWrittenWithReferrersAPI") > 0
	if preReferrer && !v.referrer && avoid("C19/referrers-off-on-converted-layout") {
		st.Exclude("C19/referrers-off-on-converted-layout: a directory written with the referrers API on is served with it off")
		preReferrer = false
	}
	trace = append(trace, fmt.Sprintf("--dir was written by a server with --api-referrer=%v", preReferrer))
	fail := func(key, f string, a ...any) {
		if preReferrer && !v.referrer && key != "process-does-not-start" {
			key = "referrers-off-on-converted-layout"
		}
		Fail(t, st, key, fmt.Sprintf(f, a...), trace, nil)
	}
	// pre-existing content, written by an in-process writable server
	cfg := []byte("{}")
	cd := dig("sha256", cfg)
	img, _ := buildImage(mtImage, mtConfig, cd, 2, nil, nil, nil, "", map[string]string{"pre": "1"})
	imgD := dig("sha256", img)
	{
		wc := baseConf(config.StoreDir, dir)
		wc.API.Referrer.Enabled = bp(preReferrer)
		w := olareg.New(wc)
		_ = doReq(w, "POST", "/v2/pre/blobs/uploads/?digest="+cd, cfg, nil)
		if r := doReq(w, "PUT", "/v2/pre/manifests/v1", img, hdr("Content-Type", mtImage)); r.code != 201 {
			t.Fatalf("setup: %d", r.code)
		}
		_ = w.Close()
	}
	before := treeSnapshot(dir, false)
	// the port is chosen by asking the kernel for a free one and releasing it again: another process (the shards of
	// this check run side by side) can take it in between - that is the harness' problem, not the server's: try again
	var p *c19Proc
	for attempt := 0; attempt < 8; attempt++ {
		p, err = c19Start(bin, v.args(dir), addr, c19FreePort())
		if err == nil || !strings.Contains(err.Error(), "address already in use") {
			break
		}
		st.Add("port-collision-retried", 1)
	}
	if err != nil {
		fail("process-does-not-start", "%v", err)
	}
	killed := false
	defer func() {
		if !killed {
			_ = p.cmd.Process.Kill()
		}
	}()
	probe := func(name, method, path string, body []byte, hdrs map[string]string) (int, http.Header) {
		code, h, _, err := httpDo(method, p.base+path, body, hdrs)
		if err != nil {
			fail("probe-error", "probe %s: %v\n%s", name, err, p.out.String())
		}
		trace = append(trace, fmt.Sprintf("probe %s: %s %s -> %d", name, method, path, code))
		for _, w := range v.warnings {
			found := 0
			for _, hv := range h.Values("Warning") {
				if hv == `299 - "`+w+`"` {
					found++
				}
			}
			if found != 1 {
				fail("warning-header", "probe %s: warning %q appears %d times in the Warning headers %v (want exactly once on every response)", name, w, found, h.Values("Warning"))
			}
		}
		if len(v.warnings) == 0 && len(h.Values("Warning")) > 0 {
			fail("warning-header", "probe %s: Warning header %v without --warning", name, h.Values("Warning"))
		}
		return code, h
	}
	if v.rate > 0 {
		time.Sleep(1100 * time.Millisecond) // the start-up polling used this address' budget
	}
	budget := func() {
		if v.rate > 0 {
			time.Sleep(1100 * time.Millisecond)
		}
	}
	served := func(code int) bool { return code != 405 && code != 403 }
	expect := func(name string, code int, wantServed bool, why string) {
		if served(code) != wantServed {
			fail("switch-effect", "probe %s answered %d; per the flag help it must be %s because %s", name, code, map[bool]string{true: "served", false: "refused (405, or 403 when read-only)"}[wantServed], why)
		}
	}
	if code, _ := probe("ping", "GET", "/v2/", nil, nil); code != 200 {
		fail("ping", "GET /v2/ answered %d", code)
	}
	haveDir := v.store == "dir"
	// reads
	code, _ := probe("manifest-get", "GET", "/v2/pre/manifests/v1", nil, map[string]string{"Accept": mtImage})
	// (a memory store is layered over --dir: it serves that content too, but never writes there)
	_ = haveDir
	if code != 200 {
		fail("dir-content-not-served", "--store-type %s --dir <dir>: pre-existing tag answers %d", v.store, code)
	}
	probe("tag-list", "GET", "/v2/pre/tags/list", nil, nil)
	budget()
	code, _ = probe("referrers", "GET", "/v2/pre/referrers/"+imgD, nil, nil)
	if v.referrer != (code == 200) {
		fail("switch-effect", "--api-referrer=%v but the referrers endpoint answers %d", v.referrer, code)
	}
	// writes
	nb := []byte("new blob through the binary")
	code, _ = probe("blob-upload", "POST", "/v2/new/blobs/uploads/?digest="+dig("sha256", nb), nb, nil)
	expect("blob-upload", code, v.push && !v.ro, fmt.Sprintf("--api-push=%v --store-ro=%v", v.push, v.ro))
	pushed := code == 201
	budget()
	nimg, _ := buildImage(mtImage, mtConfig, cd, 2, nil, nil, nil, "", map[string]string{"new": "1"})
	_, _, _, _ = httpDo("POST", p.base+"/v2/new/blobs/uploads/?digest="+cd, cfg, nil)
	code, _ = probe("manifest-put", "PUT", "/v2/new/manifests/v2", nimg, map[string]string{"Content-Type": mtImage})
	expect("manifest-put", code, v.push && !v.ro, fmt.Sprintf("--api-push=%v --store-ro=%v", v.push, v.ro))
	manifestPushed := code == 201
	budget()
	code, _ = probe("manifest-delete", "DELETE", "/v2/pre/manifests/v1", nil, nil)
	expect("manifest-delete", code, v.del && !v.ro, fmt.Sprintf("--api-delete=%v --store-ro=%v", v.del, v.ro))
	tagDeleted := code == 202
	code, _ = probe("blob-delete", "DELETE", "/v2/pre/blobs/"+dig("sha256", []byte("no such blob")), nil, nil)
	expect("blob-delete", code, v.del && v.blobDel && !v.ro, fmt.Sprintf("--api-delete=%v --api-blob-delete=%v --store-ro=%v", v.del, v.blobDel, v.ro))
	// rate limit through the binary: the (rate+1)-th request within a second is refused, a fresh second is served again
	if v.rate > 0 {
		time.Sleep(1100 * time.Millisecond)
		codes := []int{}
		for i := 0; i < v.rate+2; i++ {
			c, _, _, _ := httpDo("GET", p.base+"/v2/", nil, nil)
			codes = append(codes, c)
		}
		trace = append(trace, fmt.Sprintf("burst of %d: %v", v.rate+2, codes))
		for i, c := range codes {
			if i < v.rate && c != 200 {
				fail("rate-limit-effect", "--rate-limit %d: request %d of a burst answered %d", v.rate, i+1, c)
			}
		}
		if codes[len(codes)-1] != 429 {
			fail("rate-limit-effect", "--rate-limit %d: request %d within one second answered %d, want 429", v.rate, len(codes), codes[len(codes)-1])
		}
		time.Sleep(1100 * time.Millisecond)
	}
	// ---- layer 4: the signal
	var slowDone chan int
	switch moment {
	case "during-slow-upload":
		if v.push && !v.ro {
			pr, pw := io.Pipe()
			slowDone = make(chan int, 1)
			go func() {
				req, _ := http.NewRequest("POST", p.base+"/v2/slow/blobs/uploads/?digest="+dig("sha256", []byte("slow body")), pr)
				resp, err := (&http.Client{Timeout: 30 * time.Second}).Do(req)
				if err != nil {
					slowDone <- -1
					return
				}
				_ = resp.Body.Close()
				slowDone <- resp.StatusCode
			}()
			_, _ = pw.Write([]byte("slow "))
			go func() { time.Sleep(300 * time.Millisecond); _, _ = pw.Write([]byte("body")); _ = pw.Close() }()
			time.Sleep(20 * time.Millisecond)
		}
	case "during-burst":
		for i := 0; i < 4; i++ {
			go func() {
				for j := 0; j < 20; j++ {
					_, _, _, _ = httpDo("GET", p.base+"/v2/pre/tags/list", nil, nil)
				}
			}()
		}
		time.Sleep(2 * time.Millisecond)
	}
	exit, ok := p.stop(sig, 20*time.Second)
	killed = true
	if !ok {
		fail("signal-does-not-stop", "the process did not exit within 20 s of %v (%s, --rate-limit %d)\noutput: %s", sig, moment, v.rate, p.out.String())
	}
	if exit != 0 {
		fail("signal-exit-status", "exit status %d after %v (%s)\noutput: %s", exit, sig, moment, p.out.String())
	}
	if slowDone != nil {
		select {
		case <-slowDone:
		case <-time.After(25 * time.Second):
		}
	}
	// ---- storage after the process
	after := treeSnapshot(dir, false)
	if v.store == "mem" || v.ro {
		if after != before {
			fail("dir-touched", "--store-type %s --store-ro=%v must leave --dir untouched:\n%s", v.store, v.ro, diffLines(before, after))
		}
	}
	if _, problems := validateLayoutTree(dir, layoutOpts{allowTemp: true}); len(problems) > 0 {
		fail("storage-after-signal", "after the signal the directory is not a valid layout: %s", strings.Join(problems, "; "))
	}
	if v.store == "dir" {
		// a fresh server on the same directory serves everything acknowledged before the signal
		wc := baseConf(config.StoreDir, dir)
		wc.API.Referrer.Enabled = bp(v.referrer)
		w := olareg.New(wc)
		if pushed {
			if r := doReq(w, "GET", "/v2/new/blobs/"+dig("sha256", nb), nil, nil); r.code != 200 || !sameBytes(r.body, nb) {
				fail("acknowledged-lost-after-signal", "blob acknowledged with 201 before the signal answers %d after a restart", r.code)
			}
		}
		if manifestPushed {
			if r := doReq(w, "GET", "/v2/new/manifests/v2", nil, hdr("Accept", mtImage)); r.code != 200 || !sameBytes(r.body, nimg) {
				fail("acknowledged-lost-after-signal", "manifest acknowledged with 201 before the signal answers %d after a restart", r.code)
			}
		}
		r := doReq(w, "GET", "/v2/pre/manifests/v1", nil, hdr("Accept", mtImage))
		if tagDeleted && r.code == 200 {
			fail("acknowledged-lost-after-signal", "tag deleted (202) before the signal is back after a restart")
		}
		if !tagDeleted && r.code != 200 {
			fail("acknowledged-lost-after-signal", "pre-existing tag answers %d after the restart", r.code)
		}
		_ = w.Close()
	}
	cl := []string{"signal:" + moment, "store:" + v.store}
	sort.Strings(cl)
	st.CaseSample([]string{trace[0]}, trace, v.nonDefault() >= 2, cl...)
}

func TestC19CLI(t *testing.T) {
	st := newStats("TestC19CLI", "C19", c19Rule)
	rapid.Check(t, func(t *rapid.T) { c19CLIProperty(t, st) })
}

// ---- "disable garbage collection": olareg serve --gc-frequency with a negative value (serve help; config.ConfigGC.Frequency:
// "disable gc with a negative value"). The effect to observe: nothing that was uploaded is ever removed by the server
// itself - not by a ticker, not when a repository leaves the cache after the grace period, not when the server stops.

const c19gRule = "TestC19GC: store (dir 3/4, mem) with GC.Frequency in {-1ns,-1s,-1h}, GracePeriod in {100ms,1h,disabled} and a generated policy (untagged, empty repository, dangling referrers, referrers with subject); content the policy " +
	"would collect is pushed (unreferenced blob, image pushed by digest, tagged image whose tag is then deleted, artifact whose subject is missing), aged beyond the grace period (hook), then 1-3 of " +
	"{wait 3.5 grace periods (cache eviction; only with 100 ms), restart on the same directory, traffic on other repositories}; oracle = every blob and manifest acknowledged and not deleted by the client is still served and the " +
	"set of blob files is unchanged; non-trivial = directory store and at least one restart or eviction wait; distinct = (frequency, grace, policy, triggers)"

func c19GCProperty(t *rapid.T, st *Stats) {
	dirStore := rapid.IntRange(0, 3).Draw(t, "dirStore") > 0
	freq := rapid.SampledFrom([]time.Duration{-1, -time.Second, -time.Hour}).Draw(t, "gcFrequency")
	const shortGrace = 100 * time.Millisecond
	grace := rapid.SampledFrom([]time.Duration{shortGrace, time.Hour, -1}).Draw(t, "gracePeriod")
	root := ""
	kind := config.StoreMem
	if dirStore {
		root = mkTemp("c19g")
		defer os.RemoveAll(root)
		kind = config.StoreDir
	}
	conf := baseConf(kind, root)
	conf.Storage.GC.Frequency, conf.Storage.GC.GracePeriod = freq, grace
	pol := [4]bool{rapid.Bool().Draw(t, "untagged"), rapid.Bool().Draw(t, "emptyRepo"), rapid.Bool().Draw(t, "referrersDangling"), rapid.Bool().Draw(t, "referrersWithSubj")}
	conf.Storage.GC.Untagged, conf.Storage.GC.EmptyRepo, conf.Storage.GC.ReferrersDangling, conf.Storage.GC.ReferrersWithSubj = bp(pol[0]), bp(pol[1]), bp(pol[2]), bp(pol[3])
	srv := olareg.New(conf)
	defer func() { _ = srv.Close() }()
	trace := []string{fmt.Sprintf("dir=%v gcFrequency=%v grace=%v untagged=%v emptyRepo=%v dangling=%v withSubj=%v", dirStore, freq, grace, pol[0], pol[1], pol[2], pol[3])}
	fail := func(key, f string, a ...any) { Fail(t, st, key, fmt.Sprintf(f, a...), trace, nil) }
	must := func(r resp, want int, what string) {
		if r.code != want {
			if grace == shortGrace {
				// an upload session lives for one grace period: on a busy machine a request can take longer than 100 ms
				st.Add("setup-outlived-the-short-grace-period", 1)
				t.Skip("setup request took longer than the grace period")
			}
			t.Fatalf("setup: %s answered %d %s", what, r.code, trunc(r.body, 200))
		}
	}
	// content that a collection under this policy would (partly) remove
	type item struct{ what, path string }
	items := []item{}
	cfg := []byte("{}")
	cd := dig("sha256", cfg)
	loose := []byte("a blob nothing refers to")
	must(doReq(srv, "POST", "/v2/img/blobs/uploads/?digest="+cd, cfg, nil), 201, "config")
	must(doReq(srv, "POST", "/v2/img/blobs/uploads/?digest="+dig("sha256", loose), loose, nil), 201, "loose blob")
	items = append(items, item{"unreferenced blob", "/v2/img/blobs/" + dig("sha256", loose)}, item{"config blob", "/v2/img/blobs/" + cd})
	byDigest, _ := buildImage(mtImage, mtConfig, cd, len(cfg), nil, nil, nil, "", map[string]string{"pushed": "by digest"})
	must(doReq(srv, "PUT", "/v2/img/manifests/"+dig("sha256", byDigest), byDigest, hdr("Content-Type", mtImage)), 201, "image by digest")
	items = append(items, item{"image pushed by digest", "/v2/img/manifests/" + dig("sha256", byDigest)})
	tagged, _ := buildImage(mtImage, mtConfig, cd, len(cfg), nil, nil, nil, "", map[string]string{"pushed": "by tag"})
	must(doReq(srv, "PUT", "/v2/img/manifests/v1", tagged, hdr("Content-Type", mtImage)), 201, "tagged image")
	must(doReq(srv, "DELETE", "/v2/img/manifests/v1", nil, nil), 202, "tag delete")
	items = append(items, item{"image whose tag was deleted", "/v2/img/manifests/" + dig("sha256", tagged)})
	art, _ := buildImage(mtImage, mtConfig, cd, len(cfg), nil, nil, nil, dig("sha256", []byte("a subject that was never pushed")), map[string]string{"artifact": "1"})
	must(doReq(srv, "PUT", "/v2/img/manifests/"+dig("sha256", art), art, hdr("Content-Type", mtImage)), 201, "artifact with a missing subject")
	items = append(items, item{"artifact with a missing subject", "/v2/img/manifests/" + dig("sha256", art)})
	// a repository that only ever held a blob (a collection with EmptyRepo would remove what is left of it)
	must(doReq(srv, "POST", "/v2/lonely/blobs/uploads/?digest="+dig("sha256", loose), loose, nil), 201, "blob in a second repository")
	items = append(items, item{"blob in a repository without manifests", "/v2/lonely/blobs/" + dig("sha256", loose)})
	for _, rn := range []string{"img", "lonely"} {
		if err := srv.VerifAgeBlobs(rn, 3*time.Hour); err != nil {
			t.Fatalf("ageing: %v", err)
		}
	}
	blobsBefore := map[string][]string{}
	for _, rn := range []string{"img", "lonely"} {
		blobsBefore[rn], _ = srv.VerifBlobList(rn)
	}
	nTrig := rapid.IntRange(1, 3).Draw(t, "triggers")
	strong := false
	trigs := ""
	for i := 0; i < nTrig; i++ {
		tr := rapid.SampledFrom([]string{"wait", "restart", "traffic"}).Draw(t, "trigger")
		if tr == "restart" && !dirStore {
			tr = "wait"
		}
		trigs += tr + ","
		switch tr {
		case "wait":
			if grace != shortGrace {
				trigs += "(nothing to wait for),"
				continue
			}
			w := 350 * time.Millisecond
			trace = append(trace, fmt.Sprintf("wait %v (the repository cache keeps an unused repository for one grace period)", w))
			time.Sleep(w)
			strong = true
		case "restart":
			trace = append(trace, "Close, New on the same directory")
			_ = srv.Close()
			srv = olareg.New(conf)
			strong = true
		case "traffic":
			trace = append(trace, "requests on three other repositories")
			for j := 0; j < 3; j++ {
				_ = doReq(srv, "GET", fmt.Sprintf("/v2/other%d/tags/list", j), nil, nil)
			}
		}
	}
	for _, it := range items {
		if r := doReq(srv, "GET", it.path, nil, hdr("Accept", acceptAll)); r.code != 200 {
			fail("gc-disabled-still-collects", "GC.Frequency=%v disables garbage collection, yet the %s (%s) answers %d after {%s}", freq, it.what, it.path, r.code, trigs)
		}
	}
	for _, rn := range []string{"img", "lonely"} {
		after, err := srv.VerifBlobList(rn)
		if err != nil {
			fail("gc-disabled-still-collects", "GC.Frequency=%v: repository %s cannot be listed after {%s}: %v", freq, rn, trigs, err)
		}
		if fmt.Sprint(after) != fmt.Sprint(blobsBefore[rn]) {
			fail("gc-disabled-still-collects", "GC.Frequency=%v disables garbage collection, yet the blobs of %s changed after {%s}:\nbefore %v\nafter  %v", freq, rn, trigs, blobsBefore[rn], after)
		}
	}
	st.Case(trace, dirStore && strong, fmt.Sprintf("freq:%v", freq), fmt.Sprintf("grace:%v", grace), "triggers:"+trigs)
}

func TestC19GC(t *testing.T) {
	st := newStats("TestC19GC", "C19", c19gRule)
	rapid.Check(t, func(t *rapid.T) { c19GCProperty(t, st) })
}
