//go:build verifvfs

package vh

// C07 with a failing read: the listing of a subject is kept as a stored response that every artifact push and delete
// reads, edits and writes back. "Lists exactly the manifests currently present ... whose subject is S" must survive a
// request whose read of that response fails (EMFILE under load, EIO): the request may be refused, but it must not
// write back a listing built from "nothing could be read", and a delete that could not edit the listing must not
// remove the manifest and leave it listed.

import (
	"encoding/json"
	"fmt"
	"os"
	"sort"
	"strings"
	"testing"

	"pgregory.net/rapid"

	"github.com/olareg/olareg"
	"github.com/olareg/olareg/config"
	"github.com/olareg/olareg/internal/vfs"
)

const c07xRule = "TestC07Faults: directory store; a subject (present or not) with 1-4 artifacts pushed without fault; then 1-3 requests from {push another artifact, push one of them again, delete one by digest}, " +
	"each with its k-th reading or (one in three) mutating file-system call failing with EIO, a failing write optionally short (k uniform over the calls the same request makes without fault on a copy of the directory), a request answered 5xx optionally repeated by the client; oracle after each request: every artifact that was acknowledged and not " +
	"addressed by a delete is listed exactly once with its descriptor; an artifact whose delete answered 202 is not listed; the artifact of a refused push is not asserted (two index saves: listed finding C09/C11); nothing else is listed; " +
	"the same after Close + New; non-trivial = the failed read was the open of the stored listing; distinct = (content, requests, k)"

func c07xProperty(t *rapid.T, st *Stats) {
	tmp := mkTemp("c07x")
	defer os.RemoveAll(tmp)
	root := tmp + "/root"
	conf := func(r string) config.Config { return baseConf(config.StoreDir, r) }
	trace := []string{}
	fail := func(key, f string, a ...any) { Fail(t, st, key, fmt.Sprintf(f, a...), trace, nil) }
	rn := "r"
	w := olareg.New(conf(root))
	cfg := []byte("{}")
	cd := dig("sha256", cfg)
	if r := doReq(w, "POST", "/v2/"+rn+"/blobs/uploads/?digest="+cd, cfg, nil); r.code != 201 {
		t.Fatalf("setup: config push %d", r.code)
	}
	sraw, _ := buildImage(mtImage, mtConfig, cd, 2, nil, nil, nil, "", map[string]string{"subject": "1"})
	sd := dig("sha256", sraw)
	if rapid.Bool().Draw(t, "subjectPresent") {
		if r := doReq(w, "PUT", "/v2/"+rn+"/manifests/subj", sraw, hdr("Content-Type", mtImage)); r.code != 201 {
			t.Fatalf("setup: subject push %d", r.code)
		}
	}
	art := func(i int) ([]byte, string) {
		raw, _ := buildImage(mtImage, mtEmpty, cd, 2, nil, nil, &mdesc{MediaType: mtImage, Digest: sd, Size: int64(len(sraw))}, "application/vnd.x.sig", map[string]string{"n": fmt.Sprint(i)})
		return raw, dig("sha256", raw)
	}
	listed := map[string]bool{}  // must be listed
	unknown := map[string]bool{} // not asserted
	n0 := rapid.IntRange(1, 4).Draw(t, "nArtifacts")
	for i := 0; i < n0; i++ {
		raw, d := art(i)
		if r := doReq(w, "PUT", "/v2/"+rn+"/manifests/"+d, raw, hdr("Content-Type", mtImage)); r.code != 201 {
			t.Fatalf("setup: artifact push %d", r.code)
		}
		listed[d] = true
	}
	_ = w.Close()
	trace = append(trace, fmt.Sprintf("%d artifacts of %s", n0, short(sd)))
	srv := olareg.New(conf(root))
	defer func() { _ = srv.Close() }()
	check := func(h *olareg.Server, when string) {
		r := doReq(h, "GET", "/v2/"+rn+"/referrers/"+sd, nil, nil)
		var idx mbody
		if r.code != 200 || json.Unmarshal(r.body, &idx) != nil {
			fail("referrers-status-after-read-error", "%s: referrers answer %d", when, r.code)
		}
		got := map[string]int{}
		for _, m := range idx.Manifests {
			got[m.Digest]++
		}
		for d := range listed {
			if got[d] != 1 {
				gl := sortedKeys(got)
				fail("referrer-lost-after-read-error", "%s: artifact %s is present (acknowledged, never deleted) and names the subject, it is listed %d times; listing: %v", when, short(d), got[d], shortList(gl))
			}
		}
		for d := range got {
			if !listed[d] && !unknown[d] {
				fail("referrer-extra-after-read-error", "%s: %s is listed although its delete was acknowledged with 202", when, short(d))
			}
		}
	}
	nextArt := n0
	listingRead := false
	for i, n := 0, rapid.IntRange(1, 3).Draw(t, "nRequests"); i < n; i++ {
		kind := rapid.SampledFrom([]string{"push", "push", "rePush", "delete"}).Draw(t, "request")
		var method, u string
		var body []byte
		var d string
		switch kind {
		case "push":
			body, d = art(nextArt)
			nextArt++
			method, u = "PUT", "/v2/"+rn+"/manifests/"+d
		case "rePush":
			body, d = art(rapid.IntRange(0, nextArt-1).Draw(t, "which"))
			method, u = "PUT", "/v2/"+rn+"/manifests/"+d
		case "delete":
			_, d = art(rapid.IntRange(0, nextArt-1).Draw(t, "which"))
			method, u = "DELETE", "/v2/"+rn+"/manifests/"+d
		}
		// how many reading and mutating calls does this request make? (same request on a copy of the directory)
		cp := fmt.Sprintf("%s/copy%d", tmp, i)
		_ = srv.Close()
		copyTree(root, cp)
		vfs.Reset(cp, false)
		c := olareg.New(conf(cp))
		_ = doReq(c, method, u, body, hdr("Content-Type", mtImage))
		nReads, nMuts := vfs.ReadCount(), vfs.MutCount()
		_ = c.Close()
		_ = os.RemoveAll(cp)
		srv = olareg.New(conf(root))
		if nReads == 0 {
			continue
		}
		writeFault := nMuts > 0 && rapid.IntRange(0, 2).Draw(t, "writeFault") == 0
		k := 0
		vfs.Reset(root, true)
		if writeFault {
			k = rapid.IntRange(1, nMuts).Draw(t, "failedWrite")
			vfs.FailAt(k)
			vfs.FailShort(rapid.Bool().Draw(t, "shortWrite"))
			nReads = nMuts
		} else {
			k = rapid.IntRange(1, nReads).Draw(t, "failedRead")
			vfs.FailReadAt(k)
		}
		r := doReq(srv, method, u, body, hdr("Content-Type", mtImage))
		failed := ""
		for _, op := range vfs.Log() {
			if strings.HasSuffix(op.Kind, "!fault") {
				failed = fmt.Sprintf("%s(%s)", op.Kind, strings.TrimPrefix(op.Path, root))
			}
		}
		vfs.Reset(root, false)
		trace = append(trace, fmt.Sprintf("%s %s with call %d of %d failing: %s -> %d", kind, short(d), k, nReads, failed, r.code))
		if r.code >= 500 && rapid.Bool().Draw(t, "clientRepeats") {
			// the client repeats a request that was answered 5xx (the fault is gone)
			r = doReq(srv, method, u, body, hdr("Content-Type", mtImage))
			trace = append(trace, fmt.Sprintf("  repeated -> %d", r.code))
		}
		if strings.HasPrefix(failed, "open") && strings.Contains(failed, "/blobs/") {
			listingRead = true
		}
		switch {
		case method == "PUT" && r.code == 201:
			listed[d] = true
			delete(unknown, d)
		case method == "PUT":
			if !listed[d] {
				// an artifact push is two index saves (listed finding C09/torn-referrers-update, C11/artifact-put-not-atomic):
				// refused after the first one the manifest is present and unlisted
				st.Exclude("C09/torn-referrers-update: membership of the artifact of a refused push is not asserted")
				unknown[d] = true
			}
		case method == "DELETE" && r.code == 202:
			delete(listed, d)
			delete(unknown, d)
		case method == "DELETE" && r.code == 404 && !listed[d]:
		case method == "DELETE":
			// refused: whether it went half way is not asserted for this artifact
			if listed[d] {
				delete(listed, d)
				unknown[d] = true
			}
		}
		check(srv, fmt.Sprintf("after request %d", i+1))
	}
	_ = srv.Close()
	srv = olareg.New(conf(root))
	check(srv, "after Close and New")
	ds := sortedKeys(listed)
	sort.Strings(ds)
	st.Case(trace, listingRead && len(listed) >= 2)
}

func TestC07Faults(t *testing.T) {
	st := newStats("TestC07Faults", "C07", c07xRule)
	rapid.Check(t, func(rt *rapid.T) { c07xProperty(rt, st) })
}
