package vh

// C15 for requests that overlap: "never answers a client-side mistake with a 5xx while storage is healthy" and "the
// registered code for the condition" also hold when the condition arises while the request is running. A client that
// cancels an upload session (or lets the repository evict it by opening more sessions than it may hold) while a chunk
// of that session is still on its way has made a client-side mistake; the chunk's answer is BLOB_UPLOAD_UNKNOWN, not a
// bare 500. TestC15 sends one request at a time and cannot produce the condition. Here the body reader of the chunk
// request owns the schedule: after a drawn number of bytes has been handed to the handler, the other client's requests
// run to completion, then the rest of the body follows.

import (
	"encoding/json"
	"fmt"
	"os"
	"path/filepath"
	"testing"
	"time"

	"pgregory.net/rapid"

	"github.com/olareg/olareg/config"
)

const c15oRule = "TestC15Overlap: mem and dir store; an upload session with 0-2 chunks already accepted; a PATCH, a completing PUT with body, or a monolithic POST (evicted only) whose body of 1-70000 bytes is delivered up to a drawn " +
	"position (0, inside, at the end before EOF), then another client cancels the session (DELETE) or opens RepoUploadMax more sessions (eviction, awaited), then the rest of the body; oracle = no panic, no 5xx, a 4xx body is an OCI error " +
	"document whose code is BLOB_UPLOAD_UNKNOWN (the session is gone) - a 2xx is accepted when every byte had been written before the session went; afterwards the session is unknown (status query 4xx BLOB_UPLOAD_UNKNOWN) unless the PUT completed it; " +
	"non-trivial = the interruption came after at least one byte of the body and before the last; distinct = hash of the parameters"

func c15oProperty(t *rapid.T, st *Stats, owner string) {
	dirStore := rapid.Bool().Draw(t, "dirStore")
	max := rapid.SampledFrom([]int{2, 3}).Draw(t, "uploadMax")
	e, cleanup := newEnv(t, st, dirStore, func(c *config.Config) { c.Storage.GC.RepoUploadMax = max })
	defer cleanup()
	rn := "r"
	content := bigBlob(rapid.SampledFrom([]int{1, 10, 300, 40000, 70000}).Draw(t, "size"), 7)
	pre := rapid.IntRange(0, 2).Draw(t, "chunksBefore")
	method := rapid.SampledFrom([]string{"PATCH", "PATCH", "PUT", "POST"}).Draw(t, "method")
	hows := []string{"cancel", "cancel", "evict"}
	if owner == "C08" {
		hows = append(hows, "patch", "patch") // another chunk of the same session lands in the gap (a retry overlapping the request it retries)
	}
	how := rapid.SampledFrom(hows).Draw(t, "how")
	if method == "POST" {
		// a monolithic upload: its session is never handed out, only the repository can take it away (eviction)
		how, pre = "evict", 0
	}
	at := rapid.SampledFrom([]int{0, 1, len(content) / 2, len(content) - 1, len(content)}).Draw(t, "at")
	if at < 0 {
		at = 0
	}
	trace := []string{fmt.Sprintf("store dir=%v uploadMax=%d; %d chunk(s) accepted before; %s of %d bytes interrupted after %d by %s", dirStore, max, pre, method, len(content), at, how)}
	e.trace = trace
	var r resp
	loc := "/v2/" + rn + "/blobs/uploads/"
	if method != "POST" {
		r = e.do("POST", "/v2/"+rn+"/blobs/uploads/", nil, nil)
		if r.code != 202 {
			e.abandon("session refused")
			return
		}
		loc = r.hdr.Get("Location")
	}
	off := 0
	all := []byte{}
	for i := 0; i < pre; i++ {
		chunk := []byte(fmt.Sprintf("chunk %d accepted earlier;", i))
		r = e.do("PATCH", loc, chunk, hdr("Content-Range", fmt.Sprintf("%d-%d", off, off+len(chunk)-1)))
		if r.code != 202 {
			e.abandon("chunk refused")
			return
		}
		loc, off, all = r.hdr.Get("Location"), off+len(chunk), append(all, chunk...)
	}
	all = append(all, content...)
	interrupted := false
	o := hdr("Content-Range", fmt.Sprintf("%d-%d", off, off+len(content)-1))
	o.midAt = at
	o.midBody = func() {
		interrupted = true
		switch how {
		case "cancel":
			d := e.do("DELETE", sessionPath(loc), nil, nil)
			e.logf("  in the gap: DELETE session -> %d", d.code)
		case "patch":
			g := e.do("GET", sessionPath(loc), nil, nil)
			var from, to int
			start := 0
			if n, _ := fmt.Sscanf(g.hdr.Get("Range"), "%d-%d", &from, &to); n == 2 && to >= 0 {
				start = to + 1
			}
			p := e.do("PATCH", g.hdr.Get("Location"), []byte("XYZ"), hdr("Content-Range", fmt.Sprintf("%d-%d", start, start+2)))
			e.logf("  in the gap: status %s, PATCH 3 bytes at %d -> %d", g.hdr.Get("Range"), start, p.code)
		case "evict":
			for i := 0; i < max; i++ {
				p := e.do("POST", "/v2/"+rn+"/blobs/uploads/", nil, nil)
				e.logf("  in the gap: POST another session -> %d", p.code)
			}
			// the bound is enforced in the background: wait until it is
			for i := 0; i < 400; i++ {
				if n, err := e.srv.VerifUploadCount(rn); err == nil && n <= max {
					break
				}
				time.Sleep(5 * time.Millisecond)
			}
		}
	}
	u := loc
	putDig := ""
	if method == "POST" {
		putDig = dig("sha256", all)
		u = loc + "?digest=" + putDig
		o = &reqOpt{hdr: map[string]string{}, midAt: o.midAt, midBody: o.midBody}
	}
	if method == "PUT" {
		sep := "?"
		for _, c := range loc {
			if c == '?' {
				sep = "&"
			}
		}
		// another algorithm than the session's makes the completion re-read what was stored
		putDig = dig(rapid.SampledFrom([]string{"sha256", "sha256", "sha512"}).Draw(t, "putAlg"), all)
		u = loc + sep + "digest=" + putDig
	}
	r = e.do(method, u, content, o)
	e.logf("%s -> %d %s", method, r.code, trunc(r.body, 120))
	fail := func(key, f string, a ...any) { Fail(t, st, key, fmt.Sprintf(f, a...), e.trace, nil) }
	if r.panicV != nil {
		fail("panic", "%s of a session that was %sed while its body was on the way panicked: %v", method, how, r.panicV)
	}
	if !interrupted {
		e.abandon("body was not read to the interruption point")
		return
	}
	if owner == "C08" {
		c08Overlap(t, st, e, how, method, r, loc, all, content, at, putDig)
		st.Case(e.trace, at > 0 && at < len(content), fmt.Sprintf("method:%s", method), "how:"+how, fmt.Sprintf("answer:%dxx", r.code/100))
		return
	}
	if r.code >= 500 {
		fail("overlap-5xx", "%s of a session that another request %sed while the body was on its way (%d of %d bytes delivered) answered %d %q; storage is healthy, the session is unknown: 4xx BLOB_UPLOAD_UNKNOWN", method, how, at, len(content), r.code, trunc(r.body, 100))
	}
	if r.code >= 400 {
		var doc struct {
			Errors []struct{ Code string } `json:"errors"`
		}
		if json.Unmarshal(r.body, &doc) != nil || len(doc.Errors) == 0 {
			fail("overlap-error-body", "%s answered %d with a body that is no OCI error document: %q", method, r.code, trunc(r.body, 100))
		}
		// eviction removes the least recently used sessions; the interrupted one may survive, then the chunk is judged on its merits
		if how == "cancel" && doc.Errors[0].Code != "BLOB_UPLOAD_UNKNOWN" {
			fail("overlap-code", "%s of a cancelled session answered %d with code %s, the condition is BLOB_UPLOAD_UNKNOWN", method, r.code, doc.Errors[0].Code)
		}
	}
	// the cancelled session is gone for good, whatever the overlapped request was told
	if how == "cancel" && !(method == "PUT" && r.code == 201) {
		g := e.do("GET", sessionPath(loc), nil, nil)
		if g.code < 400 || g.code >= 500 {
			fail("overlap-session-alive", "status query of the cancelled session answers %d", g.code)
		}
	}
	st.Case(e.trace, at > 0 && at < len(content), fmt.Sprintf("method:%s", method), "how:"+how, fmt.Sprintf("answer:%dxx", r.code/100))
}

func TestC15Overlap(t *testing.T) {
	st := newStats("TestC15Overlap", "C15", c15oRule)
	rapid.Check(t, func(rt *rapid.T) { c15oProperty(rt, st, "C15") })
}

// ---- the same overlap judged by C08: "ceases to exist after ... cancellation ... further use is refused, no partial
// content ever becomes a blob and no temporary file remains".

const c08oRule = "TestC08Overlap: the generator of TestC15Overlap (a PATCH or completing PUT whose body is interrupted after a drawn number of bytes by a DELETE of the session, by eviction, or by another chunk of the same session sent from the offset the status query reports at that moment); oracle after an overlapping chunk: the Range the overlapped PATCH reports equals the status query right after it; oracle after a cancel: the status " +
	"query and a further chunk are refused, neither the bytes accepted before the overlapped chunk, nor those plus the delivered part, nor the whole content are retrievable as a blob under their digest unless the PUT was answered 201 " +
	"(then exactly the whole content is), and the directory store's _uploads holds no file; non-trivial = interrupted strictly inside the body; distinct = hash of the parameters"

func c08Overlap(t *rapid.T, st *Stats, e *env, how, method string, r resp, loc string, all, content []byte, at int, putDig string) {
	fail := func(key, f string, a ...any) { Fail(t, st, key, fmt.Sprintf(f, a...), e.trace, nil) }
	if how == "patch" {
		// how the two bodies end up in the session is the listed finding 26 (requests on one session are not serialised);
		// what the overlapped request reports must still be what the session holds when it answers
		if r.code == 202 || r.code == 201 {
			g := e.do("GET", sessionPath(loc), nil, nil)
			if r.code == 202 && g.code == 204 && g.hdr.Get("Range") != r.hdr.Get("Range") {
				fail("chunk-reports-wrong-offset", "the PATCH was answered 202 with Range %q; the status query right after it reports %q (another chunk of the session had been accepted while its body was on the way)", r.hdr.Get("Range"), g.hdr.Get("Range"))
			}
		}
		return
	}
	if how != "cancel" {
		return // which sessions an eviction removes is the cache's choice (C20); C08's bound is checked by TestC08
	}
	completed := method == "PUT" && r.code == 201
	g := e.do("GET", sessionPath(loc), nil, nil)
	if !completed && (g.code < 400 || g.code >= 500) {
		fail("cancelled-session-alive", "the session was cancelled (DELETE 202) while a %s was receiving its body; its status query now answers %d", method, g.code)
	}
	p := e.do("PATCH", sessionPath(loc), []byte("more"), nil)
	if p.code < 400 {
		fail("cancelled-session-usable", "a further chunk on the cancelled session is answered %d", p.code)
	}
	before := all[:len(all)-len(content)]
	cands := map[string][]byte{"the bytes accepted before the overlapped chunk": before, "those plus the delivered part of the chunk": all[:len(before)+at]}
	if !completed {
		cands["the whole content"] = all
	}
	for what, b := range cands {
		if len(b) == 0 || (completed && len(b) == len(all)) {
			continue
		}
		x := e.do("GET", "/v2/r/blobs/"+dig("sha256", b), nil, nil)
		if x.code != 200 {
			x = e.do("GET", "/v2/r/blobs/"+dig("sha512", b), nil, nil)
		}
		if x.code == 200 {
			fail("partial-content-became-blob", "%s (%d bytes) are served as a blob after the session was cancelled (overlapped %s answered %d)", what, len(b), method, r.code)
		}
	}
	if completed {
		if x := e.do("GET", "/v2/r/blobs/"+putDig, nil, nil); x.code != 200 || !sameBytes(x.body, all) {
			fail("completed-blob-wrong", "the PUT was answered 201, the blob answers %d with %d bytes (%d were sent)", x.code, len(x.body), len(all))
		}
	}
	if e.root != "" {
		if ents, err := os.ReadDir(filepath.Join(e.root, "r", "_uploads")); err == nil && len(ents) > 0 {
			fail("upload-file-left", "after the cancel %d file(s) remain in _uploads", len(ents))
		}
	}
}

func TestC08Overlap(t *testing.T) {
	st := newStats("TestC08Overlap", "C08", c08oRule)
	rapid.Check(t, func(rt *rapid.T) { c15oProperty(rt, st, "C08") })
}
