//go:build verifvsync

package vh

// TestC11InterleaveLocks: the pair property of c11pair_test.go with lock acquisitions as pause points. R1 is paused
// before the k-th Lock call its goroutine makes (k over all of them: in front of every critical section of the store,
// the caches and the server), R2 runs in that gap. Works on the memory store too, where nothing touches the file system.

import (
	"testing"

	"pgregory.net/rapid"

	"github.com/olareg/olareg/internal/vsync"
)

const c11lRule = "TestC11InterleaveLocks: as TestC11Interleave, but R1 is paused before the k-th mutex acquisition of its goroutine (store, repository, caches, server; k uniform over the acquisitions R1 makes alone) and both stores are used " +
	"(memory store: no restart observation); oracle and non-triviality as there; distinct = (store, initial content, R1, R2, k)"

var c11iLockSched = c11iSched{
	name: "locks", stores: []string{"dir", "mem", "mem"}, unit: "mutex acquisitions",
	begin:   func(string) { vsync.Track(0, nil) },
	steps:   func() int { return vsync.Untrack() },
	pauseAt: func(_ string, k int, fn func()) { vsync.Track(k, fn) },
	end:     func() { vsync.Untrack() },
}

func TestC11InterleaveLocks(t *testing.T) {
	st := newStats("TestC11InterleaveLocks", "C11", c11lRule)
	rapid.Check(t, func(rt *rapid.T) { c11iProperty(rt, st, c11iLockSched) })
}
