package vh

// Engine E1: one olareg.Server per case driven through ServeHTTP, plus a deliberately naive reference model.
// Each property's test composes the operations it needs and owns its own assertions (DESIGN.md §1.5, §2 E1).

import (
	"bytes"
	"encoding/json"
	"fmt"
	"net/url"
	"os"
	"path/filepath"
	"sort"
	"strings"
	"time"

	"pgregory.net/rapid"

	"github.com/olareg/olareg"
	"github.com/olareg/olareg/config"
)

// ---------------------------------------------------------------- model

type mman struct {
	raw     []byte
	mt      string // media type it is stored under
	subject string
	at      string // artifactType as a referrers response must report it
	ann     map[string]string
	refs    []string // config+layers (image) or children (index)
	refMT   []string // media type each child is listed under (index only, parallel to refs)
	isIndex bool
}

type msession struct {
	id     string
	repo   string
	loc    string // last Location returned (path?state=...)
	buf    []byte
	alg    string // algorithm requested at POST ("" = default)
	expect string // digest given at POST (mount fallback)
	dead   bool
}

type mrepo struct {
	blobs map[string][]byte
	mans  map[string]*mman
	tags  map[string]string
	// digests whose by-digest manifest visibility is unspecified (open finding 12: child bookkeeping)
	fuzzy map[string]bool
	// subjects whose referrers listing is unspecified (a collection may have dropped the response)
	refFuzzy map[string]bool
	// every manifest ever acknowledged (needed to follow children of deleted indexes)
	everMans map[string]*mman
}

func newMRepo() *mrepo {
	return &mrepo{blobs: map[string][]byte{}, mans: map[string]*mman{}, tags: map[string]string{}, fuzzy: map[string]bool{}, refFuzzy: map[string]bool{}, everMans: map[string]*mman{}}
}

// markFuzzy marks d, and everything below it if it is (or was) an index, as "by-digest manifest visibility
// unspecified" (open finding 12: children leave index.json and are only re-discovered through a present parent).
func (mr *mrepo) markFuzzy(d string) {
	if mr.fuzzy[d] {
		return
	}
	mr.fuzzy[d] = true
	if x := mr.everMans[d]; x != nil && x.isIndex {
		for _, c := range x.refs {
			mr.markFuzzy(c)
		}
	}
}

type env struct {
	t        *rapid.T
	st       *Stats
	srv      *olareg.Server
	conf     config.Config
	root     string
	repos    map[string]*mrepo
	repoPool []string
	trace    []string
	sessions []*msession
	classes  map[string]bool
	counts   map[string]int
	// every digest ever mentioned (pushed, refused, declared)
	universe map[string]bool
	// digests used as a subject by some (attempted) push
	subjects map[string]bool
	// abandoned: the case left the area the model describes (divergence owned by another property)
	abandoned bool
	// outsideRepeat: operations run directly by the property (not as rapid actions)
	outsideRepeat bool
}

func (e *env) logf(f string, a ...any) { e.trace = append(e.trace, fmt.Sprintf(f, a...)) }

func (e *env) repo(n string) *mrepo {
	if e.repos[n] == nil {
		e.repos[n] = newMRepo()
	}
	return e.repos[n]
}

func (e *env) class(c string) { e.classes[c] = true; e.counts[c]++ }

func (e *env) classList() []string {
	out := make([]string, 0, len(e.classes))
	for c := range e.classes {
		out = append(out, c)
	}
	sort.Strings(out)
	return out
}

func (e *env) fail(key, f string, a ...any) {
	Fail(e.t, e.st, key, fmt.Sprintf(f, a...), e.trace, e.confSummary())
}

type abandonSignal struct{}

// skipSignal: an operation found nothing to act on while it ran outside a rapid action (see env.skip).
type skipSignal struct{}

// abandon ends the case without judging it (the divergence belongs to another property).
// The remaining steps of the case become no-ops (see actions / guard).
func (e *env) abandon(why string) {
	if !e.abandoned {
		e.abandoned = true
		e.logf("ABANDONED: %s", why)
		e.st.Add("abandoned_foreign_divergence", 1)
		e.st.Add("abandoned:"+why, 1)
		if d := os.Getenv("VERIF_ABANDON_DUMP"); d != "" {
			// development aid: keep the trace of abandoned cases so that they can be reviewed
			_ = os.WriteFile(filepath.Join(d, fmt.Sprintf("abandoned-%d.txt", time.Now().UnixNano())), []byte(why+"\n"+strings.Join(e.trace, "\n")+"\n"), 0o644)
		}
	}
	panic(abandonSignal{})
}

// skip is t.Skip for operations that are also called outside t.Repeat (there a Skip would discard the whole case).
func (e *env) skip(t *rapid.T, why string) {
	if e.outsideRepeat {
		panic(skipSignal{})
	}
	t.Skip(why)
}

// guard runs f and swallows the abandon signal.
func (e *env) guard(f func()) {
	defer func() {
		if r := recover(); r != nil {
			_, isAbandon := r.(abandonSignal)
			_, isSkip := r.(skipSignal)
			if !isAbandon && !isSkip {
				panic(r)
			}
		}
	}()
	f()
}

// actions wraps a rapid action map so that an abandoned case runs out as no-ops.
func (e *env) actions(m map[string]func(*rapid.T)) map[string]func(*rapid.T) {
	out := map[string]func(*rapid.T){}
	for k, f := range m {
		f := f
		out[k] = func(t *rapid.T) {
			if e.abandoned {
				return
			}
			e.guard(func() { f(t) })
		}
	}
	return out
}

func (e *env) confSummary() map[string]any {
	st := "mem"
	if e.conf.Storage.StoreType == config.StoreDir {
		st = "dir"
	}
	m := map[string]any{"store": st, "grace": e.conf.Storage.GC.GracePeriod.String(), "manifestLimit": e.conf.API.Manifest.Limit,
		"referrerLimit": e.conf.API.Referrer.Limit, "uploadMax": e.conf.Storage.GC.RepoUploadMax}
	for k, p := range map[string]*bool{"untagged": e.conf.Storage.GC.Untagged, "emptyRepo": e.conf.Storage.GC.EmptyRepo,
		"refDangling": e.conf.Storage.GC.ReferrersDangling, "refWithSubj": e.conf.Storage.GC.ReferrersWithSubj, "readOnly": e.conf.Storage.ReadOnly} {
		if p != nil {
			m[k] = *p
		}
	}
	return m
}

// do sends a request; a handler panic or a 5xx is reported through onBad (property specific).
func (e *env) do(method, u string, body []byte, o *reqOpt) resp {
	r := doReq(e.srv, method, u, body, o)
	return r
}

// gcIdle is a collection frequency whose ticker never fires within a case. (A negative frequency disables garbage
// collection altogether, also the collection of a repository that leaves the cache or is closed.)
const gcIdle = 100000 * time.Hour

// baseConf: GC never runs by itself and collects nothing (a restart is a collection under the configured policy).
func baseConf(store config.Store, root string) config.Config {
	return config.Config{
		Storage: config.ConfigStorage{StoreType: store, RootDir: root, GC: config.ConfigGC{Frequency: gcIdle, GracePeriod: time.Hour,
			Untagged: bp(false), EmptyRepo: bp(false), ReferrersDangling: bp(false), ReferrersWithSubj: bp(false)}},
		API: config.ConfigAPI{DeleteEnabled: bp(true), Blob: config.ConfigAPIBlob{DeleteEnabled: bp(true)}},
	}
}

// newEnv creates the server. For the directory store a fresh root under tmpBase is made; cleanup removes it.
func newEnv(t *rapid.T, st *Stats, dirStore bool, mod func(*config.Config)) (*env, func()) {
	e := &env{t: t, st: st, repos: map[string]*mrepo{}, classes: map[string]bool{}, counts: map[string]int{}, universe: map[string]bool{}, subjects: map[string]bool{}}
	store := config.StoreMem
	if dirStore {
		store = config.StoreDir
		e.root = mkTemp("root")
	}
	e.conf = baseConf(store, e.root)
	if mod != nil {
		mod(&e.conf)
	}
	e.srv = olareg.New(e.conf)
	cleanup := func() {
		if e.srv != nil {
			done := make(chan struct{})
			go func() { _ = e.srv.Close(); close(done) }()
			select {
			case <-done:
			case <-time.After(20 * time.Second):
			}
		}
		if e.root != "" {
			_ = os.RemoveAll(e.root)
		}
	}
	return e, cleanup
}

func (e *env) isDir() bool { return e.conf.Storage.StoreType == config.StoreDir }

// restart closes the server and opens a new one on the same root (dir store only).
func (e *env) restart() {
	_ = e.srv.Close() // Close reports "failed to load index" for repositories that were only ever read: ignored
	e.srv = olareg.New(e.conf)
	for _, s := range e.sessions {
		s.dead = true
	}
}

// ---------------------------------------------------------------- pools

var blobPool = [][]byte{[]byte("{}"), []byte("layer-1"), []byte("layer-2"), []byte(""), []byte("layer-3"), []byte("0123456789abcdefghijklmnopqrstuvwxyz")}
var algPool = []string{"sha256", "sha256", "sha512", "sha384"}

func bigBlob(n int, salt byte) []byte {
	b := make([]byte, n)
	for i := range b {
		b[i] = byte(i*7) ^ salt
	}
	return b
}

func drawContent(t *rapid.T) []byte {
	switch rapid.IntRange(0, 9).Draw(t, "contentKind") {
	case 0, 1, 2, 3, 4, 5:
		return rapid.SampledFrom(blobPool).Draw(t, "poolBlob")
	case 6, 7, 8:
		return rapid.SliceOfN(rapid.Byte(), 0, 64).Draw(t, "bytes")
	default:
		return bigBlob(rapid.SampledFrom([]int{32 * 1024, 32*1024 + 1, 40 * 1024}).Draw(t, "bigLen"), byte(rapid.IntRange(0, 3).Draw(t, "salt")))
	}
}

// ---------------------------------------------------------------- blob uploads

type uploadPlan struct {
	repo      string
	content   []byte
	postAlg   string // digest-algorithm at POST ("" absent)
	finalAlg  string // algorithm of the digest given at completion
	proto     int    // 0 monolithic POST, 1 POST+PUT, 2 POST+PATCH*+PUT
	cuts      []int  // chunk boundaries for proto 2
	lastInPut bool   // final chunk travels in the PUT
	declared  string // digest sent (may be wrong)
	wrongKind string // "" = correct
	unknownCL bool
}

func drawCuts(t *rapid.T, n int) []int {
	if n == 0 {
		return nil
	}
	k := rapid.IntRange(0, 3).Draw(t, "nCuts")
	cuts := make([]int, 0, k)
	for i := 0; i < k; i++ {
		cuts = append(cuts, rapid.IntRange(0, n).Draw(t, "cut"))
	}
	sort.Ints(cuts)
	return cuts
}

func flipHex(d string) string {
	b := []byte(d)
	i := len(b) - 1
	if b[i] == '0' {
		b[i] = '1'
	} else {
		b[i] = '0'
	}
	return string(b)
}

// wrongDigest derives a digest that does not match content.
func wrongDigest(kind string, alg string, content []byte) string {
	right := dig(alg, content)
	switch kind {
	case "flip":
		return flipHex(right)
	case "other-content":
		return dig(alg, append([]byte("other:"), content...))
	case "wrong-prefix": // right hash of another algorithm cannot be spelled with this prefix, so use a same-length wrong one
		other := map[string]string{"sha256": "sha512", "sha512": "sha256", "sha384": "sha256"}[alg]
		od := dig(other, content)
		hexp := od[strings.Index(od, ":")+1:]
		want := len(right) - len(alg) - 1
		for len(hexp) < want {
			hexp += hexp
		}
		return alg + ":" + hexp[:want]
	case "truncated":
		return right[:len(right)-2]
	}
	return right
}

func drawUploadPlan(t *rapid.T, repo string, content []byte, allowWrong bool) uploadPlan {
	p := uploadPlan{repo: repo, content: content}
	p.proto = rapid.IntRange(0, 2).Draw(t, "proto")
	p.postAlg = rapid.SampledFrom([]string{"", "", "sha256", "sha384", "sha512"}).Draw(t, "postAlg")
	p.finalAlg = rapid.SampledFrom(algPool).Draw(t, "finalAlg")
	if p.proto == 0 {
		// monolithic: the digest given at POST fixes the algorithm; digest-algorithm may still be sent
	}
	if p.proto == 2 {
		p.cuts = drawCuts(t, len(content))
		p.lastInPut = rapid.Bool().Draw(t, "lastInPut")
	}
	p.unknownCL = rapid.IntRange(0, 3).Draw(t, "unknownCL") == 0
	if allowWrong && rapid.IntRange(0, 2).Draw(t, "wrong") == 0 {
		p.wrongKind = rapid.SampledFrom([]string{"flip", "other-content", "wrong-prefix", "truncated"}).Draw(t, "wrongKind")
	}
	p.declared = wrongDigest(p.wrongKind, p.finalAlg, content)
	return p
}

type uploadResult struct {
	final    resp   // the response to the completing request
	step     string // which request produced final
	chunks   int    // non-empty chunks sent by PATCH
	algoSwap bool
}

func sessionPath(loc string) string {
	u, err := url.Parse(loc)
	if err != nil {
		return loc
	}
	return u.Path
}

// runUpload executes a whole upload protocol. Intermediate steps that are expected to succeed and do not are
// returned as final with step naming the request.
func (e *env) runUpload(p uploadPlan) uploadResult {
	ur := uploadResult{}
	base := "/v2/" + p.repo + "/blobs/uploads/"
	ro := func() *reqOpt {
		if p.unknownCL {
			return &reqOpt{unknownCL: true}
		}
		return nil
	}
	sessAlg := p.postAlg
	if sessAlg == "" {
		sessAlg = "sha256"
	}
	ur.algoSwap = sessAlg != p.finalAlg
	if p.proto == 0 {
		q := url.Values{}
		q.Set("digest", p.declared)
		if p.postAlg != "" {
			q.Set("digest-algorithm", p.postAlg)
		}
		ur.final = e.do("POST", base+"?"+q.Encode(), p.content, ro())
		ur.step = "POST(monolithic)"
		ur.algoSwap = p.postAlg != "" && p.postAlg != p.finalAlg
		return ur
	}
	u := base
	if p.postAlg != "" {
		u += "?digest-algorithm=" + p.postAlg
	}
	r := e.do("POST", u, nil, nil)
	if r.code != 202 {
		ur.final, ur.step = r, "POST"
		return ur
	}
	loc := r.hdr.Get("Location")
	rest := p.content
	off := 0
	if p.proto == 2 {
		bounds := append(append([]int{}, p.cuts...), len(p.content))
		if p.lastInPut && len(bounds) > 0 {
			bounds = bounds[:len(bounds)-1]
		}
		for _, b := range bounds {
			chunk := p.content[off:b]
			o := ro()
			if o == nil {
				o = &reqOpt{}
			}
			if o.hdr == nil {
				o.hdr = map[string]string{}
			}
			o.hdr["Content-Range"] = fmt.Sprintf("%d-%d", off, b-1)
			o.hdr["Content-Type"] = "application/octet-stream"
			r = e.do("PATCH", loc, chunk, o)
			if r.code != 202 {
				ur.final, ur.step = r, fmt.Sprintf("PATCH@%d", off)
				return ur
			}
			if len(chunk) > 0 {
				ur.chunks++
			}
			loc = r.hdr.Get("Location")
			off = b
		}
		rest = p.content[off:]
	}
	sep := "&"
	if !strings.Contains(loc, "?") {
		sep = "?"
	}
	ur.final = e.do("PUT", loc+sep+"digest="+url.QueryEscape(p.declared), rest, ro())
	ur.step = "PUT"
	return ur
}

// ---------------------------------------------------------------- manifests

type manifestPlan struct {
	repo   string
	raw    []byte
	mm     *mman
	ct     string // Content-Type header ("" = none)
	ref    string // tag or digest in the path
	tag    string // "" when pushed by digest
	digest string // digest the content has under alg
	alg    string
	qdig   string // ?digest= value ("" = none)
}

// buildImage assembles an image (or artifact when subject != "") manifest over the given blobs.
func buildImage(mt string, cfgMT string, cfg string, cfgSize int, layers []string, layerSizes []int, subj *mdesc, at string, ann map[string]string) ([]byte, *mman) {
	m := mbody{SchemaVersion: 2, MediaType: mt, ArtifactType: at, Annotations: ann}
	m.Config = &mdesc{MediaType: cfgMT, Digest: cfg, Size: int64(cfgSize)}
	mm := &mman{mt: mt, ann: ann, refs: []string{cfg}}
	for i, l := range layers {
		m.Layers = append(m.Layers, mdesc{MediaType: mtLayer, Digest: l, Size: int64(layerSizes[i])})
		mm.refs = append(mm.refs, l)
	}
	if subj != nil {
		m.Subject = subj
		mm.subject = subj.Digest
		mm.at = at
		if at == "" {
			mm.at = cfgMT
		}
	}
	raw, _ := json.Marshal(m)
	mm.raw = raw
	return raw, mm
}

func buildIndex(mt string, children []mdesc, subj *mdesc, at string, ann map[string]string) ([]byte, *mman) {
	m := mbody{SchemaVersion: 2, MediaType: mt, ArtifactType: at, Annotations: ann}
	mm := &mman{mt: mt, ann: ann, isIndex: true}
	m.Manifests = children
	for _, c := range children {
		mm.refs = append(mm.refs, c.Digest)
		mm.refMT = append(mm.refMT, c.MediaType)
	}
	if subj != nil {
		m.Subject = subj
		mm.subject = subj.Digest
		mm.at = at
	}
	// encode "manifests":[] explicitly for an empty index
	type idx struct {
		SchemaVersion int               `json:"schemaVersion"`
		MediaType     string            `json:"mediaType,omitempty"`
		ArtifactType  string            `json:"artifactType,omitempty"`
		Manifests     []mdesc           `json:"manifests"`
		Subject       *mdesc            `json:"subject,omitempty"`
		Annotations   map[string]string `json:"annotations,omitempty"`
	}
	ch := children
	if ch == nil {
		ch = []mdesc{}
	}
	raw, _ := json.Marshal(idx{2, mt, at, ch, subj, ann})
	mm.raw = raw
	return raw, mm
}

// putManifest sends the PUT; it does not touch the model.
func (e *env) putManifest(p manifestPlan, o *reqOpt) resp {
	u := "/v2/" + p.repo + "/manifests/" + url.PathEscape(p.ref)
	if p.qdig != "" {
		u += "?digest=" + url.QueryEscape(p.qdig)
	}
	if o == nil {
		o = &reqOpt{}
	}
	if o.hdr == nil {
		o.hdr = map[string]string{}
	}
	if p.ct != "" {
		o.hdr["Content-Type"] = p.ct
	}
	return e.do("PUT", u, p.raw, o)
}

// acceptManifest records an acknowledged manifest push in the model.
func (e *env) acceptManifest(p manifestPlan) {
	mr := e.repo(p.repo)
	mr.blobs[p.digest] = p.raw
	mr.mans[p.digest] = p.mm
	mr.everMans[p.digest] = p.mm
	delete(mr.fuzzy, p.digest)
	if p.tag != "" {
		mr.tags[p.tag] = p.digest
	}
	e.universe[p.digest] = true
	// finding 12: a child that is a present manifest leaves the top-level list when its index is accepted;
	// a child that was not a present manifest has unspecified by-digest visibility
	if p.mm.isIndex {
		for _, c := range p.mm.refs {
			if mr.mans[c] == nil || mr.fuzzy[c] {
				delete(mr.fuzzy, c) // re-mark, so that the marks below c are refreshed too
				mr.markFuzzy(c)
			}
		}
	}
}

// modelDeleteDigest removes a manifest and its tags from the model (finding-12 marks included).
func (e *env) modelDeleteDigest(rn, d string) {
	mr := e.repo(rn)
	x := mr.mans[d]
	delete(mr.mans, d)
	for tg, td := range mr.tags {
		if td == d {
			delete(mr.tags, tg)
		}
	}
	if x != nil && x.isIndex {
		for _, c := range x.refs {
			mr.markFuzzy(c)
		}
	}
	for _, o := range mr.mans {
		if o.isIndex {
			for _, c := range o.refs {
				if c == d {
					mr.markFuzzy(d)
				}
			}
		}
	}
	// ... also through a parent that was itself deleted by digest: its blob stays in the store until it is collected,
	// and a reload re-lists it (and with it d) when something above it is still present
	for od, o := range mr.everMans {
		if _, blobThere := mr.blobs[od]; !blobThere || !o.isIndex || mr.mans[od] != nil {
			continue
		}
		for _, c := range o.refs {
			if c == d {
				mr.markFuzzy(d)
			}
		}
	}
}

// allBlobs returns digests of plain (non-manifest) blobs of a repository, sorted.
func (mr *mrepo) plainBlobs() []string {
	out := []string{}
	for d := range mr.blobs {
		if mr.mans[d] == nil {
			out = append(out, d)
		}
	}
	sort.Strings(out)
	return out
}

// manifestBlobs returns digests of present manifests whose blob is still there, sorted.
func (mr *mrepo) manifestBlobs() []string {
	out := []string{}
	for d := range mr.blobs {
		if mr.mans[d] != nil {
			out = append(out, d)
		}
	}
	sort.Strings(out)
	return out
}

// ---------------------------------------------------------------- file level scan (dir store)

// scanBlobFiles checks that every file under <root>/**/blobs/<alg>/<hex> hashes to its name.
// It returns a description of the first offending file, or "".
func scanBlobFiles(root string) string {
	bad := ""
	_ = filepath.Walk(root, func(p string, fi os.FileInfo, err error) error {
		if err != nil || fi.IsDir() || bad != "" {
			return nil
		}
		rel, _ := filepath.Rel(root, p)
		parts := strings.Split(rel, string(filepath.Separator))
		n := len(parts)
		if n >= 3 && parts[n-3] == "blobs" {
			alg, hexv := parts[n-2], parts[n-1]
			b, err := os.ReadFile(p)
			if err != nil {
				return nil
			}
			if !hashesTo(alg+":"+hexv, b) {
				bad = fmt.Sprintf("%s (%d bytes) does not hash to its name", rel, len(b))
			}
		}
		return nil
	})
	return bad
}

func sameBytes(a, b []byte) bool { return bytes.Equal(a, b) }
