package vh

// C13 — concurrent use of one server is free of data races (DESIGN.md §3 C13).
// The programs of engine E6 run on the un-instrumented tree built with -race; the oracle is the Go race detector.
// Its reports are written to files (GORACE log_path) and turned into violations by the driver.

import (
	"fmt"
	"io"
	"log/slog"
	"testing"
	"time"

	"pgregory.net/rapid"

	"github.com/olareg/olareg/config"
)

const c13Rule = "generated concurrent programs (2-6 clients x 1-6 operations: pushes by tag/digest, artifacts, deletes, reads, filtered and paged referrers, monolithic and chunked uploads, abandoned sessions, first writes and reads " +
	"of fresh repositories from several clients, requests from several client addresses) with a 1-5 ms GC ticker, grace period 10-50 ms or 1 h, RepoUploadMax 1-4, rate limiter on/off, debug-level logger on/off, then Close, on both stores, built with -race; " +
	"oracle = Go race detector; non-trivial = >=2 clients touched the same repository concurrently and the program reached >=3 distinct handler kinds; distinct = hash of the program"

var c13Kinds = []string{"putTag", "putDigest", "putArt", "putArt", "delTag", "delDigest", "getTag", "getMan", "getRefs", "getRefsFiltered", "listTags", "upload", "uploadChunked", "uploadChunked", "sessionAbandon",
	"newRepoPush", "newRepoPush", "newRepoRead", "newRepoTags", "collect", "mount", "freshBurst", "freshBurst"}

func c13Property(t *rapid.T, st *Stats) {
	dirStore := rapid.Bool().Draw(t, "dirStore")
	freq := time.Duration(rapid.IntRange(1, 5).Draw(t, "gcFrequencyMs")) * time.Millisecond
	grace := rapid.SampledFrom([]time.Duration{10 * time.Millisecond, 50 * time.Millisecond, time.Hour}).Draw(t, "grace")
	upMax := rapid.IntRange(1, 4).Draw(t, "repoUploadMax")
	rate := rapid.SampledFrom([]int{0, 100000}).Draw(t, "rateLimit")
	debugLog := rapid.Bool().Draw(t, "debugLog")
	prog := genCProgram(t, c13Kinds, 6, 6)
	e, cleanup := newEnv(t, st, dirStore, func(c *config.Config) {
		c.Storage.GC.Frequency = freq
		c.Storage.GC.GracePeriod = grace
		c.Storage.GC.RepoUploadMax = upMax
		c.API.RateLimit = rate
		c.API.Referrer.Limit = 600
		if debugLog {
			// what "--verbosity debug" sets up: every log call formats its arguments
			c.Log = slog.New(slog.NewTextHandler(io.Discard, &slog.HandlerOptions{Level: slog.LevelDebug}))
		}
	})
	defer cleanup()
	u, err := newCUniverse(e.srv, "shared")
	if err != nil {
		t.Skip("setup failed")
	}
	res, finished := runCProgram(e.srv, u, prog, 15*time.Second)
	kinds := map[string]bool{}
	for _, r := range res {
		kinds[r.Op.Kind] = true
	}
	nt := len(prog.Clients) >= 2 && len(kinds) >= 3
	trace := append([]string{fmt.Sprintf("dir=%v gcFrequency=%v grace=%v repoUploadMax=%d rateLimit=%d debugLog=%v", dirStore, freq, grace, upMax, rate, debugLog)}, prog.lines()...)
	cl := []string{}
	for k := range kinds {
		cl = append(cl, "op:"+k)
	}
	st.CaseSample(prog.lines(), trace, nt, cl...)
	if !finished {
		st.Add("program-did-not-finish", 1) // hangs are judged by C12
		// the server is closed by the deferred cleanup: not while requests are still running (that race between Close
		// and handlers is outside the property, which is about requests and background jobs)
		select {
		case <-lastProgramDone:
		case <-time.After(5 * time.Minute):
			t.Skip("clients still running after 5 minutes")
		}
	}
	// let the ticker and expiry timers run against the quiescent store for a moment, then Close (in cleanup)
	time.Sleep(2 * freq)
}

func TestC13(t *testing.T) {
	st := newStats("TestC13", "C13", c13Rule)
	rapid.Check(t, func(t *rapid.T) { c13Property(t, st) })
}
