package vh

// C02 — acknowledged pushes read back byte-identical until deleted or collected (DESIGN.md §3 C02).

import (
	"fmt"
	"strconv"
	"strings"
	"testing"

	"pgregory.net/rapid"

	"github.com/olareg/olareg/config"
)

const c02Rule = "rapid state machine: blob uploads (3 protocols, known/unknown length, 0 bytes .. 40 KiB), manifests padded to limit-1/limit/limit+1/2*limit with and without Content-Length, " +
	"re-pushes, tag moves, deletes (tag, digest, blob), collections under a retain-everything policy, restarts; reads with generated Accept lists and byte ranges; oracle = reference model; " +
	"non-trivial = an acknowledged item read back after >=3 later mutations, or an over-limit manifest push; distinct = hash of the op trace"

var c02Repos = []string{"r1", "r2/n"}
var c02Tags = []string{"t1", "t2", "latest"}

type c02State struct {
	*env
	mutations int
	pushedAt  map[string]int // repo+"|"+digest -> mutation counter at acknowledgement
	limit     int64
}

func (s *c02State) key(rn, d string) string { return rn + "|" + d }

func (s *c02State) noteRead(rn, d string) {
	if at, ok := s.pushedAt[s.key(rn, d)]; ok && s.mutations-at >= 3 {
		s.class("late-readback")
	}
}

func (s *c02State) bad(r resp, what string) {
	if r.panicV != nil {
		s.abandon("panic in " + what)
	}
}

// checkBody verifies one 200 answer against the model bytes.
func (s *c02State) checkFull(what string, r resp, want []byte, d string, mt string, head bool) {
	s.bad(r, what)
	if r.code != 200 {
		s.fail("readback-status", "%s: status %d, want 200 (%s)", what, r.code, trunc(r.body, 200))
	}
	if !head && !sameBytes(r.body, want) {
		s.fail("readback-bytes", "%s: body differs from what was pushed: got %d bytes %q want %d bytes %q", what, len(r.body), trunc(r.body, 80), len(want), trunc(want, 80))
	}
	if cl := r.hdr.Get("Content-Length"); cl != strconv.Itoa(len(want)) {
		s.fail("readback-length", "%s: Content-Length %q, pushed %d bytes", what, cl, len(want))
	}
	if d != "" {
		if h := r.hdr.Get("Docker-Content-Digest"); h != d {
			s.fail("readback-digest-header", "%s: Docker-Content-Digest %q want %s", what, h, d)
		}
	}
	if mt != "" {
		if ct := r.hdr.Get("Content-Type"); ct != mt {
			s.fail("readback-media-type", "%s: Content-Type %q, pushed as %q", what, ct, mt)
		}
	}
}

// checkRange sends one range request and validates the answer against the model bytes.
func (s *c02State) checkRange(what, u string, spec string, want []byte, o *reqOpt) {
	if o == nil {
		o = &reqOpt{hdr: map[string]string{}}
	}
	o.hdr["Range"] = "bytes=" + spec
	r := s.do("GET", u, nil, o)
	s.bad(r, what)
	size := len(want)
	// expected slice for the well-formed shapes
	expS, expE, defined, unsat := 0, 0, false, false
	if a, b, ok := strings.Cut(spec, "-"); ok {
		switch {
		case a == "" && b != "":
			if n, err := strconv.Atoi(b); err == nil && n > 0 && size > 0 {
				if n > size {
					n = size
				}
				expS, expE, defined = size-n, size-1, true
			}
		case a != "" && b == "":
			if st, err := strconv.Atoi(a); err == nil {
				if st < size {
					expS, expE, defined = st, size-1, true
				} else if size > 0 {
					unsat = true
				}
			}
		case a != "" && b != "":
			st, e1 := strconv.Atoi(a)
			en, e2 := strconv.Atoi(b)
			if e1 == nil && e2 == nil && st <= en {
				if st < size {
					if en >= size {
						en = size - 1
					}
					expS, expE, defined = st, en, true
				} else if size > 0 {
					unsat = true
				}
			}
		}
	}
	s.class("range")
	switch {
	case defined:
		if r.code != 206 {
			s.fail("range-status", "%s Range %s over %d bytes: status %d, want 206", what, spec, size, r.code)
		}
		if !sameBytes(r.body, want[expS:expE+1]) {
			s.fail("range-bytes", "%s Range %s: got %q want %q", what, spec, trunc(r.body, 60), trunc(want[expS:expE+1], 60))
		}
		if cr := r.hdr.Get("Content-Range"); cr != fmt.Sprintf("bytes %d-%d/%d", expS, expE, size) {
			s.fail("range-header", "%s Range %s: Content-Range %q want bytes %d-%d/%d", what, spec, cr, expS, expE, size)
		}
		s.class("range-206")
	case unsat:
		if r.code != 416 {
			s.fail("range-unsatisfiable", "%s Range %s over %d bytes: status %d, want 416", what, spec, size, r.code)
		}
		s.class("range-416")
	default:
		// malformed or degenerate: any answer is fine as long as it is self-consistent
		if r.code >= 500 {
			s.fail("range-5xx", "%s Range %s: status %d", what, spec, r.code)
		}
		if r.code == 200 && !sameBytes(r.body, want) {
			s.fail("range-200-bytes", "%s Range %s answered 200 with other bytes", what, spec)
		}
		if r.code == 206 && !strings.HasPrefix(r.hdr.Get("Content-Type"), "multipart/") {
			var a, b, n int
			if _, err := fmt.Sscanf(r.hdr.Get("Content-Range"), "bytes %d-%d/%d", &a, &b, &n); err != nil || n != size || a < 0 || b >= size || a > b+1 || !sameBytes(r.body, want[a:b+1]) {
				s.fail("range-206-inconsistent", "%s Range %s: 206 with Content-Range %q and %d bytes", what, spec, r.hdr.Get("Content-Range"), len(r.body))
			}
		}
	}
}

func drawRange(t *rapid.T, size int) string {
	n := func(label string) int {
		return rapid.SampledFrom([]int{0, 1, size / 2, size - 1, size, size + 1, size + 10}).Draw(t, label)
	}
	switch rapid.IntRange(0, 4).Draw(t, "rangeKind") {
	case 0:
		a := n("a")
		if a < 0 {
			a = 0
		}
		return fmt.Sprintf("%d-", a)
	case 1:
		b := n("n")
		if b < 0 {
			b = 0
		}
		return fmt.Sprintf("-%d", b)
	case 4:
		return rapid.SampledFrom([]string{"", "x-y", "5", "-", "3-1", "0-0,2-3"}).Draw(t, "oddRange")
	default:
		a, b := n("a"), n("b")
		if a < 0 {
			a = 0
		}
		if b < 0 {
			b = 0
		}
		return fmt.Sprintf("%d-%d", a, b)
	}
}

// drawAccept builds an Accept list that contains mt somewhere.
func drawAccept(t *rapid.T, mt string) *reqOpt {
	others := []string{"application/json", "*/*;q=0.1", mtDImage, mtIndex, mtDIndex, mtImage, "text/plain"}
	n := rapid.IntRange(0, 3).Draw(t, "nOther")
	list := []string{}
	for i := 0; i < n; i++ {
		o := rapid.SampledFrom(others).Draw(t, "other")
		list = append(list, o)
	}
	pos := rapid.IntRange(0, len(list)).Draw(t, "pos")
	own := mt
	switch rapid.IntRange(0, 3).Draw(t, "decor") {
	case 1:
		own = mt + ";q=0.9"
	case 2:
		own = strings.ToUpper(mt[:12]) + mt[12:]
	case 3:
		own = " " + mt + " ; charset=utf-8"
	}
	list = append(list[:pos], append([]string{own}, list[pos:]...)...)
	if rapid.Bool().Draw(t, "multiHeader") {
		return &reqOpt{hdr: map[string]string{}, multiHdr: map[string][]string{"Accept": list}}
	}
	return &reqOpt{hdr: map[string]string{"Accept": strings.Join(list, ", ")}}
}

// sweep reads back the touched objects (or everything when all is set) and compares with the model.
func (s *c02State) sweep(all bool, touched map[string]bool) {
	for _, rn := range s.repoPool {
		mr := s.repo(rn)
		for _, d := range sortedKeys(s.universe) {
			if !all && !touched[d] {
				continue
			}
			for _, method := range []string{"GET", "HEAD"} {
				r := s.do(method, "/v2/"+rn+"/blobs/"+d, nil, nil)
				what := fmt.Sprintf("%s /v2/%s/blobs/%s", method, rn, short(d))
				if b, ok := mr.blobs[d]; ok {
					s.checkFull(what, r, b, d, "", method == "HEAD")
					s.noteRead(rn, d)
				} else {
					s.bad(r, what)
					if r.code == 200 {
						// not claimed by C02 (isolation/resurrection is C16/C05), but the model is out of step
						s.abandon("blob served that the model does not hold")
					}
				}
				if mr.fuzzy[d] {
					continue
				}
				r = s.do(method, "/v2/"+rn+"/manifests/"+d, nil, hdr("Accept", acceptAll))
				what = fmt.Sprintf("%s /v2/%s/manifests/%s", method, rn, short(d))
				if m, ok := mr.mans[d]; ok {
					if _, blobThere := mr.blobs[d]; blobThere {
						s.checkFull(what, r, m.raw, d, m.mt, method == "HEAD")
						s.noteRead(rn, d)
					}
				} else {
					s.bad(r, what)
					if r.code == 200 {
						s.abandon("manifest served that the model does not hold")
					}
				}
			}
		}
		for _, tg := range c02Tags {
			d, ok := mr.tags[tg]
			for _, method := range []string{"GET", "HEAD"} {
				r := s.do(method, "/v2/"+rn+"/manifests/"+tg, nil, hdr("Accept", acceptAll))
				what := fmt.Sprintf("%s /v2/%s/manifests/%s", method, rn, tg)
				if ok {
					m := mr.mans[d]
					if _, blobThere := mr.blobs[d]; blobThere && m != nil {
						s.checkFull(what, r, m.raw, d, m.mt, method == "HEAD")
						s.noteRead(rn, d)
					}
				} else {
					s.bad(r, what)
					if r.code == 200 {
						s.abandon("tag served that the model does not hold")
					}
				}
			}
		}
	}
}

func c02Property(t *rapid.T, st *Stats) {
	dirStore := rapid.Bool().Draw(t, "dirStore")
	limit := int64(rapid.SampledFrom([]int{300, 512, 1000, 2000}).Draw(t, "manifestLimit"))
	e, cleanup := newEnv(t, st, dirStore, func(c *config.Config) { c.API.Manifest.Limit = limit })
	defer cleanup()
	e.repoPool = c02Repos
	s := &c02State{env: e, pushedAt: map[string]int{}, limit: limit}
	defer func() {
		if e.abandoned {
			return
		}
		nt := e.classes["late-readback"] || e.classes["over-limit"]
		st.Case(e.trace, nt, e.classList()...)
	}()
	if dirStore {
		e.class("dir")
	} else {
		e.class("mem")
	}
	touched := map[string]bool{}
	ack := func(rn, d string) {
		s.pushedAt[s.key(rn, d)] = s.mutations
		e.universe[d] = true
		touched[d] = true
	}
	t.Repeat(e.actions(map[string]func(*rapid.T){
		"pushBlob": func(t *rapid.T) {
			rn := rapid.SampledFrom(c02Repos).Draw(t, "repo")
			p := drawUploadPlan(t, rn, drawContent(t), false)
			s.mutations++
			ur := e.runUpload(p)
			e.logf("pushBlob %s %s len=%d proto=%d unknownCL=%v cuts=%v -> %d", rn, short(p.declared), len(p.content), p.proto, p.unknownCL, p.cuts, ur.final.code)
			s.bad(ur.final, "upload")
			if p.unknownCL {
				e.class("unknown-length")
			}
			if len(p.content) == 0 {
				e.class("empty-blob")
			}
			if ur.final.code != 201 {
				// C02 starts at the acknowledgement; a refused valid upload is C08's business
				e.abandon(fmt.Sprintf("valid upload answered %d at %s", ur.final.code, ur.step))
			}
			if _, had := e.repo(rn).blobs[p.declared]; had {
				e.class("re-push")
			}
			e.repo(rn).blobs[p.declared] = p.content
			ack(rn, p.declared)
		},
		"pushManifest": func(t *rapid.T) {
			rn := rapid.SampledFrom(c02Repos).Draw(t, "repo")
			mr := e.repo(rn)
			var raw []byte
			var mm *mman
			otherType := false
			docker := rapid.IntRange(0, 3).Draw(t, "docker") == 0
			if rapid.IntRange(0, 3).Draw(t, "index") == 0 {
				mt := mtIndex
				if docker {
					mt = mtDIndex
				}
				kids := []mdesc{}
				mans := sortedKeys(mr.mans)
				if len(mans) > 0 {
					n := rapid.IntRange(0, 2).Draw(t, "nChildren")
					for i := 0; i < n; i++ {
						c := rapid.SampledFrom(mans).Draw(t, "child")
						if _, ok := mr.blobs[c]; ok {
							k := mdesc{MediaType: mr.mans[c].mt, Digest: c, Size: int64(len(mr.mans[c].raw))}
							// what an index says about a manifest that was pushed and acknowledged earlier must not change how that
							// manifest reads back: descriptors with another size or media type are accepted by the registry
							switch rapid.SampledFrom([]string{"exact", "exact", "exact", "size", "type"}).Draw(t, "childDescriptor") {
							case "size":
								k.Size += 7
								e.class("child-listed-with-other-size")
							case "type":
								k.MediaType = map[string]string{mtImage: mtDImage, mtDImage: mtImage, mtIndex: mtDIndex, mtDIndex: mtIndex}[k.MediaType]
								e.class("child-listed-with-other-type")
								otherType = true
							}
							kids = append(kids, k)
						}
					}
				}
				raw, mm = buildIndex(mt, kids, nil, "", map[string]string{"n": fmt.Sprint(rapid.IntRange(0, 2).Draw(t, "salt"))})
				e.class("index")
			} else {
				blobs := mr.plainBlobs()
				if len(blobs) == 0 {
					t.Skip("no blobs")
				}
				mt, cmt := mtImage, mtConfig
				if docker {
					mt, cmt = mtDImage, mtDConfig
				}
				cfg := rapid.SampledFrom(blobs).Draw(t, "config")
				layers, sizes := []string{}, []int{}
				for i, n := 0, rapid.IntRange(0, 2).Draw(t, "nLayers"); i < n; i++ {
					l := rapid.SampledFrom(blobs).Draw(t, "layer")
					layers = append(layers, l)
					sizes = append(sizes, len(mr.blobs[l]))
				}
				raw, mm = buildImage(mt, cmt, cfg, len(mr.blobs[cfg]), layers, sizes, nil, "", map[string]string{"n": fmt.Sprint(rapid.IntRange(0, 2).Draw(t, "salt"))})
			}
			// pad with trailing whitespace (stays valid JSON when cut) to a size around the limit
			target := rapid.SampledFrom([]int{0, 0, int(limit) - 1, int(limit), int(limit) + 1, 2 * int(limit)}).Draw(t, "padTo")
			if target > len(raw) {
				raw = append(raw, []byte(strings.Repeat(" ", target-len(raw)))...)
				mm.raw = raw
			}
			over := int64(len(raw)) > limit
			unknownCL := rapid.Bool().Draw(t, "unknownCL")
			p := manifestPlan{repo: rn, raw: raw, mm: mm, ct: mm.mt, alg: "sha256", digest: dig("sha256", raw)}
			if rapid.Bool().Draw(t, "byTag") {
				p.tag = rapid.SampledFrom(c02Tags).Draw(t, "tag")
				p.ref = p.tag
			} else {
				p.ref = p.digest
			}
			s.mutations++
			r := e.putManifest(p, &reqOpt{unknownCL: unknownCL})
			e.logf("pushManifest %s ref=%s %s len=%d limit=%d unknownCL=%v type=%s -> %d", rn, p.ref[:min(len(p.ref), 15)], short(p.digest), len(raw), limit, unknownCL, mm.mt, r.code)
			s.bad(r, "manifest PUT")
			if unknownCL {
				e.class("unknown-length")
			}
			if over {
				e.class("over-limit")
				if r.code < 400 || r.code >= 500 {
					s.fail("over-limit-not-refused", "manifest of %d bytes (limit %d, unknownCL=%v) answered %d", len(raw), limit, unknownCL, r.code)
				}
				// neither the body nor any cut of it may be retrievable
				cut := raw[:limit]
				for _, d := range []string{p.digest, dig("sha256", cut)} {
					if _, ok := mr.blobs[d]; ok {
						continue
					}
					for _, kind := range []string{"manifests", "blobs"} {
						g := e.do("GET", "/v2/"+rn+"/"+kind+"/"+d, nil, hdr("Accept", acceptAll))
						if g.code == 200 {
							s.fail("over-limit-stored", "after the refused %d-byte manifest, %s/%s is served (%d bytes)", len(raw), kind, short(d), len(g.body))
						}
					}
				}
				if p.tag != "" {
					g := e.do("GET", "/v2/"+rn+"/manifests/"+p.tag, nil, hdr("Accept", acceptAll))
					want, had := mr.tags[p.tag]
					if g.code == 200 && (!had || g.hdr.Get("Docker-Content-Digest") != want) {
						s.fail("over-limit-tagged", "after the refused over-limit manifest tag %s resolves to %s (%d bytes)", p.tag, g.hdr.Get("Docker-Content-Digest"), len(g.body))
					}
				}
				return
			}
			if int64(len(raw)) >= limit-1 {
				e.class("at-limit")
			}
			if otherType && r.code >= 400 && r.code < 500 {
				// whether such an index is acceptable is C04's question; refused, it must have changed nothing (the sweep compares)
				e.class("index-contradicting-child-type-refused")
				return
			}
			if r.code != 201 {
				e.abandon(fmt.Sprintf("valid manifest answered %d: %s", r.code, trunc(r.body, 120)))
			}
			if h := r.hdr.Get("Docker-Content-Digest"); h != p.digest {
				s.fail("put-digest-header", "manifest PUT acknowledged digest %q, body hashes to %s", h, p.digest)
			}
			if _, had := mr.mans[p.digest]; had {
				e.class("re-push")
			}
			if p.tag != "" {
				if old, ok := mr.tags[p.tag]; ok && old != p.digest {
					e.class("tag-move")
				}
			}
			e.acceptManifest(p)
			ack(rn, p.digest)
		},
		"delete": func(t *rapid.T) {
			rn := rapid.SampledFrom(c02Repos).Draw(t, "repo")
			mr := e.repo(rn)
			switch rapid.IntRange(0, 2).Draw(t, "what") {
			case 0:
				tg := rapid.SampledFrom(c02Tags).Draw(t, "tag")
				s.mutations++
				r := e.do("DELETE", "/v2/"+rn+"/manifests/"+tg, nil, nil)
				e.logf("deleteTag %s %s -> %d", rn, tg, r.code)
				s.bad(r, "delete tag")
				if _, ok := mr.tags[tg]; ok {
					if r.code != 202 {
						e.abandon("tag delete refused")
					}
					delete(mr.tags, tg)
					e.class("delete")
				}
			case 1:
				mans := sortedKeys(mr.mans)
				if len(mans) == 0 {
					t.Skip("no manifests")
				}
				d := rapid.SampledFrom(mans).Draw(t, "digest")
				s.mutations++
				r := e.do("DELETE", "/v2/"+rn+"/manifests/"+d, nil, nil)
				e.logf("deleteManifest %s %s -> %d", rn, short(d), r.code)
				s.bad(r, "delete manifest")
				if r.code != 202 && !(mr.fuzzy[d] && r.code == 404) {
					e.abandon("manifest delete refused")
				}
				e.modelDeleteDigest(rn, d)
				touched[d] = true
				e.class("delete")
			case 2:
				blobs := mr.plainBlobs()
				if len(blobs) == 0 {
					t.Skip("no blobs")
				}
				d := rapid.SampledFrom(blobs).Draw(t, "digest")
				s.mutations++
				r := e.do("DELETE", "/v2/"+rn+"/blobs/"+d, nil, nil)
				e.logf("deleteBlob %s %s -> %d", rn, short(d), r.code)
				s.bad(r, "delete blob")
				if r.code != 202 {
					e.abandon("blob delete refused")
				}
				delete(mr.blobs, d)
				delete(s.pushedAt, s.key(rn, d))
				touched[d] = true
				e.class("delete")
			}
		},
		"restart": func(t *rapid.T) {
			if !e.isDir() {
				t.Skip("mem store")
			}
			e.logf("restart")
			e.restart()
			e.class("restart")
			s.mutations++
			for d := range e.universe {
				touched[d] = true
			}
		},
		"collect": func(t *rapid.T) {
			rn := rapid.SampledFrom(c02Repos).Draw(t, "repo")
			e.logf("collect %s (policy retains everything)", rn)
			_ = e.srv.VerifGC(rn)
			e.class("collect")
			s.mutations++
			for d := range e.universe {
				touched[d] = true
			}
		},
		"read": func(t *rapid.T) {
			rn := rapid.SampledFrom(c02Repos).Draw(t, "repo")
			mr := e.repo(rn)
			if len(mr.blobs) == 0 {
				t.Skip("empty")
			}
			d := rapid.SampledFrom(sortedKeys(mr.blobs)).Draw(t, "digest")
			b := mr.blobs[d]
			if m, ok := mr.mans[d]; ok && !mr.fuzzy[d] {
				u := "/v2/" + rn + "/manifests/" + d
				for tg, td := range mr.tags {
					if td == d && rapid.Bool().Draw(t, "viaTag") {
						u = "/v2/" + rn + "/manifests/" + tg
						break
					}
				}
				o := drawAccept(t, m.mt)
				method := rapid.SampledFrom([]string{"GET", "HEAD"}).Draw(t, "method")
				e.logf("read %s %s accept=%v%v", method, u[:min(len(u), 40)], o.hdr["Accept"], o.multiHdr["Accept"])
				e.class("accept-list")
				r := e.do(method, u, nil, o)
				s.checkFull(method+" "+u, r, m.raw, d, m.mt, method == "HEAD")
				s.noteRead(rn, d)
				if rapid.Bool().Draw(t, "range") {
					spec := drawRange(t, len(m.raw))
					e.logf("  range %s", spec)
					s.checkRange("GET "+u, u, spec, m.raw, drawAccept(t, m.mt))
				}
				return
			}
			u := "/v2/" + rn + "/blobs/" + d
			spec := drawRange(t, len(b))
			e.logf("read GET %s range %s", u[:min(len(u), 40)], spec)
			s.checkRange("GET "+u, u, spec, b, nil)
			s.noteRead(rn, d)
		},
		"": func(*rapid.T) {
			if len(touched) > 0 {
				s.sweep(false, touched)
				touched = map[string]bool{}
			}
		},
	}))
	if e.abandoned {
		return
	}
	e.guard(func() { s.sweep(true, nil) })
}

func TestC02(t *testing.T) {
	st := newStats("TestC02", "C02", c02Rule)
	rapid.Check(t, func(t *rapid.T) { c02Property(t, st) })
}
