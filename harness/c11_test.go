package vh

// C11 — concurrent requests on a repository never lose or tear updates (DESIGN.md §3 C11).

import (
	"fmt"
	"os"
	"sort"
	"strings"
	"testing"
	"time"

	"github.com/anishathalye/porcupine"
	"pgregory.net/rapid"

	"github.com/olareg/olareg/config"
)

const c11Rule = "generated concurrent programs: 2-5 clients x 1-5 operations on one repository (manifest PUT by tag with the same tags and different digests, PUT by digest, artifacts to the same two subjects by digest or tag, " +
	"DELETE tag/digest, tag list, by-tag HEAD, referrers GET, blob uploads) released together on real goroutines, optional background collections (grace 1 h), both stores; " +
	"oracle A = quiescent invariants (acknowledged, never-deleted manifests present and listed under their subject; tags resolve to a pushed digest; listing = resolvable tags; no 5xx), " +
	"oracle B = porcupine linearizability check of the recorded history against the sequential tag/manifest/referrers model; " +
	"non-trivial = >=2 operations of different clients overlapped in time on the same tag or subject (measured); distinct = hash of the program"

var c11Kinds = []string{"putTag", "putTag", "putDigest", "putArt", "putArt", "putArt", "delTag", "delDigest", "getTag", "getRefs", "getRefs", "listTags", "upload", "freshPut", "freshPut"}

// ---- sequential model for porcupine

type c11State struct {
	tags map[string]string
	mans map[string]bool
	refs map[string]bool // only used by the split model: artifacts whose referrers entry has been added
}

func (s c11State) clone() c11State {
	n := c11State{tags: map[string]string{}, mans: map[string]bool{}, refs: map[string]bool{}}
	for k, v := range s.tags {
		n.tags[k] = v
	}
	for k := range s.mans {
		n.mans[k] = true
	}
	for k := range s.refs {
		n.refs[k] = true
	}
	return n
}

func (s c11State) key() string {
	p := []string{}
	for k, v := range s.tags {
		p = append(p, "t:"+k+"="+v)
	}
	for k := range s.mans {
		p = append(p, "m:"+k)
	}
	for k := range s.refs {
		p = append(p, "r:"+k)
	}
	sort.Strings(p)
	return strings.Join(p, ";")
}

type c11In struct {
	op cOp
	u  *cUniverse
}

type c11Out struct {
	code int
	out  string
}

// c11Model is the sequential specification. split = the weakened model used while finding C11/artifact-put-not-atomic is
// open: an artifact PUT takes effect in two atomic steps somewhere inside its call interval (entry+tag, then referrers).
func c11Model(split bool) porcupine.Model {
	return porcupine.Model{
		Init: func() interface{} { return c11State{tags: map[string]string{}, mans: map[string]bool{}, refs: map[string]bool{}} },
		Step: func(state, input, output interface{}) (bool, interface{}) {
			s := state.(c11State)
			in := input.(c11In)
			out := output.(c11Out)
			u := in.u
			switch in.op.Kind {
			case "putArt.refadd":
				n := s.clone()
				n.refs[u.digests[in.op.Man]] = true
				return true, n
			case "putTag", "putDigest", "putArt":
				if out.code != 201 {
					return false, s
				}
				n := s.clone()
				d := u.digests[in.op.Man]
				n.mans[d] = true
				if in.op.Tag != "" {
					n.tags[in.op.Tag] = d
				}
				if !split && u.subjectOf(in.op.Man) >= 0 {
					n.refs[d] = true
				}
				return true, n
			case "delTag":
				if _, ok := s.tags[in.op.Tag]; ok {
					if out.code != 202 {
						return false, s
					}
					n := s.clone()
					delete(n.tags, in.op.Tag)
					return true, n
				}
				// deleting what is already gone: 404, or 202 when two deletes raced past the same check - nothing is
				// lost or torn by that, so both are accepted
				return out.code == 404 || out.code == 202, s
			case "delDigest":
				d := u.digests[in.op.Man]
				if s.mans[d] {
					if out.code != 202 {
						return false, s
					}
					n := s.clone()
					delete(n.mans, d)
					delete(n.refs, d)
					for tg, td := range n.tags {
						if td == d {
							delete(n.tags, tg)
						}
					}
					return true, n
				}
				return out.code == 404 || out.code == 202, s
			case "getTag":
				if d, ok := s.tags[in.op.Tag]; ok {
					return out.code == 200 && out.out == d, s
				}
				return out.code == 404, s
			case "getMan":
				if s.mans[u.digests[in.op.Man]] {
					return out.code == 200, s
				}
				return out.code == 404, s
			case "getRefs":
				want := []string{}
				for i := nCMans; i < nCMans+nCArts; i++ {
					if u.subjectOf(i) == in.op.Subj && s.refs[u.digests[i]] && (split || s.mans[u.digests[i]]) {
						want = append(want, u.digests[i])
					}
				}
				sort.Strings(want)
				return out.code == 200 && out.out == strings.Join(want, ","), s
			case "listTags":
				want := []string{}
				for tg := range s.tags {
					want = append(want, tg)
				}
				sort.Strings(want)
				return out.code == 200 && out.out == strings.Join(want, ","), s
			}
			return true, s // uploads and collections do not touch the modelled state
		},
		Equal: func(a, b interface{}) bool { return a.(c11State).key() == b.(c11State).key() },
		DescribeOperation: func(input, output interface{}) string {
			return fmt.Sprintf("%s -> %d %s", input.(c11In).op, output.(c11Out).code, output.(c11Out).out)
		},
	}
}

func c11Property(t *rapid.T, st *Stats) {
	dirStore := rapid.Bool().Draw(t, "dirStore")
	bgCollect := rapid.IntRange(0, 3).Draw(t, "backgroundCollect") == 0
	prog := genCProgram(t, c11Kinds, 5, 5)
	e, cleanup := newEnv(t, st, dirStore, func(c *config.Config) {})
	defer cleanup()
	u, err := newCUniverse(e.srv, "shared")
	if err != nil {
		t.Skip("setup failed")
	}
	if _, err := newCUniverse(e.srv, "bystander"); err != nil {
		t.Skip("setup failed")
	}
	// sequential prologue (part of the history): subjects exist or not, a pre-existing tag or not
	pre := []cResult{}
	prologue := func(o cOp) {
		code, out, _ := u.execOp(e.srv, o)
		ts := int64(-100 + 10*len(pre))
		pre = append(pre, cResult{Client: 0, Op: o, Call: ts, Ret: ts + 1, Code: code, Out: out})
	}
	if rapid.Bool().Draw(t, "subjectsPushed") {
		for i := 0; i < 2; i++ {
			prologue(cOp{Kind: "putDigest", Man: i})
		}
	}
	if rapid.Bool().Draw(t, "preTag") {
		prologue(cOp{Kind: "putTag", Tag: "t1", Man: 2})
	}
	trace := append([]string{fmt.Sprintf("dir=%v backgroundCollect=%v", dirStore, bgCollect)}, prog.lines()...)
	stop := make(chan struct{})
	bgDone := make(chan struct{})
	go func() {
		defer close(bgDone)
		if !bgCollect {
			return
		}
		for {
			select {
			case <-stop:
				return
			default:
				_ = e.srv.VerifGC("shared")
				time.Sleep(200 * time.Microsecond)
			}
		}
	}()
	res, finished := runCProgram(e.srv, u, prog, 60*time.Second)
	close(stop)
	<-bgDone
	hist := append(historyLines(pre), historyLines(res)...)
	full := append(append([]string{}, trace...), hist...)
	fail := func(key, f string, a ...any) { Fail(t, st, key, fmt.Sprintf(f, a...), full, nil) }
	nontrivial := overlapping(u, res)
	classes := []string{}
	if dirStore {
		classes = append(classes, "dir")
	} else {
		classes = append(classes, "mem")
	}
	if bgCollect {
		classes = append(classes, "background-collect")
	}
	if nontrivial {
		classes = append(classes, "overlap-on-same-tag-or-subject")
	}
	defer func() { st.CaseSample(prog.lines(), full, nontrivial, classes...) }()
	if !finished {
		t.Skip("program did not finish in time (C12 decides hangs)")
	}
	// ---- oracle A: quiescent invariants
	deletedDigest, deletedTag, putUnder := map[int]bool{}, map[string]bool{}, map[string]map[string]bool{}
	acked := map[int]bool{}
	all := append(append([]cResult{}, pre...), res...)
	for _, r := range all {
		if r.Panic != "" {
			fail("panic", "handler panicked: %s", r.Panic)
		}
		if r.Code >= 500 {
			fail("5xx", "%s answered %d", r.Op, r.Code)
		}
		switch r.Op.Kind {
		case "delDigest":
			deletedDigest[r.Op.Man] = true
		case "delTag":
			deletedTag[r.Op.Tag] = true
		case "putTag", "putDigest", "putArt":
			if r.Code == 201 {
				acked[r.Op.Man] = true
				if r.Op.Tag != "" {
					if putUnder[r.Op.Tag] == nil {
						putUnder[r.Op.Tag] = map[string]bool{}
					}
					putUnder[r.Op.Tag][u.digests[r.Op.Man]] = true
				}
			} else {
				fail("valid-push-refused", "%s answered %d", r.Op, r.Code)
			}
		}
	}
	for i := range acked {
		if deletedDigest[i] {
			continue
		}
		if code, _, _ := u.execOp(e.srv, cOp{Kind: "getMan", Man: i}); code != 200 {
			fail("acknowledged-manifest-lost", "#%d (%s) was acknowledged with 201 and never deleted, yet GET by digest answers %d at quiescence", i, short(u.digests[i]), code)
		}
		if s := u.subjectOf(i); s >= 0 {
			_, out, _ := u.execOp(e.srv, cOp{Kind: "getRefs", Subj: s})
			if !strings.Contains(out, u.digests[i]) {
				fail("acknowledged-referrer-lost", "artifact #%d (%s) was acknowledged with 201 and never deleted, yet the referrers of S%d do not list it at quiescence: [%s]", i, short(u.digests[i]), s, out)
			}
		}
	}
	// what the referrers API lists must exist: no sequential order ends with a manifest gone and still listed
	for s := range u.subj {
		_, out, _ := u.execOp(e.srv, cOp{Kind: "getRefs", Subj: s})
		for _, d := range strings.Split(out, ",") {
			if d == "" {
				continue
			}
			if r := doReq(e.srv, "HEAD", "/v2/"+u.repo+"/manifests/"+d, nil, hdr("Accept", acceptAll)); r.code != 200 {
				fail("listed-referrer-gone", "at quiescence the referrers of S%d list %s, but HEAD of that manifest answers %d", s, short(d), r.code)
			}
		}
	}
	// first pushes to fresh repositories: every acknowledged tag resolves to something pushed under it, every acknowledged manifest is there
	freshUnder := map[string]map[string]bool{}
	for _, r := range res {
		if r.Op.Kind == "freshPut" {
			if r.Code != 201 {
				fail("valid-push-refused", "%s answered %d", r.Op, r.Code)
			}
			k := fmt.Sprintf("fresh%d %s", r.Op.N, r.Op.Tag)
			if freshUnder[k] == nil {
				freshUnder[k] = map[string]bool{}
			}
			freshUnder[k][r.Out] = true
			if g := doReq(e.srv, "HEAD", fmt.Sprintf("/v2/fresh%d/manifests/%s", r.Op.N, r.Out), nil, hdr("Accept", acceptAll)); g.code != 200 {
				fail("acknowledged-manifest-lost", "%s was acknowledged with 201, yet HEAD %s answers %d at quiescence", r.Op, short(r.Out), g.code)
			}
		}
	}
	for k, ds := range freshUnder {
		var rn, tg string
		fmt.Sscanf(k, "%s %s", &rn, &tg)
		g := doReq(e.srv, "HEAD", "/v2/"+rn+"/manifests/"+tg, nil, hdr("Accept", acceptAll))
		if g.code != 200 || !ds[g.hdr.Get("Docker-Content-Digest")] {
			fail("tag-lost", "tag %s of %s was pushed by %d client operations and never deleted, yet it answers %d %s", tg, rn, len(ds), g.code, short(g.hdr.Get("Docker-Content-Digest")))
		}
		l := doReq(e.srv, "GET", "/v2/"+rn+"/tags/list", nil, nil)
		if !strings.Contains(string(l.body), `"`+tg+`"`) {
			fail("listing-vs-resolution", "tag %s of %s is not in the tag listing: %s", tg, rn, trunc(l.body, 200))
		}
	}
	_, listed, _ := u.execOp(e.srv, cOp{Kind: "listTags"})
	for _, tg := range cTags {
		code, d, _ := u.execOp(e.srv, cOp{Kind: "getTag", Tag: tg})
		if code == 200 && !putUnder[tg][d] {
			fail("tag-resolves-to-unpushed", "tag %s resolves to %s, which no client pushed under it", tg, short(d))
		}
		anyDel := deletedTag[tg]
		for i := range deletedDigest {
			if putUnder[tg][u.digests[i]] {
				anyDel = true
			}
		}
		if len(putUnder[tg]) > 0 && !anyDel && code != 200 {
			fail("tag-lost", "tag %s was pushed by %d client operations and never deleted, yet it answers %d", tg, len(putUnder[tg]), code)
		}
		inList := false
		for _, l := range strings.Split(listed, ",") {
			if l == tg {
				inList = true
			}
		}
		if inList != (code == 200) {
			fail("listing-vs-resolution", "tag %s: listed=%v but HEAD answers %d", tg, inList, code)
		}
	}
	// ---- oracle B: linearizability
	split := avoid("C11/artifact-put-not-atomic")
	ops := []porcupine.Operation{}
	for _, r := range all {
		if r.Op.Kind == "upload" || r.Op.Kind == "uploadChunked" || r.Op.Kind == "freshPut" {
			continue // other repositories / not part of the modelled state
		}
		ops = append(ops, porcupine.Operation{ClientId: r.Client, Input: c11In{r.Op, u}, Call: r.Call, Output: c11Out{r.Code, r.Out}, Return: r.Ret})
		if split && r.Op.Kind == "putArt" && r.Code == 201 {
			// second half of the push: somewhere inside the same interval (a different client id keeps porcupine's
			// per-client ordering from serialising it before the first half; the state makes the order irrelevant)
			o2 := r.Op
			o2.Kind = "putArt.refadd"
			ops = append(ops, porcupine.Operation{ClientId: 100 + len(ops), Input: c11In{o2, u}, Call: r.Call, Output: c11Out{0, ""}, Return: r.Ret})
			st.Exclude("C11/artifact-put-not-atomic")
		}
	}
	if len(ops) <= 30 {
		res := porcupine.CheckOperationsTimeout(c11Model(split), ops, 20*time.Second)
		if res == porcupine.Illegal {
			key := "not-linearizable"
			if !split && c11OnlyArtifactSplit(ops) {
				key = "artifact-put-not-atomic"
			}
			fail(key, "no sequential order of these %d operations that respects their real-time order explains the results", len(ops))
		}
		if res == porcupine.Unknown {
			st.Add("linearizability-check-timeout", 1)
		}
	}
}

// c11OnlyArtifactSplit: the history is explained once artifact pushes may take effect in two steps.
func c11OnlyArtifactSplit(strict []porcupine.Operation) bool {
	ops := []porcupine.Operation{}
	for _, o := range strict {
		ops = append(ops, o)
		in := o.Input.(c11In)
		if in.op.Kind == "putArt" && o.Output.(c11Out).code == 201 {
			o2 := in.op
			o2.Kind = "putArt.refadd"
			ops = append(ops, porcupine.Operation{ClientId: 100 + len(ops), Input: c11In{o2, in.u}, Call: o.Call, Output: c11Out{0, ""}, Return: o.Return})
		}
	}
	return porcupine.CheckOperationsTimeout(c11Model(true), ops, 20*time.Second) == porcupine.Ok
}

// TestKF_C11_ArtifactPutNotAtomic reproduces the open finding: while an artifact PUT by tag is in flight a reader can see
// the new tag and, afterwards, a referrers list that lacks the artifact. Probabilistic: it hammers for a bounded time.
func TestKF_C11_ArtifactPutNotAtomic(t *testing.T) {
	st := newStats("TestKF_C11_ArtifactPutNotAtomic", "C11", "reproducer")
	deadline := time.Now().Add(8 * time.Second)
	for round := 0; time.Now().Before(deadline); round++ {
		root := mkTemp("kf11")
		srv := newServerForKF(root)
		u, err := newCUniverse(srv, "shared")
		if err != nil {
			t.Fatalf("setup: %v", err)
		}
		seen := make(chan string, 1)
		stop := make(chan struct{})
		go func() {
			for {
				select {
				case <-stop:
					return
				default:
				}
				code, d, _ := u.execOp(srv, cOp{Kind: "getTag", Tag: "t1"})
				if code == 200 && d == u.digests[nCMans] {
					_, out, _ := u.execOp(srv, cOp{Kind: "getRefs", Subj: 0})
					if !strings.Contains(out, d) {
						select {
						case seen <- out:
						default:
						}
					}
					return
				}
			}
		}()
		_, _, _ = u.execOp(srv, cOp{Kind: "putArt", Man: nCMans, Tag: "t1"})
		close(stop)
		time.Sleep(time.Millisecond)
		_ = srv.Close()
		_ = os.RemoveAll(root)
		select {
		case out := <-seen:
			Fail(kfT{t}, st, "artifact-put-not-atomic", fmt.Sprintf("round %d: a reader saw tag t1 resolve to the artifact and then a referrers list of its subject without it: [%s]", round, out),
				[]string{"client A: PUT artifact (subject S0) by tag t1", "client B: HEAD manifests/t1 -> artifact digest", "client B: GET referrers/S0 -> artifact not listed (A's request still in flight)"}, nil)
		default:
		}
	}
}

func TestC11(t *testing.T) {
	st := newStats("TestC11", "C11", c11Rule)
	rapid.Check(t, func(t *rapid.T) { c11Property(t, st) })
}
