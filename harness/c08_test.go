//go:build verifbubble

package vh

// C08 — upload sessions are strictly sequential, isolated and leave no residue (DESIGN.md §3 C08).
// Runs inside a synctest bubble so that eviction (go pruneCount) and expiry (cache timer) are deterministic.

import (
	"encoding/base64"
	"fmt"
	"net/url"
	"os"
	"path"
	"path/filepath"
	"strings"
	"testing"
	"testing/synctest"
	"time"

	"pgregory.net/rapid"

	"github.com/olareg/olareg/config"
)

const c08Rule = "rapid state machine inside a virtual-time bubble: POST/PATCH/GET/PUT/DELETE on up to 6 sessions in 2 repositories with correct/stale/future/malformed Content-Range and state tokens, " +
	"empty chunks, right/wrong digests, mount-fallback sessions, foreign-repository use, use after end, bursts beyond RepoUploadMax in {-1,1,2,3,5}, sleeps around the grace period {-1, 1 min}; " +
	"oracle = session model (bytes accepted so far) + liveness rules + residue scan; non-trivial = (a refused out-of-order chunk followed by a successful completion of the same session) or >=1 eviction/expiry; distinct = hash of the op trace"

var c08Repos = []string{"r1", "r2/n"}

type c08Sess struct {
	id        string
	repo      string
	path      string   // /v2/<repo>/blobs/uploads/<id>
	states    []string // state tokens handed out so far (last = current)
	buf       []byte
	expect    string // digest the session was created for (mount fallback)
	dead      bool
	lastUse   time.Time
	evictable bool // the bound was exceeded while it was open
	refused   bool // an out-of-order chunk has been refused on it
	partials  []string
}

type c08State struct {
	*env
	max      int
	grace    time.Duration
	sess     []*c08Sess
	partials map[string]bool
}


func (s *c08State) live(rn string) []*c08Sess {
	out := []*c08Sess{}
	for _, x := range s.sess {
		if !x.dead && (rn == "" || x.repo == rn) {
			out = append(out, x)
		}
	}
	return out
}

func (s *c08State) bad(r resp, what string) {
	if r.panicV != nil {
		s.fail("panic", "%s panicked: %v", what, r.panicV)
	}
}

// unknown handles "session unknown" answers: legitimate only after eviction or expiry.
func (s *c08State) unknown(x *c08Sess, what string, r resp) bool {
	if r.code < 400 || r.code >= 500 || !strings.Contains(string(r.body), "BLOB_UPLOAD_UNKNOWN") {
		return false
	}
	idle := time.Since(x.lastUse)
	switch {
	case x.evictable:
		s.class("eviction-observed")
	case s.grace > 0 && idle >= s.grace:
		s.class("expiry-observed")
	default:
		s.fail("session-lost", "%s: session %s of %s reported unknown although it was neither evicted (bound %d never exceeded while open) nor idle longer than the grace period (idle %v, grace %v)", what, x.id[:6], x.repo, s.max, idle, s.grace)
	}
	x.dead = true
	return true
}

// status checks that the session still reports exactly the bytes the model holds.
func (s *c08State) status(x *c08Sess, after string) {
	r := s.do("GET", x.path, nil, nil)
	s.bad(r, "status GET")
	if s.unknown(x, "status GET after "+after, r) {
		return
	}
	want := fmt.Sprintf("0-%d", len(x.buf)-1)
	if r.code != 204 || r.hdr.Get("Range") != want {
		s.fail("status-mismatch", "after %s: status of session %s is %d Range=%q, model holds %d bytes (want 204, %s)", after, x.id[:6], r.code, r.hdr.Get("Range"), len(x.buf), want)
	}
	x.lastUse = time.Now()
	if loc := r.hdr.Get("Location"); loc != "" {
		if u, err := url.Parse(loc); err == nil {
			x.states = append(x.states, u.Query().Get("state"))
		}
	}
}

func (s *c08State) quiesce(what string) {
	synctest.Wait()
	if s.max > 0 {
		for _, rn := range c08Repos {
			n, err := s.srv.VerifUploadCount(rn)
			if err == nil && n > s.max {
				s.fail("bound-exceeded", "after %s: repository %s has %d open sessions, RepoUploadMax is %d", what, rn, n, s.max)
			}
		}
	}
}

func (s *c08State) residue(when string) {
	if s.root == "" {
		return
	}
	for _, rn := range c08Repos {
		if len(s.live(rn)) > 0 {
			continue
		}
		ents, _ := os.ReadDir(filepath.Join(s.root, rn, "_uploads"))
		for _, e := range ents {
			s.fail("upload-residue", "%s: no session of %s is open but _uploads/%s exists", when, rn, e.Name())
		}
	}
	_ = filepath.Walk(s.root, func(p string, fi os.FileInfo, err error) error {
		if err == nil && !fi.IsDir() && strings.HasPrefix(fi.Name(), "index.json.") {
			s.fail("temp-residue", "%s: temporary file %s left behind", when, p)
		}
		return nil
	})
}

func c08Property(t *rapid.T, st *Stats) {
	dirStore := rapid.Bool().Draw(t, "dirStore")
	max := rapid.SampledFrom([]int{-1, 1, 2, 3, 5}).Draw(t, "repoUploadMax")
	grace := rapid.SampledFrom([]time.Duration{-1, time.Minute}).Draw(t, "grace")
	if max == 1 && avoid("C08/bound-exceeded-max1") {
		st.Exclude("C08/bound-exceeded-max1")
		max = 2
	}
	e, cleanup := newEnv(t, st, dirStore, func(c *config.Config) {
		c.Storage.GC.RepoUploadMax = max
		c.Storage.GC.GracePeriod = grace
	})
	defer cleanup()
	e.repoPool = c08Repos
	s := &c08State{env: e, max: max, grace: grace, partials: map[string]bool{}}
	e.logf("store dir=%v RepoUploadMax=%d grace=%v", dirStore, max, grace)
	defer func() {
		if e.abandoned {
			return
		}
		nt := e.classes["refused-then-completed"] || e.classes["eviction-observed"] || e.classes["expiry-observed"]
		st.Case(e.trace, nt, e.classList()...)
	}()
	drawLive := func(t *rapid.T) *c08Sess {
		l := s.live("")
		if len(l) == 0 {
			t.Skip("no live session")
		}
		return l[rapid.IntRange(0, len(l)-1).Draw(t, "session")]
	}
	// drawOffsets produces the Content-Range and state of a PATCH/PUT. ok = both agree with the model length;
	// mustRefuse = a well-formed range start or state offset differs from the model length.
	drawOffsets := func(t *rapid.T, x *c08Sess, n int) (cr string, hasCR bool, state string, ok bool, mustRefuse bool, desc string) {
		cur := len(x.buf)
		ok = true
		switch rapid.SampledFrom([]string{"correct", "correct", "correct", "absent", "stale", "future", "malformed"}).Draw(t, "rangeKind") {
		case "correct":
			cr, hasCR = fmt.Sprintf("%d-%d", cur, cur+n-1), true
			desc = "range=ok"
		case "absent":
			desc = "range=absent"
		case "stale":
			if cur == 0 {
				cr, hasCR = fmt.Sprintf("%d-%d", cur, cur+n-1), true
				desc = "range=ok"
				break
			}
			st := rapid.IntRange(0, cur-1).Draw(t, "staleStart")
			cr, hasCR, ok, mustRefuse = fmt.Sprintf("%d-%d", st, st+n-1), true, false, true
			desc = fmt.Sprintf("range=stale(%d)", st)
		case "future":
			st := cur + rapid.IntRange(1, 10).Draw(t, "ahead")
			cr, hasCR, ok, mustRefuse = fmt.Sprintf("%d-%d", st, st+n-1), true, false, true
			desc = fmt.Sprintf("range=future(%d)", st)
		case "malformed":
			cr, hasCR, ok = rapid.SampledFrom([]string{"-5", "x-y", "5", "bytes=0-1", " 0-1"}).Draw(t, "badRange"), true, false
			desc = "range=malformed(" + cr + ")"
		}
		switch rapid.SampledFrom([]string{"current", "current", "current", "current", "older", "larger", "garbled", "absent"}).Draw(t, "stateKind") {
		case "current":
			state = stateTok(cur)
			desc += " state=ok"
		case "older":
			if cur == 0 {
				state = stateTok(cur)
				desc += " state=ok"
				break
			}
			o := rapid.IntRange(0, cur-1).Draw(t, "olderOffset")
			state, ok, mustRefuse = stateTok(o), false, true
			desc += fmt.Sprintf(" state=older(%d)", o)
		case "larger":
			o := cur + rapid.IntRange(1, 10).Draw(t, "largerBy")
			state, ok, mustRefuse = stateTok(o), false, true
			desc += fmt.Sprintf(" state=larger(%d)", o)
		case "garbled":
			state, ok = rapid.SampledFrom([]string{"!!!notbase64", base64.RawURLEncoding.EncodeToString([]byte("not json")), base64.RawURLEncoding.EncodeToString([]byte(`{"offset":"1"}`)), base64.RawURLEncoding.EncodeToString([]byte(`[]`))}).Draw(t, "badState"), false
			desc += " state=garbled"
		case "absent":
			state, ok = "", false
			desc += " state=absent"
		}
		return
	}
	t.Repeat(e.actions(map[string]func(*rapid.T){
		"post": func(t *rapid.T) {
			if len(s.sess) >= 12 {
				t.Skip("enough sessions")
			}
			rn := rapid.SampledFrom(c08Repos).Draw(t, "repo")
			burst := 1
			if rapid.IntRange(0, 4).Draw(t, "burst") == 0 {
				burst = rapid.IntRange(2, 4).Draw(t, "burstLen")
			}
			for i := 0; i < burst; i++ {
				u := "/v2/" + rn + "/blobs/uploads/"
				expect := ""
				if rapid.IntRange(0, 5).Draw(t, "mountFallback") == 0 {
					expect = dig("sha256", []byte("content the mount asked for"))
					u += "?mount=" + expect + "&from=no/such/repo"
				}
				r := s.do("POST", u, nil, nil)
				s.bad(r, "POST")
				if r.code != 202 {
					s.fail("post-refused", "POST %s answered %d (%s)", u, r.code, trunc(r.body, 100))
				}
				lu, err := url.Parse(r.hdr.Get("Location"))
				if err != nil || lu.Query().Get("state") == "" {
					s.fail("post-location", "POST Location %q has no state", r.hdr.Get("Location"))
				}
				x := &c08Sess{id: path.Base(lu.Path), repo: rn, path: lu.Path, states: []string{lu.Query().Get("state")}, expect: expect, lastUse: time.Now()}
				s.sess = append(s.sess, x)
				e.logf("post %s -> session #%d %s expect=%s", rn, len(s.sess)-1, x.id[:6], short(expect))
				if expect != "" {
					e.class("mount-fallback-session")
				}
				time.Sleep(time.Millisecond) // distinct use times
			}
			if s.max > 0 && len(s.live(rn)) > s.max {
				for _, x := range s.live(rn) {
					x.evictable = true
				}
				e.class("bound-exceeded-by-posts")
			}
			s.quiesce("POST")
		},
		"patch": func(t *rapid.T) {
			x := drawLive(t)
			chunk := rapid.SliceOfN(rapid.Byte(), 0, 48).Draw(t, "chunk")
			cr, hasCR, state, ok, mustRefuse, desc := drawOffsets(t, x, len(chunk))
			o := &reqOpt{hdr: map[string]string{}}
			if hasCR {
				o.hdr["Content-Range"] = cr
			}
			u := x.path
			if state != "" || rapid.Bool().Draw(t, "emptyStateParam") {
				u += "?state=" + url.QueryEscape(state)
			}
			r := s.do("PATCH", u, chunk, o)
			e.logf("patch #%s +%d at %d %s -> %d", x.id[:6], len(chunk), len(x.buf), desc, r.code)
			s.bad(r, "PATCH")
			if s.unknown(x, "PATCH", r) {
				return
			}
			if r.code >= 500 {
				s.fail("patch-5xx", "PATCH answered %d", r.code)
			}
			switch {
			case r.code == 202:
				if mustRefuse {
					s.fail("out-of-order-accepted", "PATCH with %s was accepted (202) although the session holds %d bytes", desc, len(x.buf))
				}
				x.buf = append(x.buf, chunk...)
				if len(x.buf) > 0 {
					d := dig("sha256", x.buf)
					x.partials = append(x.partials, d)
				}
				if len(chunk) == 0 {
					e.class("empty-chunk")
				}
				want := fmt.Sprintf("0-%d", len(x.buf)-1)
				if r.hdr.Get("Range") != want {
					s.fail("patch-range-header", "accepted PATCH reports Range %q, model %s", r.hdr.Get("Range"), want)
				}
				if lu, err := url.Parse(r.hdr.Get("Location")); err == nil {
					x.states = append(x.states, lu.Query().Get("state"))
				}
			case r.code >= 400:
				if ok {
					s.fail("in-order-refused", "PATCH with correct range and state at offset %d refused with %d (%s)", len(x.buf), r.code, trunc(r.body, 120))
				}
				if mustRefuse {
					x.refused = true
					e.class("out-of-order-refused")
				}
			default:
				s.fail("patch-status", "PATCH answered %d", r.code)
			}
			x.lastUse = time.Now()
			s.status(x, "PATCH "+desc)
		},
		"put": func(t *rapid.T) {
			x := drawLive(t)
			last := rapid.SliceOfN(rapid.Byte(), 0, 24).Draw(t, "lastChunk")
			cr, hasCR, state, ok, mustRefuse, desc := drawOffsets(t, x, len(last))
			content := append(append([]byte{}, x.buf...), last...)
			alg := rapid.SampledFrom([]string{"sha256", "sha256", "sha512"}).Draw(t, "alg")
			wrong := rapid.IntRange(0, 3).Draw(t, "wrongDigest") == 0
			d := dig(alg, content)
			if wrong {
				d = wrongDigest(rapid.SampledFrom([]string{"flip", "other-content"}).Draw(t, "wrongKind"), alg, content)
				if len(x.buf) > 0 && len(last) > 0 && rapid.Bool().Draw(t, "prefixDigest") {
					d = dig(alg, x.buf)
				}
			}
			o := &reqOpt{hdr: map[string]string{}}
			if hasCR {
				o.hdr["Content-Range"] = cr
			}
			q := url.Values{}
			q.Set("digest", d)
			if state != "" {
				q.Set("state", state)
			}
			r := s.do("PUT", x.path+"?"+q.Encode(), last, o)
			e.logf("put #%s +%d at %d %s digest=%s wrong=%v expect=%s -> %d", x.id[:6], len(last), len(x.buf), desc, short(d), wrong, short(x.expect), r.code)
			s.bad(r, "PUT")
			if s.unknown(x, "PUT", r) {
				return
			}
			if r.code >= 500 {
				s.fail("put-5xx", "PUT answered %d (session created for %q, completed with %s)", r.code, short(x.expect), short(d))
			}
			x.lastUse = time.Now()
			switch {
			case r.code == 201:
				if mustRefuse {
					s.fail("out-of-order-accepted", "PUT with %s completed (201) although the session holds %d bytes", desc, len(x.buf))
				}
				if wrong {
					s.fail("wrong-digest-completed", "PUT with a digest that does not match the %d accepted bytes answered 201", len(content))
				}
				x.dead = true
				g := s.do("GET", "/v2/"+x.repo+"/blobs/"+d, nil, nil)
				if g.code != 200 || !sameBytes(g.body, content) {
					s.fail("completed-blob-differs", "after 201 the blob %s is %d with %d bytes; the accepted chunks concatenate to %d bytes", short(d), g.code, len(g.body), len(content))
				}
				e.repo(x.repo).blobs[d] = content
				e.universe[d] = true
				if x.refused {
					e.class("refused-then-completed")
				}
				e.class("completed")
			case r.code >= 400:
				verifyMustFail := wrong || (x.expect != "" && d != x.expect)
				if ok && !verifyMustFail {
					s.fail("valid-completion-refused", "PUT with correct offsets and digest refused: %d %s", r.code, trunc(r.body, 120))
				}
				if mustRefuse {
					x.refused = true
					e.class("out-of-order-refused")
				}
				sr := s.do("GET", x.path, nil, nil)
				s.bad(sr, "status GET")
				alive := sr.code == 204
				unaltered := sr.hdr.Get("Range") == fmt.Sprintf("0-%d", len(x.buf)-1)
				switch {
				case mustRefuse || (!ok && !verifyMustFail):
					// refused for its offsets: the session must be exactly as before
					if alive && !unaltered {
						s.fail("refused-put-altered-session", "after a PUT refused with %d (%s) the session reports Range %q, model holds %d bytes", r.code, desc, sr.hdr.Get("Range"), len(x.buf))
					}
					if !alive && !s.unknown(x, "status after refused PUT", sr) {
						s.fail("status-after-refused-put", "status after a PUT refused for its offsets: %d", sr.code)
					}
				case ok && verifyMustFail:
					if alive {
						s.fail("failed-verification-session-alive", "PUT failed verification (%d) but the session still exists (Range %q)", r.code, sr.hdr.Get("Range"))
					}
					x.dead = true
					e.class("failed-verification")
				default:
					// malformed/absent offsets together with a digest that cannot verify: refused either way
					if alive && !unaltered {
						s.fail("refused-put-altered-session", "after a refused PUT (%d, %s) the session reports Range %q, model holds %d bytes", r.code, desc, sr.hdr.Get("Range"), len(x.buf))
					}
					if !alive {
						x.dead = true
					}
				}
			default:
				s.fail("put-status", "PUT answered %d", r.code)
			}
		},
		"cancel": func(t *rapid.T) {
			x := drawLive(t)
			r := s.do("DELETE", x.path, nil, nil)
			e.logf("cancel #%s -> %d", x.id[:6], r.code)
			s.bad(r, "DELETE")
			if s.unknown(x, "DELETE", r) {
				return
			}
			if r.code != 202 {
				s.fail("cancel-status", "DELETE of an open session answered %d", r.code)
			}
			x.dead = true
			e.class("cancelled")
		},
		"status": func(t *rapid.T) {
			x := drawLive(t)
			e.logf("status #%s", x.id[:6])
			s.status(x, "nothing")
		},
		"foreign": func(t *rapid.T) {
			x := drawLive(t)
			other := c08Repos[0]
			if x.repo == other {
				other = c08Repos[1]
			}
			m := rapid.SampledFrom([]string{"GET", "PATCH", "PUT", "DELETE"}).Draw(t, "method")
			u := "/v2/" + other + "/blobs/uploads/" + x.id + "?state=" + x.states[len(x.states)-1]
			var body []byte
			if m == "PATCH" || m == "PUT" {
				body = []byte("zz")
			}
			if m == "PUT" {
				u += "&digest=" + dig("sha256", append(append([]byte{}, x.buf...), body...))
			}
			r := s.do(m, u, body, nil)
			e.logf("foreign %s on #%s via %s -> %d", m, x.id[:6], other, r.code)
			s.bad(r, "foreign "+m)
			if r.code < 400 || r.code >= 500 {
				s.fail("foreign-repo-accepted", "%s on session %s of %s through %s answered %d", m, x.id[:6], x.repo, other, r.code)
			}
			e.class("foreign-use")
			s.status(x, "foreign "+m)
		},
		"useDead": func(t *rapid.T) {
			dead := []*c08Sess{}
			for _, x := range s.sess {
				if x.dead {
					dead = append(dead, x)
				}
			}
			if len(dead) == 0 {
				t.Skip("no ended session")
			}
			x := dead[rapid.IntRange(0, len(dead)-1).Draw(t, "session")]
			m := rapid.SampledFrom([]string{"GET", "PATCH", "PUT", "DELETE"}).Draw(t, "method")
			u := x.path + "?state=" + x.states[len(x.states)-1]
			var body []byte
			if m == "PATCH" || m == "PUT" {
				body = []byte("late")
			}
			if m == "PUT" {
				u += "&digest=" + dig("sha256", append(append([]byte{}, x.buf...), body...))
			}
			r := s.do(m, u, body, nil)
			e.logf("useDead %s on #%s -> %d", m, x.id[:6], r.code)
			s.bad(r, "use after end")
			if r.code < 400 || r.code >= 500 {
				s.fail("use-after-end", "%s on the ended session %s answered %d", m, x.id[:6], r.code)
			}
			e.class("use-after-end")
		},
		"sleep": func(t *rapid.T) {
			d := rapid.SampledFrom([]time.Duration{time.Second, 30 * time.Second, 59 * time.Second, 61 * time.Second, 67 * time.Second, 3 * time.Minute}).Draw(t, "sleep")
			e.logf("sleep %v", d)
			time.Sleep(d)
			s.quiesce("sleep")
			e.class("sleep")
			// expiry must actually happen: a session idle for twice the grace period (the cache prunes at 1.1x) is gone
			if s.grace > 0 {
				for _, x := range s.live("") {
					if idle := time.Since(x.lastUse); idle >= 2*s.grace {
						r := s.do("GET", x.path, nil, nil)
						s.bad(r, "status GET")
						if r.code == 204 {
							s.fail("session-not-expired", "session %s of %s has been idle for %v (grace period %v) and still answers its status query with 204", x.id[:6], x.repo, idle, s.grace)
						}
						if !s.unknown(x, "status GET after idle "+idle.String(), r) {
							s.fail("status-mismatch", "idle session: status GET answered %d", r.code)
						}
					}
				}
			}
			s.residue("after sleep")
		},
		"": func(*rapid.T) {
			s.residue("quiescent point")
		},
	}))
	if e.abandoned {
		return
	}
	e.guard(func() {
		// no digest of partial content is ever served unless that content was pushed as such
		for _, x := range s.sess {
			for _, d := range x.partials {
				if _, ok := e.repo(x.repo).blobs[d]; ok {
					continue
				}
				g := s.do("HEAD", "/v2/"+x.repo+"/blobs/"+d, nil, nil)
				if g.code == 200 {
					s.fail("partial-content-served", "digest %s of the partial content of session %s is served as a blob", short(d), x.id[:6])
				}
			}
		}
		// at Close nothing may remain
		_ = e.srv.Close()
		for _, x := range s.sess {
			x.dead = true
		}
		s.residue("after Close")
		e.srv = nil
	})
}

func TestC08(t *testing.T) {
	st := newStats("TestC08", "C08", c08Rule)
	bubbleCheck(t, func(rt *rapid.T) { c08Property(rt, st) })
}
