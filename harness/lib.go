// Package vh is the verification harness for olareg (property-based tests and fuzz targets).
// It is copied next to a scratch copy of /repo by /verif/verif.py and built with -tags verif.
package vh

import (
	"bytes"
	"crypto/sha256"
	"crypto/sha512"
	"encoding/base64"
	"encoding/hex"
	"encoding/json"
	"fmt"
	"hash/fnv"
	"io"
	"net/http"
	"net/http/httptest"
	"os"
	"os/exec"
	"path/filepath"
	"runtime"
	"runtime/debug"
	"sort"
	"strconv"
	"strings"
	"sync"
)

// ---------------------------------------------------------------- environment

var (
	outDir   = envOr("VERIF_OUT", "")
	shardID  = envOr("VERIF_SHARD", "0")
	tierName = envOr("VERIF_TIER", "quick")
	// openFindings: signatures of open known findings (avoidance switches are on for them)
	openFindings = func() map[string]bool {
		m := map[string]bool{}
		for _, s := range strings.Split(os.Getenv("VERIF_KNOWN_OPEN"), ",") {
			if s = strings.TrimSpace(s); s != "" {
				m[s] = true
			}
		}
		return m
	}()
)

func envOr(k, d string) string {
	if v := os.Getenv(k); v != "" {
		return v
	}
	return d
}

func envInt(k string, d int) int {
	if v := os.Getenv(k); v != "" {
		if n, err := strconv.Atoi(v); err == nil {
			return n
		}
	}
	return d
}

// avoid reports whether the generator must steer around the open known finding sig.
func avoid(sig string) bool { return openFindings[sig] }

// tmpBase is where per-case directory roots are created (RAM backed when available).
func tmpBase() string {
	if v := os.Getenv("VERIF_TMP"); v != "" {
		return v
	}
	if fi, err := os.Stat("/dev/shm"); err == nil && fi.IsDir() {
		return "/dev/shm"
	}
	return os.TempDir()
}

func mkTemp(prefix string) string {
	d, err := os.MkdirTemp(tmpBase(), "vh-"+prefix+"-")
	if err != nil {
		panic(err)
	}
	return d
}

// ---------------------------------------------------------------- stats / evidence

// Stats collects what a test explored. One per test function, flushed by TestMain.
type Stats struct {
	mu          sync.Mutex
	Name        string
	Property    string
	Rule        string
	Evaluations int
	nontriv     map[uint64]struct{}
	Classes     map[string]int
	Excluded    map[string]int
	Samples     []any
	Extra       map[string]any
	failed      bool
	maxSamples  int
}

var (
	statsMu  sync.Mutex
	statsAll = map[string]*Stats{}
)

func newStats(name, prop, rule string) *Stats {
	statsMu.Lock()
	defer statsMu.Unlock()
	if s, ok := statsAll[name]; ok {
		return s
	}
	s := &Stats{Name: name, Property: prop, Rule: rule, nontriv: map[uint64]struct{}{}, Classes: map[string]int{}, Excluded: map[string]int{}, Extra: map[string]any{}, maxSamples: 4}
	statsAll[name] = s
	return s
}

func hashStrings(ss []string) uint64 {
	h := fnv.New64a()
	for _, s := range ss {
		h.Write([]byte(s))
		h.Write([]byte{0})
	}
	return h.Sum64()
}

// Case records one executed case. trace is the canonical description of the case (used for
// distinctness and as a sample); classes are labels counted in the class histogram.
func (s *Stats) Case(trace []string, nontrivial bool, classes ...string) {
	s.CaseSample(trace, nil, nontrivial, classes...)
}

// CaseSample is Case with a separate, readable sample (key decides distinctness only).
func (s *Stats) CaseSample(trace []string, sample []string, nontrivial bool, classes ...string) {
	s.mu.Lock()
	defer s.mu.Unlock()
	if s.failed {
		return // shrinking replays are not counted
	}
	s.Evaluations++
	if s.Evaluations%5000 == 0 && os.Getenv("VERIF_FUZZ") != "" {
		defer func() { go flushStats() }() // fuzz workers may be killed without running TestMain's epilogue
	}
	for _, c := range classes {
		s.Classes[c]++
	}
	if nontrivial {
		h := hashStrings(trace)
		if _, ok := s.nontriv[h]; !ok {
			s.nontriv[h] = struct{}{}
			n := len(s.nontriv)
			// keep the 1st, 2nd, 4th, 8th ... distinct non-trivial case, at most maxSamples
			if n&(n-1) == 0 && len(s.Samples) < s.maxSamples+2 {
				cp := append([]string(nil), trace...)
				if sample != nil {
					cp = append([]string(nil), sample...)
				}
				if len(cp) > 60 {
					cp = append(cp[:60], fmt.Sprintf("... (%d more steps)", len(trace)-60))
				}
				s.Samples = append(s.Samples, cp)
			}
		}
	}
}

func (s *Stats) Exclude(what string) {
	s.mu.Lock()
	s.Excluded[what]++
	s.mu.Unlock()
}

func (s *Stats) Add(class string, n int) {
	s.mu.Lock()
	if !s.failed {
		s.Classes[class] += n
	}
	s.mu.Unlock()
}

func (s *Stats) SetExtra(k string, v any) {
	s.mu.Lock()
	s.Extra[k] = v
	s.mu.Unlock()
}

func (s *Stats) markFailed() {
	s.mu.Lock()
	s.failed = true
	s.mu.Unlock()
}

type statsOut struct {
	Name               string         `json:"name"`
	Property           string         `json:"property"`
	Rule               string         `json:"rule"`
	Evaluations        int            `json:"evaluations"`
	DistinctNontrivial int            `json:"distinct_nontrivial"`
	NontrivialHashes   []uint64       `json:"nontrivial_hashes"`
	Classes            map[string]int `json:"classes"`
	Excluded           map[string]int `json:"excluded_by_known_finding"`
	Samples            []any          `json:"samples"`
	Extra              map[string]any `json:"extra"`
}

func flushStats() {
	if outDir == "" {
		return
	}
	statsMu.Lock()
	defer statsMu.Unlock()
	for _, s := range statsAll {
		s.mu.Lock()
		o := statsOut{Name: s.Name, Property: s.Property, Rule: s.Rule, Evaluations: s.Evaluations, DistinctNontrivial: len(s.nontriv),
			Classes: s.Classes, Excluded: s.Excluded, Samples: s.Samples, Extra: s.Extra}
		// hashes let the driver count distinct cases across shards (capped)
		for h := range s.nontriv {
			if len(o.NontrivialHashes) >= 200000 {
				break
			}
			o.NontrivialHashes = append(o.NontrivialHashes, h)
		}
		s.mu.Unlock()
		b, _ := json.Marshal(o)
		name := fmt.Sprintf("stats-%s-%s.json", s.Name, shardID)
		if os.Getenv("VERIF_FUZZ") != "" {
			name = fmt.Sprintf("stats-%s-%s-%d.json", s.Name, shardID, os.Getpid())
		}
		_ = os.WriteFile(filepath.Join(outDir, name), b, 0o644)
	}
}

// ---------------------------------------------------------------- failure records

// TB is the part of *testing.T / *rapid.T the harness needs.
type TB interface {
	Fatalf(format string, args ...any)
	Logf(format string, args ...any)
}

type failRec struct {
	Property  string   `json:"property"`
	Signature string   `json:"signature"`
	Test      string   `json:"test"`
	Message   string   `json:"message"`
	Trace     []string `json:"trace"`
	Config    any      `json:"config,omitempty"`
	Shard     string   `json:"shard"`
}

var failMu sync.Mutex

// Fail writes (or replaces by a shorter) failure record and fails the test.
// key identifies the violated assertion; the signature prop/key is what known_findings.json matches on.
func Fail(t TB, st *Stats, key, msg string, trace []string, conf any) {
	if st != nil {
		st.markFailed()
	}
	rec := failRec{Property: st.Property, Signature: st.Property + "/" + key, Test: st.Name, Message: msg, Trace: trace, Config: conf, Shard: shardID}
	if outDir != "" {
		failMu.Lock()
		p := filepath.Join(outDir, fmt.Sprintf("fail-%s-%s.json", st.Name, shardID))
		if os.Getenv("VERIF_FUZZ") != "" {
			p = filepath.Join(outDir, fmt.Sprintf("fail-%s-%s-%d.json", st.Name, shardID, os.Getpid()))
		}
		write := true
		if old, err := os.ReadFile(p); err == nil {
			var o failRec
			if json.Unmarshal(old, &o) == nil && len(o.Trace) < len(trace) {
				write = false
			}
		}
		if write {
			b, _ := json.MarshalIndent(rec, "", " ")
			_ = os.WriteFile(p, b, 0o644)
		}
		failMu.Unlock()
	}
	t.Fatalf("VIOLATION-CANDIDATE %s: %s\nTRACE:\n  %s", rec.Signature, msg, strings.Join(trace, "\n  "))
}

// ---------------------------------------------------------------- digests

func dig(alg string, b []byte) string {
	switch alg {
	case "sha512":
		h := sha512.Sum512(b)
		return "sha512:" + hex.EncodeToString(h[:])
	case "sha384":
		h := sha512.Sum384(b)
		return "sha384:" + hex.EncodeToString(h[:])
	}
	h := sha256.Sum256(b)
	return "sha256:" + hex.EncodeToString(h[:])
}

func digAlg(d string) string {
	a, _, _ := strings.Cut(d, ":")
	return a
}

// hashesTo reports whether b hashes to d under d's own algorithm (unknown algorithm => false).
func hashesTo(d string, b []byte) bool {
	a := digAlg(d)
	if a != "sha256" && a != "sha384" && a != "sha512" {
		return false
	}
	return dig(a, b) == d
}

func short(d string) string {
	if i := strings.Index(d, ":"); i >= 0 && len(d) > i+9 {
		return d[:i+1] + d[i+1:i+9]
	}
	return d
}

// ---------------------------------------------------------------- http

type resp struct {
	code   int
	hdr    http.Header
	body   []byte
	panicV any
	stack  string
}

type reqOpt struct {
	hdr       map[string]string
	multiHdr  map[string][]string
	unknownCL bool
	remote    string
	chunkRead int // >0: the body is delivered in reads of at most this many bytes (as from a network connection)
	truncate  bool // the transfer breaks off after half of the body (the reader returns io.ErrUnexpectedEOF)
	midAt     int    // with midBody: the body is delivered as body[:midAt], then midBody runs (once, on the handler's goroutine, inside Read), then the rest
	midBody   func() // what another client does while this request's body is on its way
}

// hookReader delivers b[:at] in one Read, calls fn inside the next Read, then delivers the rest.
type hookReader struct {
	b    []byte
	at   int
	pos  int
	fn   func()
	done bool
}

func (h *hookReader) Read(p []byte) (int, error) {
	if h.pos >= h.at && !h.done {
		h.done = true
		h.fn()
	}
	if h.pos >= len(h.b) {
		return 0, io.EOF
	}
	end := len(h.b)
	if h.pos < h.at {
		end = h.at
	}
	n := copy(p, h.b[h.pos:end])
	h.pos += n
	return n, nil
}

// brokenReader delivers its bytes and then fails the way net/http does when a client stops sending.
type brokenReader struct{ r io.Reader }

func (b *brokenReader) Read(p []byte) (int, error) {
	n, err := b.r.Read(p)
	if err == io.EOF {
		err = io.ErrUnexpectedEOF
	}
	return n, err
}

// slowReader hands out at most n bytes per Read and hides WriterTo, so that io.Copy on the server side takes
// several Write calls as it does with a body that arrives over a connection.
type slowReader struct {
	r io.Reader
	n int
}

func (s *slowReader) Read(p []byte) (int, error) {
	if len(p) > s.n {
		p = p[:s.n]
	}
	runtime.Gosched()
	return s.r.Read(p)
}

// doReq runs one request in-process. A panic of the handler is captured, not propagated.
func doReq(h http.Handler, method, url string, body []byte, o *reqOpt) (r resp) {
	var rdr io.Reader
	if body != nil {
		rdr = bytes.NewReader(body)
	}
	if o != nil && o.chunkRead > 0 && rdr != nil {
		rdr = &slowReader{r: rdr, n: o.chunkRead}
	}
	if o != nil && o.truncate && len(body) > 0 {
		rdr = &brokenReader{r: bytes.NewReader(body[:len(body)/2])}
	}
	if o != nil && o.midBody != nil && body != nil {
		rdr = &hookReader{b: body, at: o.midAt, fn: o.midBody}
	}
	var req *http.Request
	func() {
		defer func() {
			if p := recover(); p != nil {
				req = nil
				r.panicV = fmt.Sprintf("cannot build request: %v", p)
			}
		}()
		req = httptest.NewRequest(method, url, rdr)
	}()
	if req == nil {
		r.code = -1
		return r
	}
	if o != nil {
		for k, v := range o.hdr {
			req.Header.Set(k, v)
		}
		for k, vs := range o.multiHdr {
			for _, v := range vs {
				req.Header.Add(k, v)
			}
		}
		if o.unknownCL {
			req.ContentLength = -1
		}
		if o.remote != "" {
			req.RemoteAddr = o.remote
		}
	}
	w := httptest.NewRecorder()
	func() {
		defer func() {
			if p := recover(); p != nil {
				r.panicV = p
				r.stack = string(debug.Stack())
			}
		}()
		h.ServeHTTP(w, req)
	}()
	if r.panicV != nil {
		r.code = -1
		return r
	}
	res := w.Result()
	b, _ := io.ReadAll(res.Body)
	r.code, r.hdr, r.body = res.StatusCode, res.Header, b
	return r
}

func hdr(kv ...string) *reqOpt {
	o := &reqOpt{hdr: map[string]string{}}
	for i := 0; i+1 < len(kv); i += 2 {
		o.hdr[kv[i]] = kv[i+1]
	}
	return o
}

// ---------------------------------------------------------------- manifests

const (
	mtImage   = "application/vnd.oci.image.manifest.v1+json"
	mtIndex   = "application/vnd.oci.image.index.v1+json"
	mtDImage  = "application/vnd.docker.distribution.manifest.v2+json"
	mtDIndex  = "application/vnd.docker.distribution.manifest.list.v2+json"
	mtConfig  = "application/vnd.oci.image.config.v1+json"
	mtDConfig = "application/vnd.docker.container.image.v1+json"
	mtLayer   = "application/vnd.oci.image.layer.v1.tar"
	mtEmpty   = "application/vnd.oci.empty.v1+json"
)

var allManifestTypes = []string{mtImage, mtIndex, mtDImage, mtDIndex}
var acceptAll = strings.Join(allManifestTypes, ", ")

func isIndexType(mt string) bool { return mt == mtIndex || mt == mtDIndex }
func isImageType(mt string) bool { return mt == mtImage || mt == mtDImage }

type mdesc struct {
	MediaType    string            `json:"mediaType"`
	Digest       string            `json:"digest"`
	Size         int64             `json:"size"`
	ArtifactType string            `json:"artifactType,omitempty"`
	Annotations  map[string]string `json:"annotations,omitempty"`
}

type mbody struct {
	SchemaVersion int               `json:"schemaVersion"`
	MediaType     string            `json:"mediaType,omitempty"`
	ArtifactType  string            `json:"artifactType,omitempty"`
	Config        *mdesc            `json:"config,omitempty"`
	Layers        []mdesc           `json:"layers,omitempty"`
	Manifests     []mdesc           `json:"manifests,omitempty"`
	Subject       *mdesc            `json:"subject,omitempty"`
	Annotations   map[string]string `json:"annotations,omitempty"`
}

func sortedKeys[V any](m map[string]V) []string {
	k := make([]string, 0, len(m))
	for s := range m {
		k = append(k, s)
	}
	sort.Strings(k)
	return k
}

func bp(b bool) *bool { return &b }

func mapEq(a, b map[string]string) bool {
	if len(a) != len(b) {
		return false
	}
	for k, v := range a {
		if w, ok := b[k]; !ok || w != v {
			return false
		}
	}
	return true
}

func trunc(b []byte, n int) string {
	if len(b) > n {
		return string(b[:n]) + "..."
	}
	return string(b)
}

// rmTree removes a directory tree (kept separate so that callers can run it late, after stuck goroutines).
func rmTree(p string) error { return os.RemoveAll(p) }

func contains(l []string, x string) bool {
	for _, y := range l {
		if y == x {
			return true
		}
	}
	return false
}

// stateTok builds the state token the server hands out for an upload session at the given offset.
func stateTok(off int) string {
	return base64.RawURLEncoding.EncodeToString([]byte(fmt.Sprintf(`{"offset":%d}`, off)))
}

// goid returns the id of the calling goroutine (parsed from its stack header; for attribution in hooks only).
func goid() int64 {
	var buf [64]byte
	b := buf[:runtime.Stack(buf[:], false)]
	b = b[len("goroutine "):]
	id, _ := strconv.ParseInt(string(b[:bytes.IndexByte(b, ' ')]), 10, 64)
	return id
}

// copyTree copies a directory tree with modes and times (cp -a).
func copyTree(src, dst string) {
	_ = os.MkdirAll(dst, 0o755)
	cmd := exec.Command("cp", "-a", src+"/.", dst+"/")
	if out, err := cmd.CombinedOutput(); err != nil {
		// a directory that was not copied would be judged as if the registry had lost its content
		infraExit(fmt.Sprintf("copyTree %s -> %s: %v: %s", src, dst, err, out))
	}
}

// infraExit ends the test process for a problem of the harness' own environment (never a verdict on the property):
// the driver reports a shard that ends without a failure record as an infrastructure problem (exit 2).
func infraExit(msg string) {
	fmt.Fprintln(os.Stderr, "INFRA: "+msg)
	os.Exit(3)
}
