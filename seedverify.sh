#!/bin/bash
# seedverify.sh <seed-worktree-dir> <name> <property> : verify a seeded change independently and store it under /verif/seeded/<name>/
# (demo passes on the clean tree, fails with the patch, the repository's suite passes with the patch)
set -u
export GOFLAGS=-mod=mod GOPROXY=off GOSUMDB=off GOTOOLCHAIN=local
SRC=$1; NAME=$2; PROP=$3
W=/tmp/sv-$NAME
git -C /repo worktree remove --force $W 2>/dev/null
git -C /repo worktree add -q --detach $W HEAD || exit 2
# the demo file(s): untracked *_test.go files of the seed worktree
DEMOS=$(git -C $SRC status --porcelain | awk '$1=="??"{print $2}' | grep '_test.go$')
echo "demo files: $DEMOS"
for f in $DEMOS; do mkdir -p $W/$(dirname $f); cp $SRC/$f $W/$f; done
PKGS=$(for f in $DEMOS; do echo ./$(dirname $f); done | sort -u)
RUN=$(grep -ho 'func Test[A-Za-z0-9_]*' $(for f in $DEMOS; do echo $SRC/$f; done) | sed 's/func //' | paste -sd'|')
echo "tests: $RUN in $PKGS"
( cd $W && go test -vet=off -count=1 -run "^($RUN)\$" $PKGS > /tmp/sv-$NAME.clean.log 2>&1 ); CLEAN=$?
( cd $W && git apply $SRC/seed/patch.diff ) || { echo "PATCH DOES NOT APPLY"; exit 2; }
( cd $W && go build ./... ) || { echo "DOES NOT BUILD"; exit 2; }
( cd $W && go test -vet=off -count=1 -run "^($RUN)\$" $PKGS > /tmp/sv-$NAME.patched.log 2>&1 ); PATCHED=$?
# the suite without the demo files
for f in $DEMOS; do rm -f $W/$f; done
# timing-sensitive tests of the repository flake under load (on the pinned tree too): up to 3 attempts
# TestGarbageCollectUpload is racy by its own comment ("implicitly racy") and hangs in its cleanup when it loses the race on a busy machine: it runs alone, up to 5 attempts
SUITE=1; for attempt in 1 2 3; do ( cd $W && go test -vet=off -count=1 -timeout 180s -skip 'TestGarbageCollectUpload' ./... > /tmp/sv-$NAME.suite.log 2>&1 ); SUITE=$?; [ $SUITE -eq 0 ] && break; done
if [ $SUITE -eq 0 ]; then SUITE=1; for attempt in 1 2 3 4 5; do ( cd $W && go test -vet=off -count=1 -timeout 60s -run 'TestGarbageCollectUpload' ./internal/store >> /tmp/sv-$NAME.suite.log 2>&1 ); SUITE=$?; [ $SUITE -eq 0 ] && break; done; fi
echo "demo on clean tree rc=$CLEAN (want 0); demo with patch rc=$PATCHED (want !=0); suite with patch rc=$SUITE (want 0)"
if [ $CLEAN -eq 0 ] && [ $PATCHED -ne 0 ] && [ $SUITE -eq 0 ]; then
  D=/verif/seeded/$NAME; mkdir -p $D
  cp $SRC/seed/patch.diff $D/patch.diff
  i=0; for f in $DEMOS; do cp $SRC/$f $D/demo_$(basename $f .go).go.txt; echo "$f" >> $D/demo_placement.txt; i=$((i+1)); done
  cp $SRC/seed/notes.md $D/notes.md 2>/dev/null
  python3 - "$D" "$PROP" "$RUN" "$PKGS" <<'PY'
import json,sys,os
d,prop,run,pkgs=sys.argv[1:5]
meta={"property":prop,"check_with":[prop],"tier":"quick","origin":"independent sub-agent given only the property text and a scratch worktree",
"needs_to_manifest":"see notes.md","verified":{"demo_on_clean_tree":"pass","demo_with_patch":"fail","repository_suite_with_patch":"pass",
"commands":["go test -vet=off -count=1 -run '^(%s)$' %s   (clean worktree of /repo HEAD, then after git apply patch.diff)"%(run,pkgs),"go test -vet=off -count=1 ./...   (with patch, demo removed)"]},
"demo_files":"demo_*.go.txt (renamed so that no tool compiles them here; placement in demo_placement.txt)"}
json.dump(meta,open(os.path.join(d,"meta.json"),"w"),indent=1)
PY
  echo "STORED $D"
else
  echo "REJECTED"; for f in clean patched suite; do echo "--- $f"; tail -15 /tmp/sv-$NAME.$f.log | cut -c1-300; done
fi
git -C /repo worktree remove --force $W
