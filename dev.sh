#!/bin/bash
# developer loop: dev.sh [-g go1.26.8] [-t tags] [-w vfs|vsync] <go test args...>   (scratch copy under /var/tmp/dev)
export GOFLAGS=-mod=mod GOPROXY=off GOSUMDB=off GOTOOLCHAIN=local
GO=go; TAGS=verif; RW=""
while [ $# -gt 0 ]; do case "$1" in -g) GO=$2; shift 2;; -t) TAGS=$2; shift 2;; -w) RW=$2; shift 2;; *) break;; esac; done
D=/var/tmp/dev$RW
mkdir -p $D/src $D/harness $D/out
rsync -a --delete --exclude .git /repo/ $D/src/
cp /verif/inject/verif_hooks.go $D/src/verif_hooks.go
cp /verif/inject/store_verif_hooks.go $D/src/internal/store/verif_hooks.go
if [ -n "$RW" ]; then python3 - "$D/src" "$RW" <<'PY'
import sys
sys.path.insert(0,'/verif')
import verif
getattr(verif,'rewrite_'+sys.argv[2])(sys.argv[1])
PY
fi
rsync -a --delete --exclude go.sum --exclude testdata /verif/harness/ $D/harness/
cp -n /repo/go.sum $D/harness/go.sum 2>/dev/null
rm -f $D/out/*; rm -rf $D/harness/testdata
cd $D/harness && VERIF_OUT=$D/out VERIF_SRC=$D/src VERIF_DIR=/verif $GO test -vet=off -tags $TAGS "$@"
